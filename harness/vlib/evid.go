// Package vlib is the shared library of the runtime-monitoring harness.
package vlib

import (
	"bufio"
	"encoding/json"
	"fmt"
	"hash/fnv"
	"os"
	"path/filepath"
	"sort"
	"strconv"
	"strings"
	"sync"
	"time"
)

// Root returns the /verif directory (VERIF_ROOT overrides, for snapshots).
func Root() string {
	if r := os.Getenv("VERIF_ROOT"); r != "" {
		return r
	}
	return "/verif"
}

// Seed returns VERIF_SEED (default 1).
func Seed() int64 {
	if s := os.Getenv("VERIF_SEED"); s != "" {
		if v, err := strconv.ParseInt(s, 10, 64); err == nil {
			return v
		}
	}
	return 1
}

// Tier returns "quick" or "thorough".
func Tier() string {
	if os.Getenv("VERIF_TIER") == "thorough" {
		return "thorough"
	}
	return "quick"
}

// Thorough reports whether the thorough tier was requested.
func Thorough() bool { return Tier() == "thorough" }

// Scale picks a case count by tier.
func Scale(quick, thorough int) int {
	if Thorough() {
		return thorough
	}
	return quick
}

// Violation is one refuting observation.
type Violation struct {
	Key    string      `json:"key"`
	Detail interface{} `json:"detail"`
	Replay string      `json:"replay,omitempty"`
	Known  bool        `json:"known"`
}

// Evidence accumulates what a check observed and renders the evidence file.
type Evidence struct {
	mu            sync.Mutex
	ID            string
	Level         string
	Rule          string
	start         time.Time
	evals         int
	distinct      map[uint64]struct{}
	samples       []interface{}
	maxSample     int
	counters      map[string]int64
	notes         map[string]interface{}
	assume        []string
	viol          []Violation
	violKeys      map[string]int
	known         map[string]string
	inconcl       int
	pendingExport []Violation
	exhaust       bool
	minNT         int
}

// NewEvidence starts an evidence record for one property.
func NewEvidence(id, level, rule string) *Evidence {
	e := &Evidence{
		ID: id, Level: level, Rule: rule, start: time.Now(),
		distinct: map[uint64]struct{}{}, maxSample: 6,
		counters: map[string]int64{}, notes: map[string]interface{}{},
		violKeys: map[string]int{}, known: map[string]string{}, minNT: 2,
	}
	e.loadKnown()
	return e
}

func (e *Evidence) loadKnown() {
	f, err := os.Open(filepath.Join(Root(), "known_findings.txt"))
	if err != nil {
		return
	}
	defer f.Close()
	sc := bufio.NewScanner(f)
	for sc.Scan() {
		line := strings.TrimSpace(sc.Text())
		if !strings.HasPrefix(line, "known:") {
			continue
		}
		fields := strings.Fields(line[len("known:"):])
		var prop, key string
		rest := []string{}
		for _, f := range fields {
			switch {
			case strings.HasPrefix(f, "property=") && prop == "":
				prop = f[len("property="):]
			case strings.HasPrefix(f, "key=") && key == "":
				key = f[len("key="):]
			default:
				rest = append(rest, f)
			}
		}
		if prop == e.ID && key != "" {
			e.known[key] = strings.Join(rest, " ")
		}
	}
}

// MinNontrivial sets the minimum number of distinct non-trivial cases below
// which the run is reported as a harness failure (inconclusive).
func (e *Evidence) MinNontrivial(n int) { e.minNT = n }

// Assume records an assumption / trusted-base statement.
func (e *Evidence) Assume(s string) {
	e.mu.Lock()
	e.assume = append(e.assume, s)
	e.mu.Unlock()
}

// Case counts one evaluated case; desc identifies it for distinctness and
// nontrivial says whether it satisfies the property's non-triviality rule.
func (e *Evidence) Case(desc string, nontrivial bool) {
	e.mu.Lock()
	e.evals++
	if nontrivial {
		h := fnv.New64a()
		h.Write([]byte(desc))
		e.distinct[h.Sum64()] = struct{}{}
	}
	e.mu.Unlock()
}

// Sample keeps a few written-out cases.
func (e *Evidence) Sample(v interface{}) {
	e.mu.Lock()
	if len(e.samples) < e.maxSample {
		e.samples = append(e.samples, v)
	}
	e.mu.Unlock()
}

// Count adds n to a named counter of observations.
func (e *Evidence) Count(key string, n int64) {
	e.mu.Lock()
	e.counters[key] += n
	e.mu.Unlock()
}

// Note stores a free-form observation in the coverage object.
func (e *Evidence) Note(key string, v interface{}) {
	e.mu.Lock()
	e.notes[key] = v
	e.mu.Unlock()
}

// Inconclusive counts a case whose guard failed.
func (e *Evidence) Inconclusive(why string) {
	e.mu.Lock()
	e.inconcl++
	e.counters["inconclusive:"+why]++
	e.mu.Unlock()
}

// Exhaustive marks the run as having enumerated a finite space completely.
func (e *Evidence) Exhaustive() { e.exhaust = true }

// Violate records a violation under a stable key. Known findings are printed
// as KNOWN-FINDING (once per key); others get a replay file and a VIOLATION
// line (a few per key at most).
func (e *Evidence) Violate(key string, detail interface{}) {
	// An observation that rests on a call cut short by the harness's own
	// watchdog proves nothing about the system: it is inconclusive.
	if strings.Contains(fmt.Sprintf("%v", detail), ErrWatchdog.Error()) {
		e.Inconclusive("harness-watchdog")
		return
	}
	e.mu.Lock()
	defer e.mu.Unlock()
	key = strings.Join(strings.Fields(key), "_")
	e.violKeys[key]++
	n := e.violKeys[key]
	if what, ok := e.known[key]; ok {
		if n == 1 {
			fmt.Printf("KNOWN-FINDING: property=%s key=%s %s\n", e.ID, key, what)
			e.viol = append(e.viol, Violation{Key: key, Detail: detail, Known: true})
		}
		return
	}
	if n > 3 {
		return
	}
	dir := filepath.Join(Root(), "replay")
	os.MkdirAll(dir, 0o755)
	path := filepath.Join(dir, fmt.Sprintf("%s-seed%d-%s-%d.json", e.ID, Seed(), sanitize(key), n))
	body, _ := json.MarshalIndent(map[string]interface{}{
		"property_id": e.ID, "seed": Seed(), "tier": Tier(), "key": key, "detail": detail,
	}, "", " ")
	os.WriteFile(path, body, 0o644)
	fmt.Printf("VIOLATION property=%s replay=%s\n", e.ID, path)
	fmt.Printf("  key=%s detail=%s\n", key, truncate(fmt.Sprintf("%+v", detail), 600))
	e.viol = append(e.viol, Violation{Key: key, Detail: detail, Replay: path})
}

func sanitize(s string) string {
	var b strings.Builder
	for _, r := range s {
		if r >= 'a' && r <= 'z' || r >= 'A' && r <= 'Z' || r >= '0' && r <= '9' || r == '-' || r == '_' || r == '.' {
			b.WriteRune(r)
		} else {
			b.WriteByte('_')
		}
	}
	out := b.String()
	if len(out) > 80 {
		out = out[:80]
	}
	return out
}

func truncate(s string, n int) string {
	if len(s) > n {
		return s[:n] + "..."
	}
	return s
}

// Unknown returns the number of violations not listed as known findings.
func (e *Evidence) Unknown() int {
	e.mu.Lock()
	defer e.mu.Unlock()
	n := 0
	for _, v := range e.viol {
		if !v.Known {
			n++
		}
	}
	return n
}

// Status values written to the status file read by bin/check.
const (
	StatusHeld         = "held"
	StatusViolated     = "violated"
	StatusInconclusive = "inconclusive"
)

// Finish writes the evidence file and the status file; returns the status.
func (e *Evidence) Finish() string {
	e.mu.Lock()
	defer e.mu.Unlock()
	cov := map[string]interface{}{
		"evaluations":         e.evals,
		"distinct_nontrivial": len(e.distinct),
		"rule":                e.Rule,
		"samples":             e.samples,
		"inconclusive_cases":  e.inconcl,
	}
	if e.exhaust {
		cov["exhaustive"] = true
	}
	keys := make([]string, 0, len(e.counters))
	for k := range e.counters {
		keys = append(keys, k)
	}
	sort.Strings(keys)
	obs := map[string]int64{}
	for _, k := range keys {
		obs[k] = e.counters[k]
	}
	cov["observed"] = obs
	for k, v := range e.notes {
		cov[k] = v
	}
	unknown := 0
	kf := []string{}
	for _, v := range e.viol {
		if v.Known {
			kf = append(kf, v.Key)
		} else {
			unknown++
		}
	}
	if len(kf) > 0 {
		cov["known_findings_reproduced"] = kf
	}
	if len(e.samples) == 0 {
		cov["samples"] = []interface{}{"(no case was sampled)"}
	}
	out := map[string]interface{}{
		"property_id": e.ID,
		"tier":        Tier(),
		"seed":        Seed(),
		"level":       e.Level,
		"coverage":    cov,
		"assumptions": e.assume,
		"wall_s":      time.Since(e.start).Seconds(),
		"violations":  unknown,
	}
	if e.assume == nil {
		out["assumptions"] = []string{}
	}
	status := StatusHeld
	if unknown > 0 {
		status = StatusViolated
	} else if len(e.distinct) < e.minNT || e.evals == 0 {
		status = StatusInconclusive
		fmt.Printf("INCONCLUSIVE property=%s: only %d distinct non-trivial cases (minimum %d)\n", e.ID, len(e.distinct), e.minNT)
	}
	body, _ := json.MarshalIndent(out, "", " ")
	dir := filepath.Join(Root(), "evidence")
	os.MkdirAll(dir, 0o755)
	if err := os.WriteFile(filepath.Join(dir, e.ID+".json"), body, 0o644); err != nil {
		fmt.Printf("HARNESS-ERROR cannot write evidence: %v\n", err)
		status = StatusInconclusive
	}
	if sf := os.Getenv("VERIF_STATUS_FILE"); sf != "" {
		os.WriteFile(sf, []byte(status+"\n"), 0o644)
	}
	fmt.Printf("RESULT property=%s status=%s evaluations=%d distinct_nontrivial=%d violations=%d known=%d inconclusive=%d wall=%.1fs\n",
		e.ID, status, e.evals, len(e.distinct), unknown, len(kf), e.inconcl, time.Since(e.start).Seconds())
	return status
}

// Exported is the serialisable content of an Evidence (child -> parent).
type Exported struct {
	Evals      int                    `json:"evals"`
	Distinct   []uint64               `json:"distinct"`
	Samples    []interface{}          `json:"samples"`
	Counters   map[string]int64       `json:"counters"`
	Notes      map[string]interface{} `json:"notes"`
	Violations []Violation            `json:"violations"`
	Inconcl    int                    `json:"inconclusive"`
}

// Export writes what was accumulated so far to a file (used by child
// processes; violations are re-raised by the parent on Import).
func (e *Evidence) Export(path string) error {
	e.mu.Lock()
	defer e.mu.Unlock()
	x := Exported{Evals: e.evals, Samples: e.samples, Counters: e.counters, Notes: e.notes, Violations: e.pendingExport, Inconcl: e.inconcl}
	for h := range e.distinct {
		x.Distinct = append(x.Distinct, h)
	}
	body, err := json.Marshal(x)
	if err != nil {
		return err
	}
	return os.WriteFile(path, body, 0o644)
}

// Defer records a violation for export instead of raising it (child side).
func (e *Evidence) Defer(key string, detail interface{}) {
	e.mu.Lock()
	e.pendingExport = append(e.pendingExport, Violation{Key: key, Detail: detail})
	e.mu.Unlock()
}

// Import merges a child's export and raises its violations.
func (e *Evidence) Import(path string) error {
	body, err := os.ReadFile(path)
	if err != nil {
		return err
	}
	var x Exported
	if err := json.Unmarshal(body, &x); err != nil {
		return err
	}
	e.mu.Lock()
	e.evals += x.Evals
	for _, h := range x.Distinct {
		e.distinct[h] = struct{}{}
	}
	for _, s := range x.Samples {
		if len(e.samples) < e.maxSample {
			e.samples = append(e.samples, s)
		}
	}
	for k, v := range x.Counters {
		e.counters[k] += v
	}
	for k, v := range x.Notes {
		e.notes[k] = v
	}
	e.inconcl += x.Inconcl
	e.mu.Unlock()
	for _, v := range x.Violations {
		e.Violate(v.Key, v.Detail)
	}
	return nil
}

// RaiseDeferred raises violations recorded with Defer in this process.
func (e *Evidence) RaiseDeferred() {
	e.mu.Lock()
	p := e.pendingExport
	e.pendingExport = nil
	e.mu.Unlock()
	for _, v := range p {
		e.Violate(v.Key, v.Detail)
	}
}
