package vlib

import (
	"bytes"
	"runtime"
	"strconv"
)

// GoID returns the current goroutine's id (harness bookkeeping only).
func GoID() int64 {
	var buf [64]byte
	n := runtime.Stack(buf[:], false)
	f := bytes.Fields(buf[:n])
	if len(f) < 2 {
		return -1
	}
	id, _ := strconv.ParseInt(string(f[1]), 10, 64)
	return id
}
