package vlib

import (
	"context"
	"encoding/json"
	"errors"
	"fmt"
	"io"
	"math/big"
	"os"
	"sort"
	"strings"
	"sync"
	"sync/atomic"
	"time"

	badgerdb "github.com/dgraph-io/badger/v2"
	"github.com/vipnode/vipnode/v2/ethnode"
	"github.com/vipnode/vipnode/v2/jsonrpc2"
	"github.com/vipnode/vipnode/v2/pool"
	"github.com/vipnode/vipnode/v2/pool/balance"
	"github.com/vipnode/vipnode/v2/pool/payment"
	"github.com/vipnode/vipnode/v2/pool/store"
	"github.com/vipnode/vipnode/v2/pool/store/badger"
	"github.com/vipnode/vipnode/v2/pool/store/memory"
)

// Driver names.
const (
	DriverMemory     = "memory"
	DriverBadgerMem  = "badger-mem"
	DriverBadgerDisk = "badger-disk"
)

// Drivers returns the drivers exercised at the current tier.
func Drivers() []string {
	if Thorough() {
		return []string{DriverMemory, DriverBadgerMem, DriverBadgerDisk}
	}
	return []string{DriverMemory, DriverBadgerMem}
}

type quietLogger struct{}

func (quietLogger) Errorf(string, ...interface{})   {}
func (quietLogger) Warningf(string, ...interface{}) {}
func (quietLogger) Infof(string, ...interface{})    {}
func (quietLogger) Debugf(string, ...interface{})   {}

// BadgerDiskOptions returns the options pool.go uses (DefaultOptions(dir)),
// with only the logger silenced.
func BadgerDiskOptions(dir string) badgerdb.Options {
	return badgerdb.DefaultOptions(dir).WithLogger(quietLogger{})
}

// OpenStore opens a store of the given driver; cleanup closes it and removes
// any scratch directory.
func OpenStore(driver string) (store.Store, func(), error) {
	switch driver {
	case DriverMemory:
		s := memory.New()
		return s, func() { s.Close() }, nil
	case DriverBadgerMem:
		s, err := badger.Open(badgerdb.DefaultOptions("").WithInMemory(true).WithLogger(quietLogger{}))
		if err != nil {
			return nil, nil, err
		}
		return s, func() { s.Close() }, nil
	case DriverBadgerDisk:
		dir, err := os.MkdirTemp("", "verif-badger-")
		if err != nil {
			return nil, nil, err
		}
		s, err := badger.Open(BadgerDiskOptions(dir))
		if err != nil {
			os.RemoveAll(dir)
			return nil, nil, err
		}
		return s, func() { s.Close(); os.RemoveAll(dir) }, nil
	}
	return nil, nil, fmt.Errorf("unknown driver %q", driver)
}

// VClock is a virtual clock for the balance manager.
type VClock struct {
	mu sync.Mutex
	t  time.Time
}

func (c *VClock) Now() time.Time {
	c.mu.Lock()
	defer c.mu.Unlock()
	return c.t
}

func (c *VClock) Set(t time.Time) {
	c.mu.Lock()
	c.t = t
	c.mu.Unlock()
}

// ClockedManager is what balance.PayPerInterval returns in verif builds.
type ClockedManager interface {
	balance.Manager
	VerifSetNow(func() time.Time)
}

// DepositStore adds a harness-controlled deposit to account balances, the way
// payment.contractPayment does with the on-chain deposit.
type DepositStore struct {
	store.BalanceStore
	mu     sync.Mutex
	dep    map[store.Account]*big.Int
	shadow map[store.Account]string // decimal value at SetDeposit time
}

func NewDepositStore(inner store.BalanceStore) *DepositStore {
	return &DepositStore{BalanceStore: inner, dep: map[store.Account]*big.Int{}, shadow: map[store.Account]string{}}
}

func (d *DepositStore) SetDeposit(a store.Account, v *big.Int) {
	d.mu.Lock()
	// decoded the way the contract bindings hand out amounts: a big.Int with its own digit array
	d.dep[a] = new(big.Int).SetBytes(v.Bytes())
	if v.Sign() < 0 {
		d.dep[a].Neg(d.dep[a])
	}
	d.shadow[a] = v.String()
	d.mu.Unlock()
}

// Deposit returns a private copy of the cached deposit (for the harness).
func (d *DepositStore) Deposit(a store.Account) *big.Int {
	d.mu.Lock()
	defer d.mu.Unlock()
	if v, ok := d.dep[a]; ok {
		return new(big.Int).Set(v)
	}
	return new(big.Int)
}

// cached returns the cached *big.Int itself, like payment.balanceCache.Get:
// contractPayment copies the struct (`balance.Deposit = *deposit`), so the
// balance it hands out shares its digits with the cache.
func (d *DepositStore) cached(a store.Account) *big.Int {
	d.mu.Lock()
	defer d.mu.Unlock()
	if v, ok := d.dep[a]; ok {
		return v
	}
	return new(big.Int)
}

// Corrupted lists accounts whose cached deposit no longer has the value it was
// set to (someone wrote through a balance that was handed out).
func (d *DepositStore) Corrupted() []string {
	d.mu.Lock()
	defer d.mu.Unlock()
	out := []string{}
	for a, v := range d.dep {
		now := safeBigString(v)
		if now != d.shadow[a] {
			out = append(out, fmt.Sprintf("%s: set to %s, now %s", a, d.shadow[a], now))
		}
	}
	sort.Strings(out)
	return out
}

// safeBigString renders a big.Int whose digit array may have been written
// through an alias (its invariants may be broken).
func safeBigString(v *big.Int) (s string) {
	defer func() {
		if p := recover(); p != nil {
			s = fmt.Sprintf("<unprintable: digits overwritten (%v)>", p)
		}
	}()
	return v.String()
}

func (d *DepositStore) GetNodeBalance(id store.NodeID) (store.Balance, error) {
	b, err := d.BalanceStore.GetNodeBalance(id)
	if err != nil {
		return b, err
	}
	if len(b.Account) == 0 {
		return b, nil
	}
	b.Deposit = *d.cached(b.Account)
	return b, nil
}

func (d *DepositStore) GetAccountBalance(a store.Account) (store.Balance, error) {
	b, err := d.BalanceStore.GetAccountBalance(a)
	if err != nil {
		return b, err
	}
	b.Deposit = *d.cached(a)
	return b, nil
}

// ---------------------------------------------------------------------------
// In-memory codec: an ordered message channel pair. Each message is JSON
// encoded on write and decoded on read so nothing is shared by reference.

type chanCodec struct {
	in     <-chan []byte
	out    chan<- []byte
	closed chan struct{}
	peer   chan struct{}
	once   sync.Once
	addr   string
}

// ChanCodecPair returns two connected codecs. addrA is the address that end A
// reports as its RemoteAddr (i.e. B's address as seen from A), and vice versa.
func ChanCodecPair(addrA, addrB string) (jsonrpc2.Codec, jsonrpc2.Codec) {
	ab := make(chan []byte, 256)
	ba := make(chan []byte, 256)
	ca := make(chan struct{})
	cb := make(chan struct{})
	a := &chanCodec{in: ba, out: ab, closed: ca, peer: cb, addr: addrA}
	b := &chanCodec{in: ab, out: ba, closed: cb, peer: ca, addr: addrB}
	return a, b
}

func (c *chanCodec) ReadMessage() (*jsonrpc2.Message, error) {
	select {
	case <-c.closed:
		return nil, io.EOF
	default:
	}
	select {
	case raw := <-c.in:
		var msg jsonrpc2.Message
		if err := json.Unmarshal(raw, &msg); err != nil {
			return &msg, err
		}
		return &msg, nil
	case <-c.closed:
		return nil, io.EOF
	case <-c.peer:
		// drain anything already queued
		select {
		case raw := <-c.in:
			var msg jsonrpc2.Message
			if err := json.Unmarshal(raw, &msg); err != nil {
				return &msg, err
			}
			return &msg, nil
		default:
		}
		return nil, io.EOF
	}
}

func (c *chanCodec) WriteMessage(msg *jsonrpc2.Message) error {
	raw, err := json.Marshal(msg)
	if err != nil {
		return err
	}
	select {
	case <-c.closed:
		return io.ErrClosedPipe
	case <-c.peer:
		return io.ErrClosedPipe
	default:
	}
	select {
	case c.out <- raw:
		return nil
	case <-c.closed:
		return io.ErrClosedPipe
	case <-c.peer:
		return io.ErrClosedPipe
	}
}

func (c *chanCodec) Close() error {
	c.once.Do(func() { close(c.closed) })
	return nil
}

func (c *chanCodec) RemoteAddr() string { return c.addr }

// ---------------------------------------------------------------------------

// RecEvent is one reverse call seen by a fake host.
type RecEvent struct {
	Stamp  int64  // logical clock at completion
	Start  int64  // logical clock at arrival
	ConnID int    // which connection it arrived on
	Host   string // node id of the host owning the connection
	Method string // "whitelist" | "disconnect"
	Arg    string
	Acked  bool
}

// Behaviour of a fake host for reverse calls.
type Behaviour int

const (
	BehAck Behaviour = iota
	BehError
	BehDelay // ack after Delay
	BehHang  // never answer (until the connection closes)
)

// Recorder is the agent-side RPC receiver of one connection.
type Recorder struct {
	w      *World
	ConnID int
	Host   string
	mu     sync.Mutex
	beh    Behaviour
	Delay  time.Duration
	done   chan struct{}
}

func (r *Recorder) SetBehaviour(b Behaviour, d time.Duration) {
	r.mu.Lock()
	r.beh, r.Delay = b, d
	r.mu.Unlock()
}

func (r *Recorder) handle(method, arg string) error {
	start := r.w.Tick()
	r.mu.Lock()
	beh, delay := r.beh, r.Delay
	r.mu.Unlock()
	acked := false
	var err error
	switch beh {
	case BehAck:
		acked = true
	case BehError:
		err = errors.New("fake host refuses")
	case BehDelay:
		select {
		case <-time.After(delay):
			acked = true
		case <-r.done:
			err = errors.New("closed")
		}
	case BehHang:
		<-r.done
		err = errors.New("closed")
	}
	r.w.record(RecEvent{Start: start, ConnID: r.ConnID, Host: r.Host, Method: method, Arg: arg, Acked: acked})
	return err
}

// Whitelist is registered as vipnode_whitelist.
func (r *Recorder) Whitelist(ctx context.Context, nodeID string) error {
	return r.handle("whitelist", nodeID)
}

// Disconnect is registered as vipnode_disconnect.
func (r *Recorder) Disconnect(ctx context.Context, nodeID string) error {
	return r.handle("disconnect", nodeID)
}

// Conn is one bidirectional connection between an agent and the pool.
type Conn struct {
	ID        int
	Owner     *Identity
	PoolSide  *jsonrpc2.Remote
	AgentSide *jsonrpc2.Remote
	Rec       *Recorder
	Addr      string
	w         *World
	closeOnce sync.Once
	poolDone  chan struct{}
}

// Close closes the connection the way server.go experiences it: the pool-side
// serve loop ends, then the disconnect callback (CloseRemote) runs.
func (c *Conn) Close() {
	c.closeOnce.Do(func() {
		c.AgentSide.Codec.Close()
		c.PoolSide.Codec.Close()
		close(c.Rec.done)
		<-c.poolDone
		c.w.Pool.CloseRemote(c.PoolSide)
	})
}

// CloseTransportOnly closes the sockets without running the pool's
// disconnect callback (used to model the window before it runs).
func (c *Conn) CloseTransportOnly() {
	c.AgentSide.Codec.Close()
	c.PoolSide.Codec.Close()
}

// WorldOptions configures NewWorld.
type WorldOptions struct {
	Driver      string
	Store       store.Store // if set, used instead of opening Driver
	Price       *big.Int    // nil => balance.NoBalance{}
	Interval    time.Duration
	MinBalance  *big.Int
	Deposits    bool // wrap the balance store with a DepositStore
	RealClock   bool // leave the manager's clock unset (production path)
	MaxHosts    int
	WithPayment bool
	WrapStore   func(store.Store) store.Store // e.g. chaos wrapper
	// Contract puts the repository's real contract-backed balance store
	// (payment.ContractPayment on a simulated chain) between the store and the
	// balance manager / payment service, as pool.go does with --contract.address.
	Contract        bool
	ContractWallets []*Identity // wallets funded on the simulated chain
	ContractPre     func(*ContractEnv) // chain activity from before the pool started
}

// World is a pool with its store, balance manager and fake agents.
type World struct {
	Opts     WorldOptions
	Store    store.Store // what the pool uses (possibly wrapped)
	RawStore store.Store
	Pool     *pool.VipnodePool
	Mgr      balance.Manager
	Clock    *VClock
	Deposits *DepositStore
	Contract *ContractEnv
	Payment  *payment.PaymentService
	Server   *jsonrpc2.Server
	Local    *jsonrpc2.Local
	Settles  []SettleEvent
	settleMu sync.Mutex
	SettleFn func(ev *SettleEvent) error // optional fault/delay injection

	lclock  int64
	evMu    sync.Mutex
	events  []RecEvent
	connSeq int32
	conns   []*Conn
	connMu  sync.Mutex
	nonceMu sync.Mutex
	nonces  map[string]int64
	cleanup func()
}

// SettleEvent is one call to the settle handler.
type SettleEvent struct {
	Stamp      int64
	Account    store.Account
	Amount     *big.Int
	NewBalance *big.Int
	Attempt    int
	Err        string
}

// NewWorld builds a pool world.
func NewWorld(o WorldOptions) (*World, error) {
	w := &World{Opts: o, nonces: map[string]int64{}, Clock: &VClock{}}
	w.Clock.Set(time.Now())
	if o.Store != nil {
		w.RawStore = o.Store
		w.cleanup = func() {}
	} else {
		s, cleanup, err := OpenStore(o.Driver)
		if err != nil {
			return nil, err
		}
		w.RawStore, w.cleanup = s, cleanup
	}
	w.Store = w.RawStore
	if o.WrapStore != nil {
		w.Store = o.WrapStore(w.RawStore)
	}
	var bs store.BalanceStore = w.Store
	if o.Deposits {
		w.Deposits = NewDepositStore(w.Store)
		bs = w.Deposits
	}
	if o.Contract {
		env, err := NewContractEnv(w.Store, o.ContractWallets, o.ContractPre)
		if err != nil {
			w.cleanup()
			return nil, err
		}
		w.Contract = env
		bs = env.Pay
	}
	if o.Price != nil {
		iv := o.Interval
		if iv == 0 {
			iv = time.Minute
		}
		m := balance.PayPerInterval(bs, iv, o.Price)
		if o.MinBalance != nil {
			m.MinBalance = new(big.Int).Set(o.MinBalance)
		}
		if !o.RealClock {
			m.VerifSetNow(w.Clock.Now)
		}
		w.Mgr = m
	}
	w.Pool = pool.New(w.Store, w.Mgr)
	w.Pool.MaxRequestHosts = o.MaxHosts
	w.Server = &jsonrpc2.Server{}
	// Same registration as pool.go.
	if err := w.Server.Register("vipnode_", w.Pool, "connect", "disconnect", "ping", "update", "peer", "client", "host"); err != nil {
		return nil, err
	}
	if o.WithPayment {
		w.Payment = &payment.PaymentService{
			NonceStore:   w.Store,
			AccountStore: w.Store,
			BalanceStore: bs,
		}
		w.Payment.Settle = w.settle
		if o.Contract {
			w.Payment.Settle = w.settleContract
		}
		if err := w.Server.Register("pool_", w.Payment); err != nil {
			return nil, err
		}
	}
	w.Local = &jsonrpc2.Local{}
	w.Local.Server.Register("vipnode_", w.Pool, "connect", "disconnect", "ping", "update", "peer", "client", "host")
	if w.Payment != nil {
		w.Local.Server.Register("pool_", w.Payment)
	}
	return w, nil
}

func (w *World) settle(account store.Account, amount *big.Int, newBalance *big.Int) (string, error) {
	w.settleMu.Lock()
	ev := SettleEvent{Stamp: w.Tick(), Account: account, Amount: new(big.Int).Set(amount), NewBalance: new(big.Int).Set(newBalance), Attempt: len(w.Settles) + 1}
	fn := w.SettleFn
	w.settleMu.Unlock()
	var err error
	if fn != nil {
		err = fn(&ev)
	}
	if err != nil {
		ev.Err = err.Error()
	} else if w.Deposits != nil {
		// As the contract does: replace the on-chain balance.
		w.Deposits.SetDeposit(account, newBalance)
	}
	w.settleMu.Lock()
	w.Settles = append(w.Settles, ev)
	w.settleMu.Unlock()
	if err != nil {
		return "", err
	}
	return fmt.Sprintf("tx%d", ev.Attempt), nil
}

// settleContract is pool.go's settle handler (the contract's OpSettle) with the
// transaction mined at once and the event recorded like settle does.
func (w *World) settleContract(account store.Account, amount *big.Int, newBalance *big.Int) (string, error) {
	w.settleMu.Lock()
	ev := SettleEvent{Stamp: w.Tick(), Account: account, Amount: new(big.Int).Set(amount), NewBalance: new(big.Int).Set(newBalance), Attempt: len(w.Settles) + 1}
	fn := w.SettleFn
	w.settleMu.Unlock()
	var err error
	if fn != nil {
		err = fn(&ev)
	}
	tx := ""
	if err == nil {
		tx, err = w.Contract.Pay.OpSettle(account, amount, newBalance)
		if err == nil {
			w.Contract.Backend.Commit()
		}
	}
	if err != nil {
		ev.Err = err.Error()
	}
	w.settleMu.Lock()
	w.Settles = append(w.Settles, ev)
	w.settleMu.Unlock()
	return tx, err
}

// SettleLog returns a copy of the settle events.
func (w *World) SettleLog() []SettleEvent {
	w.settleMu.Lock()
	defer w.settleMu.Unlock()
	return append([]SettleEvent(nil), w.Settles...)
}

// Close tears the world down.
func (w *World) Close() {
	w.connMu.Lock()
	conns := append([]*Conn(nil), w.conns...)
	w.connMu.Unlock()
	for _, c := range conns {
		c.Close()
	}
	if w.Contract != nil {
		w.Contract.Close()
	}
	w.cleanup()
}

// Tick advances and returns the logical clock.
func (w *World) Tick() int64 { return atomic.AddInt64(&w.lclock, 1) }

func (w *World) record(ev RecEvent) {
	w.evMu.Lock()
	ev.Stamp = w.Tick()
	w.events = append(w.events, ev)
	w.evMu.Unlock()
}

// Events returns a copy of all reverse calls recorded so far.
func (w *World) Events() []RecEvent {
	w.evMu.Lock()
	defer w.evMu.Unlock()
	return append([]RecEvent(nil), w.events...)
}

// EventsSince returns reverse calls whose completion stamp is > stamp.
func (w *World) EventsSince(stamp int64) []RecEvent {
	w.evMu.Lock()
	defer w.evMu.Unlock()
	out := []RecEvent{}
	for _, e := range w.events {
		if e.Stamp > stamp {
			out = append(out, e)
		}
	}
	return out
}

// Dial opens a new connection for an identity, reporting addr as the agent's
// source address to the pool.
func (w *World) Dial(owner *Identity, addr string) *Conn {
	poolCodec, agentCodec := ChanCodecPair(addr, "pool:0")
	return w.DialCodecs(owner, addr, poolCodec, agentCodec)
}

// DialCodecs is Dial over a given pair of codecs (e.g. the library's own
// stream codec over a net.Pipe or a unix socket).
func (w *World) DialCodecs(owner *Identity, addr string, poolCodec, agentCodec jsonrpc2.Codec) *Conn {
	id := int(atomic.AddInt32(&w.connSeq, 1))
	rec := &Recorder{w: w, ConnID: id, Host: owner.NodeID, done: make(chan struct{})}
	agentServer := &jsonrpc2.Server{}
	agentServer.RegisterMethod("vipnode_whitelist", rec, "Whitelist")
	agentServer.RegisterMethod("vipnode_disconnect", rec, "Disconnect")
	c := &Conn{
		ID: id, Owner: owner, Addr: addr, Rec: rec, w: w, poolDone: make(chan struct{}),
		PoolSide:  &jsonrpc2.Remote{Codec: poolCodec, Server: w.Server, Client: &jsonrpc2.Client{}, PendingLimit: 50, PendingDiscard: 10},
		AgentSide: &jsonrpc2.Remote{Codec: agentCodec, Server: agentServer, Client: &jsonrpc2.Client{}},
	}
	go func() { c.PoolSide.Serve(); close(c.poolDone) }()
	go c.AgentSide.Serve()
	w.connMu.Lock()
	w.conns = append(w.conns, c)
	w.connMu.Unlock()
	return c
}

// NextNonce returns a fresh, strictly increasing nonce for an identity string.
func (w *World) NextNonce(identity string) int64 {
	w.nonceMu.Lock()
	defer w.nonceMu.Unlock()
	n := w.nonces[identity]
	now := time.Now().UnixNano()
	if n < now {
		n = now
	}
	n += 1000
	w.nonces[identity] = n
	return n
}

// LastNonce returns the last nonce handed out for identity (0 if none).
func (w *World) LastNonce(identity string) int64 {
	w.nonceMu.Lock()
	defer w.nonceMu.Unlock()
	return w.nonces[identity]
}

// CallTimeout bounds every harness-issued RPC (watchdog, not a verdict).
var CallTimeout = 120 * time.Second

// Signed issues a signed call (reference signer) over svc.
func (w *World) Signed(svc jsonrpc2.Service, key *Identity, identity, method string, result interface{}, args ...interface{}) error {
	nonce := w.NextNonce(identity)
	return w.SignedNonce(svc, key, identity, method, nonce, result, args...)
}

// SignedNonce is Signed with an explicit nonce.
func (w *World) SignedNonce(svc jsonrpc2.Service, key *Identity, identity, method string, nonce int64, result interface{}, args ...interface{}) error {
	sig := RefSign(key.Key, method, identity, nonce, args...)
	return w.Raw(svc, method, result, append([]interface{}{sig, identity, nonce}, args...)...)
}

// ErrWatchdog is returned when a harness-issued RPC ran into the harness's own
// watchdog. The pool may still be working on the request, so nothing may be
// concluded from the state afterwards: the case is inconclusive.
var ErrWatchdog = errors.New("harness watchdog fired (inconclusive)")

// WatchdogFired counts watchdog expiries in this process.
var WatchdogFired int64

// NoteWatchdog records that a call was abandoned after CallTimeout. The call
// may still be running inside the system under test; whatever the harness tears
// down afterwards (a closed store) can crash that abandoned call, which says
// nothing about the system: bin/classify_crash.py reads this line.
func NoteWatchdog(method string) {
	atomic.AddInt64(&WatchdogFired, 1)
	fmt.Printf("NOTE harness watchdog fired: call %q abandoned after %s\n", method, CallTimeout)
}

// IsWatchdog reports whether err is the harness watchdog.
func IsWatchdog(err error) bool {
	return err != nil && (err == ErrWatchdog || strings.Contains(err.Error(), ErrWatchdog.Error()))
}

// Raw issues an RPC with the watchdog timeout.
func (w *World) Raw(svc jsonrpc2.Service, method string, result interface{}, params ...interface{}) error {
	ctx, cancel := context.WithTimeout(context.Background(), CallTimeout)
	defer cancel()
	err := svc.Call(ctx, result, method, params...)
	if err != nil && ctx.Err() == context.DeadlineExceeded {
		NoteWatchdog(method)
		return ErrWatchdog
	}
	return err
}

// ConnectReq builds a connect request.
func ConnectReq(isHost bool, kind string, nodeURI, payout string) pool.ConnectRequest {
	return pool.ConnectRequest{
		VipnodeVersion: "verif",
		NodeInfo: ethnode.UserAgent{
			Version: "Geth/verif", Kind: ethnode.ParseNodeKind(kind), Network: 1, IsFullNode: isHost,
		},
		NodeURI: nodeURI,
		Payout:  payout,
	}
}

// ConnectHost dials and registers a host; returns its connection.
func (w *World) ConnectHost(id *Identity, kind, addr string) (*Conn, error) {
	c := w.Dial(id, addr)
	var resp pool.ConnectResponse
	if err := w.Signed(c.AgentSide, id, id.NodeID, "vipnode_connect", &resp, ConnectReq(true, kind, "", "")); err != nil {
		return c, err
	}
	return c, nil
}

// ConnectClient dials and registers a light client.
func (w *World) ConnectClient(id *Identity, kind, addr string) (*Conn, error) {
	c := w.Dial(id, addr)
	var resp pool.ConnectResponse
	if err := w.Signed(c.AgentSide, id, id.NodeID, "vipnode_connect", &resp, ConnectReq(false, kind, "", "")); err != nil {
		return c, err
	}
	return c, nil
}

// PeerInfos builds peer infos from ids.
func PeerInfos(ids ...string) []ethnode.PeerInfo {
	out := make([]ethnode.PeerInfo, 0, len(ids))
	for _, id := range ids {
		out = append(out, ethnode.PeerInfo{ID: id})
	}
	return out
}

// Update sends a signed keep-alive.
func (w *World) Update(svc jsonrpc2.Service, id *Identity, peers []ethnode.PeerInfo, block uint64) (*pool.UpdateResponse, error) {
	var resp pool.UpdateResponse
	err := w.Signed(svc, id, id.NodeID, "vipnode_update", &resp, pool.UpdateRequest{PeerInfo: peers, BlockNumber: block})
	if err != nil {
		return nil, err
	}
	return &resp, nil
}

// TotalCredit returns Stats().TotalCredit.
func (w *World) TotalCredit() (*big.Int, error) {
	st, err := w.RawStore.Stats()
	if err != nil {
		return nil, err
	}
	return new(big.Int).Set(&st.TotalCredit), nil
}

// SumBalances sums the credit of the given nodes (de-duplicated by account)
// plus the given extra accounts: the second, independent ledger total.
func (w *World) SumBalances(nodes []string, accounts []string) (*big.Int, error) {
	total := new(big.Int)
	seen := map[store.Account]bool{}
	for _, n := range nodes {
		b, err := w.RawStore.GetNodeBalance(store.NodeID(n))
		if err == store.ErrUnregisteredNode {
			continue
		}
		if err != nil {
			return nil, err
		}
		if b.Account != "" {
			if seen[b.Account] {
				continue
			}
			seen[b.Account] = true
		}
		total.Add(total, &b.Credit)
	}
	for _, a := range accounts {
		if seen[store.Account(a)] {
			continue
		}
		seen[store.Account(a)] = true
		b, err := w.RawStore.GetAccountBalance(store.Account(a))
		if err != nil {
			return nil, err
		}
		total.Add(total, &b.Credit)
	}
	return total, nil
}

// Digest serialises all pool state reachable from RPCs for the given universe
// of node ids and accounts, plus the reverse calls seen by fake hosts.
func (w *World) Digest(nodes []string, accounts []string) string {
	var b strings.Builder
	st, err := w.RawStore.Stats()
	if err != nil {
		fmt.Fprintf(&b, "stats-err:%v\n", err)
	} else {
		// Active counts depend on wall-clock windows; only totals are digest material.
		fmt.Fprintf(&b, "stats hosts=%d clients=%d block=%d credit=%s deposit=%s trials=%d\n",
			st.NumTotalHosts, st.NumTotalClients, st.LatestBlockNumber, st.TotalCredit.String(), st.TotalDeposit.String(), st.NumTrialBalances)
	}
	ids := append([]string(nil), nodes...)
	sort.Strings(ids)
	for _, id := range ids {
		n, err := w.RawStore.GetNode(store.NodeID(id))
		if err != nil {
			fmt.Fprintf(&b, "node %s err=%v\n", short(id), err)
			continue
		}
		fmt.Fprintf(&b, "node %s uri=%q seen=%d kind=%q host=%v payout=%q block=%d nv=%q vv=%q\n", short(id), n.URI, n.LastSeen.UnixNano(), n.Kind, n.IsHost, n.Payout, n.BlockNumber, n.NodeVersion, n.VipnodeVersion)
		peers, err := w.RawStore.NodePeers(store.NodeID(id))
		ps := []string{}
		for _, p := range peers {
			ps = append(ps, short(string(p.ID)))
		}
		sort.Strings(ps)
		fmt.Fprintf(&b, "  peers %v err=%v\n", ps, err)
		bal, err := w.RawStore.GetNodeBalance(store.NodeID(id))
		fmt.Fprintf(&b, "  balance acct=%q credit=%s err=%v\n", bal.Account, bal.Credit.String(), err)
	}
	accts := append([]string(nil), accounts...)
	sort.Strings(accts)
	for _, a := range accts {
		bal, err := w.RawStore.GetAccountBalance(store.Account(a))
		fmt.Fprintf(&b, "acct %s credit=%s err=%v\n", a, bal.Credit.String(), err)
		ns, err := w.RawStore.GetAccountNodes(store.Account(a))
		l := []string{}
		for _, n := range ns {
			l = append(l, short(string(n)))
		}
		sort.Strings(l)
		fmt.Fprintf(&b, "  nodes %v err=%v\n", l, err)
	}
	fmt.Fprintf(&b, "remotes=%d\n", w.Pool.NumRemotes())
	evs := w.Events()
	fmt.Fprintf(&b, "reverse-calls=%d settles=%d\n", len(evs), len(w.SettleLog()))
	return b.String()
}

func short(s string) string {
	if len(s) > 10 {
		return s[:10]
	}
	return s
}

// Short abbreviates ids for samples.
func Short(s string) string { return short(s) }
