package vlib

import (
	"encoding/json"
	"io"
	"math/rand"
	"sync"
	"sync/atomic"
	"time"

	"github.com/vipnode/vipnode/v2/jsonrpc2"
)

// ReorderNet joins two codecs with a network that delivers queued messages in
// a PRNG-chosen order (replies can overtake requests, bursts accumulate) and
// can withhold selected messages until released.
type ReorderNet struct {
	mu     sync.Mutex
	cond   *sync.Cond
	q      [2][][]byte // q[i] = messages waiting to be read by side i
	rnd    *rand.Rand
	closed bool
	hold   func(raw []byte) bool // true = keep in the queue for now

	Delivered  int64 // progress counter
	Reordered  int64 // deliveries that were not the oldest queued message
	MaxQueue   int64
	Accumulate bool // let messages pile up before picking (more reordering)
}

func NewReorderNet(seed int64) *ReorderNet {
	n := &ReorderNet{rnd: rand.New(rand.NewSource(seed)), Accumulate: true}
	n.cond = sync.NewCond(&n.mu)
	return n
}

// SetHold installs (or clears, with nil) the withholding predicate and wakes readers.
func (n *ReorderNet) SetHold(f func(raw []byte) bool) {
	n.mu.Lock()
	n.hold = f
	n.mu.Unlock()
	n.cond.Broadcast()
}

// Wake re-evaluates held messages.
func (n *ReorderNet) Wake() { n.cond.Broadcast() }

func (n *ReorderNet) Close() {
	n.mu.Lock()
	n.closed = true
	n.mu.Unlock()
	n.cond.Broadcast()
}

// Codecs returns the two ends.
func (n *ReorderNet) Codecs() (jsonrpc2.Codec, jsonrpc2.Codec) {
	return &reorderCodec{n: n, side: 0}, &reorderCodec{n: n, side: 1}
}

type reorderCodec struct {
	n    *ReorderNet
	side int
}

func (c *reorderCodec) WriteMessage(msg *jsonrpc2.Message) error {
	raw, err := json.Marshal(msg)
	if err != nil {
		return err
	}
	n := c.n
	n.mu.Lock()
	if n.closed {
		n.mu.Unlock()
		return io.ErrClosedPipe
	}
	other := 1 - c.side
	n.q[other] = append(n.q[other], raw)
	if l := int64(len(n.q[other])); l > n.MaxQueue {
		n.MaxQueue = l
	}
	n.mu.Unlock()
	n.cond.Broadcast()
	return nil
}

func (c *reorderCodec) ReadMessage() (*jsonrpc2.Message, error) {
	n := c.n
	n.mu.Lock()
	for {
		if n.closed {
			n.mu.Unlock()
			return nil, io.EOF
		}
		// deliverable indices
		idxs := make([]int, 0, len(n.q[c.side]))
		for i, raw := range n.q[c.side] {
			if n.hold == nil || !n.hold(raw) {
				idxs = append(idxs, i)
			}
		}
		if len(idxs) > 0 {
			if n.Accumulate && n.rnd.Intn(3) == 0 {
				// let more messages pile up, then look again
				d := time.Duration(n.rnd.Intn(300)) * time.Microsecond
				n.mu.Unlock()
				time.Sleep(d)
				n.mu.Lock()
				idxs = idxs[:0]
				for i, raw := range n.q[c.side] {
					if n.hold == nil || !n.hold(raw) {
						idxs = append(idxs, i)
					}
				}
				if len(idxs) == 0 {
					continue
				}
			}
			pick := idxs[n.rnd.Intn(len(idxs))]
			if pick != 0 {
				n.Reordered++
			}
			raw := n.q[c.side][pick]
			n.q[c.side] = append(n.q[c.side][:pick:pick], n.q[c.side][pick+1:]...)
			n.mu.Unlock()
			atomic.AddInt64(&n.Delivered, 1)
			var msg jsonrpc2.Message
			if err := json.Unmarshal(raw, &msg); err != nil {
				return &msg, err
			}
			return &msg, nil
		}
		n.cond.Wait()
	}
}

func (c *reorderCodec) Close() error       { c.n.Close(); return nil }
func (c *reorderCodec) RemoteAddr() string { return "memnet" }
