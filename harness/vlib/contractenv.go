package vlib

import (
	"context"
	"fmt"
	"math/big"
	"time"

	"github.com/ethereum/go-ethereum/accounts/abi/bind"
	"github.com/ethereum/go-ethereum/accounts/abi/bind/backends"
	"github.com/ethereum/go-ethereum/common"
	"github.com/ethereum/go-ethereum/core"
	"github.com/vipnode/vipnode-contract/go/vipnodepool"
	"github.com/vipnode/vipnode/v2/pool/payment"
	"github.com/vipnode/vipnode/v2/pool/store"
)

// ContractEnv is the repository's real contract-backed balance store
// (payment.ContractPayment: deposit overlay, event-filled deposit cache,
// OpSettle) on go-ethereum's simulated chain running the real VipnodePool
// contract, wired the way pool.go wires it when --contract.address is given.
type ContractEnv struct {
	Backend  *backends.SimulatedBackend
	Addr     common.Address
	Contract *vipnodepool.VipnodePool
	Op       *bind.TransactOpts
	// Pay is what pool.go hands to the balance manager and the payment service.
	Pay interface {
		store.BalanceStore
		OpSettle(account store.Account, paymentAmount *big.Int, newBalance *big.Int) (string, error)
	}
	wallets map[string]*Identity
}

// NewContractEnv deploys the contract, funds the given wallets on chain and
// puts the contract-backed balance store in front of st.
func NewContractEnv(st store.AccountStore, wallets []*Identity, pre func(*ContractEnv)) (*ContractEnv, error) {
	op := NewIdentity("contract-operator", 0)
	funds, _ := new(big.Int).SetString("1000000000000000000000000", 10)
	alloc := core.GenesisAlloc{crypto2addr(op): {Balance: funds}}
	env := &ContractEnv{wallets: map[string]*Identity{}}
	for _, w := range wallets {
		alloc[crypto2addr(w)] = core.GenesisAccount{Balance: funds}
		env.wallets[w.Wallet] = w
	}
	env.Backend = backends.NewSimulatedBackend(alloc, 8000000)
	env.Op = bind.NewKeyedTransactor(op.Key)
	addr, _, contract, err := vipnodepool.DeployVipnodePool(env.Op, env.Backend, env.Op.From)
	if err != nil {
		env.Backend.Close()
		return nil, err
	}
	env.Backend.Commit()
	env.Addr, env.Contract = addr, contract
	if pre != nil {
		// chain history from before the pool (re)started: none of it is in the pool's deposit cache
		pre(env)
	}
	cp, err := payment.ContractPayment(st, addr, env.Backend, env.Op)
	if err != nil {
		env.Backend.Close()
		return nil, err
	}
	env.Pay = cp
	return env, nil
}

func crypto2addr(id *Identity) common.Address { return common.HexToAddress(id.Wallet) }

// Deposit sends wei from the wallet to the contract and mines it.
func (e *ContractEnv) Deposit(w *Identity, wei *big.Int) error {
	auth := bind.NewKeyedTransactor(w.Key)
	auth.Value = new(big.Int).Set(wei)
	if _, err := e.Contract.AddBalance(auth); err != nil {
		return err
	}
	e.Backend.Commit()
	return nil
}

// ForceSettle is the wallet owner's unilateral exit: the deposit becomes
// time-locked, which the balance store reports as an error on lookup.
func (e *ContractEnv) ForceSettle(w *Identity) error {
	if _, err := e.Contract.ForceSettle(bind.NewKeyedTransactor(w.Key)); err != nil {
		return err
	}
	e.Backend.Commit()
	return nil
}

// OnChain is the wallet's balance in the contract as the chain has it.
func (e *ContractEnv) OnChain(wallet string) (*big.Int, error) {
	r, err := e.Contract.Accounts(&bind.CallOpts{Context: context.Background()}, common.HexToAddress(wallet))
	if err != nil {
		return nil, err
	}
	return r.Balance, nil
}

// AwaitDeposit waits (bounded) until the balance store reports the on-chain
// deposit of the wallet: Balance events reach the cache asynchronously.
func (e *ContractEnv) AwaitDeposit(wallet string) (*big.Int, error) {
	want, err := e.OnChain(wallet)
	if err != nil {
		return nil, err
	}
	var last string
	for i := 0; i < 400; i++ {
		b, err := e.Pay.GetAccountBalance(store.Account(wallet))
		if err == nil && b.Deposit.Cmp(want) == 0 {
			return want, nil
		}
		if err != nil {
			last = err.Error()
		} else {
			last = b.Deposit.String()
		}
		time.Sleep(5 * time.Millisecond)
	}
	return want, fmt.Errorf("balance store reports deposit %s, chain has %s", last, want)
}

// Close releases the simulated chain.
func (e *ContractEnv) Close() { e.Backend.Close() }
