package vlib

import (
	"errors"
	"fmt"
	"math/big"
	"math/rand"
	"runtime"
	"sync"
	"sync/atomic"
	"time"

	"github.com/vipnode/vipnode/v2/pool/store"
)

// ErrInjected is the error returned by injected store faults.
var ErrInjected = errors.New("injected store fault")

// ChaosEvent is one recorded store call (history recorded at the API boundary).
type ChaosEvent struct {
	Seq    int
	Op     string
	Key    string // node id / account / identity the call is about
	Arg    string
	Call   int64
	Ret    int64
	Res    string
	Failed bool // injected failure (inner store not called)
}

// Chaos wraps a store: it can delay between calls (widening the windows
// between the system's critical sections), fail chosen calls, and record a
// call/return history from one monotonic counter.
type Chaos struct {
	Inner store.Store

	mu      sync.Mutex
	rnd     *rand.Rand
	Delays  bool
	MaxWait time.Duration
	Record  bool
	events  []ChaosEvent
	counter int64
	calls   map[string]int
	// Fail decides whether the n-th (1-based) call of op is failed.
	Fail func(op string, n int) bool
	// FailCall, if set, also sees what the call is about (key, argument).
	FailCall func(op, key, arg string, n int) bool
}

func NewChaos(inner store.Store, seed int64) *Chaos {
	return &Chaos{Inner: inner, rnd: rand.New(rand.NewSource(seed)), calls: map[string]int{}, MaxWait: 200 * time.Microsecond}
}

func (c *Chaos) tick() int64 { return atomic.AddInt64(&c.counter, 1) }

// ResetCalls clears the per-op call counters used by Fail.
func (c *Chaos) ResetCalls() {
	c.mu.Lock()
	c.calls = map[string]int{}
	c.mu.Unlock()
}

// Calls returns how many times op was called since the last reset.
func (c *Chaos) Calls(op string) int {
	c.mu.Lock()
	defer c.mu.Unlock()
	return c.calls[op]
}

// Events returns the recorded history.
func (c *Chaos) Events() []ChaosEvent {
	c.mu.Lock()
	defer c.mu.Unlock()
	return append([]ChaosEvent(nil), c.events...)
}

func (c *Chaos) enter(op, key, arg string) (idx int, fail bool) {
	c.mu.Lock()
	c.calls[op]++
	n := c.calls[op]
	if c.Fail != nil && c.Fail(op, n) {
		fail = true
	}
	if c.FailCall != nil && c.FailCall(op, key, arg, n) {
		fail = true
	}
	var wait time.Duration
	doYield := false
	if c.Delays {
		switch c.rnd.Intn(4) {
		case 0:
			doYield = true
		case 1:
			wait = time.Duration(c.rnd.Int63n(int64(c.MaxWait) + 1))
		}
	}
	idx = -1
	if c.Record {
		idx = len(c.events)
		c.events = append(c.events, ChaosEvent{Seq: idx, Op: op, Key: key, Arg: arg})
	}
	c.mu.Unlock()
	if doYield {
		runtime.Gosched()
	}
	if wait > 0 {
		time.Sleep(wait)
	}
	if idx >= 0 {
		t := c.tick()
		c.mu.Lock()
		c.events[idx].Call = t
		c.mu.Unlock()
	}
	return idx, fail
}

func (c *Chaos) leave(idx int, res string, failed bool) {
	if idx >= 0 {
		t := c.tick()
		c.mu.Lock()
		c.events[idx].Ret = t
		c.events[idx].Res = res
		c.events[idx].Failed = failed
		c.mu.Unlock()
	}
	if c.Delays {
		c.mu.Lock()
		y := c.rnd.Intn(3) == 0
		c.mu.Unlock()
		if y {
			runtime.Gosched()
		}
	}
}

func (c *Chaos) CheckAndSaveNonce(id string, nonce int64) error {
	idx, fail := c.enter("CheckAndSaveNonce", id, fmt.Sprint(nonce))
	if fail {
		c.leave(idx, "injected", true)
		return ErrInjected
	}
	err := c.Inner.CheckAndSaveNonce(id, nonce)
	c.leave(idx, errName(err), false)
	return err
}

func (c *Chaos) GetNode(id store.NodeID) (*store.Node, error) {
	idx, fail := c.enter("GetNode", string(id), "")
	if fail {
		c.leave(idx, "injected", true)
		return nil, ErrInjected
	}
	n, err := c.Inner.GetNode(id)
	res := errName(err)
	if err == nil {
		res = "ok " + nodeFields(*n)
	}
	c.leave(idx, res, false)
	return n, err
}

func (c *Chaos) SetNode(n store.Node) error {
	idx, fail := c.enter("SetNode", string(n.ID), nodeFields(n))
	if fail {
		c.leave(idx, "injected", true)
		return ErrInjected
	}
	err := c.Inner.SetNode(n)
	c.leave(idx, errName(err), false)
	return err
}

func (c *Chaos) ActiveHosts(kind string, limit int) ([]store.Node, error) {
	idx, fail := c.enter("ActiveHosts", kind, fmt.Sprint(limit))
	if fail {
		c.leave(idx, "injected", true)
		return nil, ErrInjected
	}
	ns, err := c.Inner.ActiveHosts(kind, limit)
	c.leave(idx, CanonNodes("hosts", ns, err), false)
	return ns, err
}

func (c *Chaos) NodePeers(id store.NodeID) ([]store.Node, error) {
	idx, fail := c.enter("NodePeers", string(id), "")
	if fail {
		c.leave(idx, "injected", true)
		return nil, ErrInjected
	}
	ns, err := c.Inner.NodePeers(id)
	c.leave(idx, CanonNodes("peers", ns, err), false)
	return ns, err
}

func (c *Chaos) UpdateNodePeers(id store.NodeID, peers []string, block uint64) ([]store.NodeID, error) {
	idx, fail := c.enter("UpdateNodePeers", string(id), fmt.Sprint(peers))
	if fail {
		c.leave(idx, "injected", true)
		return nil, ErrInjected
	}
	in, err := c.Inner.UpdateNodePeers(id, peers, block)
	c.leave(idx, CanonNodeIDs("inactive", in, err), false)
	return in, err
}

func (c *Chaos) GetNodeBalance(id store.NodeID) (store.Balance, error) {
	idx, fail := c.enter("GetNodeBalance", string(id), "")
	if fail {
		c.leave(idx, "injected", true)
		return store.Balance{}, ErrInjected
	}
	b, err := c.Inner.GetNodeBalance(id)
	c.leave(idx, CanonBalance(b, err), false)
	return b, err
}

func (c *Chaos) AddNodeBalance(id store.NodeID, credit *big.Int) error {
	idx, fail := c.enter("AddNodeBalance", string(id), credit.String())
	if fail {
		c.leave(idx, "injected", true)
		return ErrInjected
	}
	err := c.Inner.AddNodeBalance(id, credit)
	c.leave(idx, errName(err), false)
	return err
}

func (c *Chaos) GetAccountBalance(a store.Account) (store.Balance, error) {
	idx, fail := c.enter("GetAccountBalance", string(a), "")
	if fail {
		c.leave(idx, "injected", true)
		return store.Balance{}, ErrInjected
	}
	b, err := c.Inner.GetAccountBalance(a)
	c.leave(idx, CanonBalance(b, err), false)
	return b, err
}

func (c *Chaos) AddAccountBalance(a store.Account, credit *big.Int) error {
	idx, fail := c.enter("AddAccountBalance", string(a), credit.String())
	if fail {
		c.leave(idx, "injected", true)
		return ErrInjected
	}
	err := c.Inner.AddAccountBalance(a, credit)
	c.leave(idx, errName(err), false)
	return err
}

func (c *Chaos) AddAccountNode(a store.Account, id store.NodeID) error {
	idx, fail := c.enter("AddAccountNode", string(id), string(a))
	if fail {
		c.leave(idx, "injected", true)
		return ErrInjected
	}
	err := c.Inner.AddAccountNode(a, id)
	c.leave(idx, errName(err), false)
	return err
}

func (c *Chaos) IsAccountNode(a store.Account, id store.NodeID) error {
	idx, fail := c.enter("IsAccountNode", string(id), string(a))
	if fail {
		c.leave(idx, "injected", true)
		return ErrInjected
	}
	err := c.Inner.IsAccountNode(a, id)
	c.leave(idx, errName(err), false)
	return err
}

func (c *Chaos) GetAccountNodes(a store.Account) ([]store.NodeID, error) {
	idx, fail := c.enter("GetAccountNodes", string(a), "")
	if fail {
		c.leave(idx, "injected", true)
		return nil, ErrInjected
	}
	ids, err := c.Inner.GetAccountNodes(a)
	c.leave(idx, CanonNodeIDs("nodes", ids, err), false)
	return ids, err
}

func (c *Chaos) Stats() (*store.Stats, error) {
	idx, fail := c.enter("Stats", "", "")
	if fail {
		c.leave(idx, "injected", true)
		return nil, ErrInjected
	}
	s, err := c.Inner.Stats()
	c.leave(idx, CanonStats(s, err), false)
	return s, err
}

func (c *Chaos) Close() error { return c.Inner.Close() }

var _ store.Store = &Chaos{}
