package vlib

import (
	"context"
	"errors"
	"fmt"
	"sync"

	"github.com/ethereum/go-ethereum/accounts/abi/bind"
	"github.com/ethereum/go-ethereum/rpc"
	"github.com/vipnode/vipnode/v2/ethnode"
)

// NodeCall is one call received by the recording fake Ethereum node.
type NodeCall struct {
	Method string
	Arg    string
}

func (c NodeCall) String() string { return c.Method + "(" + Short(c.Arg) + ")" }

// FakeEth is the harness's own recording ethnode.EthNode.
type FakeEth struct {
	mu       sync.Mutex
	ID       string
	NodeKind ethnode.NodeKind
	Full     bool
	PeerList []ethnode.PeerInfo
	Block    uint64
	Calls    []NodeCall
	Apply    bool   // apply connect/disconnect calls to PeerList
	FailOn   string // method that fails
}

func (n *FakeEth) NodeRPC() *rpc.Client                  { return nil }
func (n *FakeEth) ContractBackend() bind.ContractBackend { return nil }
func (n *FakeEth) Kind() ethnode.NodeKind                { return n.NodeKind }
func (n *FakeEth) UserAgent() ethnode.UserAgent {
	return ethnode.UserAgent{Version: "Geth/verif", Network: 1, IsFullNode: n.Full, Kind: n.NodeKind}
}
func (n *FakeEth) Enode(ctx context.Context) (string, error) { return n.ID, nil }

func (n *FakeEth) rec(method, arg string) error {
	n.mu.Lock()
	defer n.mu.Unlock()
	n.Calls = append(n.Calls, NodeCall{method, arg})
	if n.FailOn == method {
		return errors.New("fake node: " + method + " failed")
	}
	return nil
}

func (n *FakeEth) AddTrustedPeer(ctx context.Context, nodeID string) error {
	return n.rec("AddTrustedPeer", nodeID)
}
func (n *FakeEth) RemoveTrustedPeer(ctx context.Context, nodeID string) error {
	return n.rec("RemoveTrustedPeer", nodeID)
}
func (n *FakeEth) ConnectPeer(ctx context.Context, nodeURI string) error {
	if err := n.rec("ConnectPeer", nodeURI); err != nil {
		return err
	}
	if n.Apply {
		if u, err := ethnode.ParseNodeURI(nodeURI); err == nil {
			n.mu.Lock()
			found := false
			for _, p := range n.PeerList {
				if p.EnodeID() == u.ID() {
					found = true
				}
			}
			if !found {
				p := ethnode.PeerInfo{ID: u.ID()}
				p.Network.RemoteAddress = u.Host
				n.PeerList = append(n.PeerList, p)
			}
			n.mu.Unlock()
		}
	}
	return nil
}
func (n *FakeEth) DisconnectPeer(ctx context.Context, nodeID string) error {
	if err := n.rec("DisconnectPeer", nodeID); err != nil {
		return err
	}
	if n.Apply {
		n.mu.Lock()
		out := n.PeerList[:0]
		for _, p := range n.PeerList {
			if p.EnodeID() != nodeID {
				out = append(out, p)
			}
		}
		n.PeerList = out
		n.mu.Unlock()
	}
	return nil
}
func (n *FakeEth) Peers(ctx context.Context) ([]ethnode.PeerInfo, error) {
	n.mu.Lock()
	defer n.mu.Unlock()
	if n.FailOn == "Peers" {
		return nil, errors.New("fake node: Peers failed")
	}
	return append([]ethnode.PeerInfo(nil), n.PeerList...), nil
}
func (n *FakeEth) BlockNumber(ctx context.Context) (uint64, error) {
	n.mu.Lock()
	defer n.mu.Unlock()
	return n.Block, nil
}

// TakeCalls returns and clears the recorded calls.
func (n *FakeEth) TakeCalls() []NodeCall {
	n.mu.Lock()
	defer n.mu.Unlock()
	c := n.Calls
	n.Calls = nil
	return c
}

func (n *FakeEth) String() string { return fmt.Sprintf("FakeEth(%s)", Short(n.ID)) }

var _ ethnode.EthNode = &FakeEth{}
