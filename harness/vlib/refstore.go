package vlib

import (
	"reflect"
	"fmt"
	"math/big"
	"sort"
	"strings"
	"time"

	"github.com/vipnode/vipnode/v2/pool/store"
)

// RefStore is an executable reference model of the documented store.Store
// contract (DESIGN.md appendix A). Results are canonical strings so that a
// driver's answer, the model's answer and the other driver's answer can be
// compared and printed.
type RefStore struct {
	Nodes map[string]*RefNode
	Peers map[string]map[string]time.Time
	Link  map[string]string
	Acct  map[string]*big.Int
	AcctN map[string]bool // account balance entry exists (was credited or linked)
	Trial map[string]*big.Int
	HW    map[string]int64
}

// RefNode mirrors store.Node; SeenLo/SeenHi bound LastSeen when a driver
// stamped it with its own clock.
type RefNode struct {
	Node   store.Node
	SeenLo time.Time
	SeenHi time.Time
}

func NewRefStore() *RefStore {
	return &RefStore{
		Nodes: map[string]*RefNode{}, Peers: map[string]map[string]time.Time{},
		Link: map[string]string{}, Acct: map[string]*big.Int{}, AcctN: map[string]bool{},
		Trial: map[string]*big.Int{}, HW: map[string]int64{},
	}
}

// SafetyMargin is the distance generators keep from the 120 s window.
const SafetyMargin = 10 * time.Second

// Fresh says whether a stamp is inside the activity window at time now; ok is
// false when the stamp is too close to the boundary to decide.
func Fresh(stamp, now time.Time) (fresh bool, ok bool) {
	age := now.Sub(stamp)
	if age > store.ExpireInterval-SafetyMargin/2 && age < store.ExpireInterval+SafetyMargin/2 {
		return false, false
	}
	return age < store.ExpireInterval, true
}

func errName(err error) string {
	switch err {
	case nil:
		return "ok"
	case store.ErrUnregisteredNode:
		return "ErrUnregisteredNode"
	case store.ErrNotAuthorized:
		return "ErrNotAuthorized"
	case store.ErrInvalidNonce:
		return "ErrInvalidNonce"
	case store.ErrMalformedNode:
		return "ErrMalformedNode"
	}
	return "err:" + err.Error()
}

// ErrName canonicalises a store error.
func ErrName(err error) string { return errName(err) }

func (m *RefStore) SetNode(n store.Node) string {
	if n.ID == "" {
		return "ErrMalformedNode"
	}
	m.Nodes[string(n.ID)] = &RefNode{Node: n, SeenLo: n.LastSeen, SeenHi: n.LastSeen}
	if m.Peers[string(n.ID)] == nil {
		m.Peers[string(n.ID)] = map[string]time.Time{}
	}
	return "ok"
}

func (m *RefStore) credit(id string) (acct string, c *big.Int) {
	if a, ok := m.Link[id]; ok {
		if v, ok := m.Acct[a]; ok {
			return a, v
		}
		return a, new(big.Int)
	}
	if v, ok := m.Trial[id]; ok {
		return "", v
	}
	return "", new(big.Int)
}

func (m *RefStore) GetNodeBalance(id string) string {
	if _, ok := m.Nodes[id]; !ok {
		return "ErrUnregisteredNode"
	}
	a, c := m.credit(id)
	return fmt.Sprintf("ok account=%q credit=%s", a, c.String())
}

func (m *RefStore) AddNodeBalance(id string, c *big.Int) string {
	if _, ok := m.Nodes[id]; !ok {
		return "ErrUnregisteredNode"
	}
	if a, ok := m.Link[id]; ok {
		m.addAcct(a, c)
	} else {
		if m.Trial[id] == nil {
			m.Trial[id] = new(big.Int)
		}
		m.Trial[id].Add(m.Trial[id], c)
	}
	return "ok"
}

func (m *RefStore) addAcct(a string, c *big.Int) {
	if m.Acct[a] == nil {
		m.Acct[a] = new(big.Int)
	}
	m.Acct[a].Add(m.Acct[a], c)
	m.AcctN[a] = true
}

func (m *RefStore) GetAccountBalance(a string) string {
	c := new(big.Int)
	if v, ok := m.Acct[a]; ok {
		c = v
	}
	acct := ""
	if m.AcctN[a] {
		acct = a
	}
	return fmt.Sprintf("ok account=%q credit=%s", acct, c.String())
}

func (m *RefStore) AddAccountBalance(a string, c *big.Int) string {
	m.addAcct(a, c)
	return "ok"
}

func (m *RefStore) AddAccountNode(a, id string) string {
	if _, ok := m.Nodes[id]; !ok {
		return "ErrUnregisteredNode"
	}
	m.Link[id] = a
	t := new(big.Int)
	if v, ok := m.Trial[id]; ok {
		t = v
	}
	m.addAcct(a, t)
	delete(m.Trial, id)
	return "ok"
}

func (m *RefStore) IsAccountNode(a, id string) string {
	if l, ok := m.Link[id]; ok && l == a {
		return "ok"
	}
	return "ErrNotAuthorized"
}

func (m *RefStore) GetAccountNodes(a string) string {
	ids := []string{}
	for id, l := range m.Link {
		if l == a {
			ids = append(ids, id)
		}
	}
	sort.Strings(ids)
	return "ok nodes=" + strings.Join(ids, ",")
}

func (m *RefStore) GetNode(id string) (string, *RefNode) {
	n, ok := m.Nodes[id]
	if !ok {
		return "ErrUnregisteredNode", nil
	}
	return "ok " + nodeFields(n.Node), n
}

func nodeFields(n store.Node) string {
	return fmt.Sprintf("id=%q uri=%q kind=%q host=%v payout=%q block=%d nv=%q vv=%q", n.ID, n.URI, n.Kind, n.IsHost, n.Payout, n.BlockNumber, n.NodeVersion, n.VipnodeVersion)
}

// NodeFields canonicalises a node without its timestamp.
func NodeFields(n store.Node) string { return nodeFields(n) }

// Eligible returns the set of hosts ActiveHosts may return at time now; ok is
// false when some stamp is undecidably close to the window boundary.
func (m *RefStore) Eligible(kind string, now time.Time) (ids []string, ok bool) {
	ok = true
	for id, n := range m.Nodes {
		if !n.Node.IsHost {
			continue
		}
		if kind != "" && n.Node.Kind != kind {
			continue
		}
		f, dec := Fresh(n.SeenLo, now)
		if !dec {
			ok = false
		}
		if f {
			ids = append(ids, id)
		}
	}
	sort.Strings(ids)
	return ids, ok
}

func (m *RefStore) NodePeers(id string) string {
	if _, ok := m.Nodes[id]; !ok {
		return "ErrUnregisteredNode"
	}
	ids := []string{}
	for p := range m.Peers[id] {
		if _, ok := m.Nodes[p]; ok {
			ids = append(ids, p)
		}
	}
	sort.Strings(ids)
	return "ok peers=" + strings.Join(ids, ",")
}

// UpdateNodePeers applies a keep-alive performed in wall interval [t0,t1].
// ok=false means a stamp was too close to the boundary (case inconclusive).
func (m *RefStore) UpdateNodePeers(id string, peers []string, block uint64, t0, t1 time.Time) (res string, ok bool) {
	n, reg := m.Nodes[id]
	if !reg {
		return "ErrUnregisteredNode", true
	}
	ok = true
	n.Node.LastSeen = t0
	n.SeenLo, n.SeenHi = t0, t1
	n.Node.BlockNumber = block
	if m.Peers[id] == nil {
		m.Peers[id] = map[string]time.Time{}
	}
	for _, p := range peers {
		if pn, reg := m.Nodes[p]; reg {
			m.Peers[id][p] = pn.SeenLo
		}
	}
	inactive := []string{}
	for p, stamp := range m.Peers[id] {
		f, dec := Fresh(stamp, t0)
		if !dec {
			ok = false
		}
		if !f {
			inactive = append(inactive, p)
			delete(m.Peers[id], p)
		}
	}
	sort.Strings(inactive)
	return "ok inactive=" + strings.Join(inactive, ","), ok
}

func (m *RefStore) Stats(now time.Time) (string, bool) {
	ok := true
	var ah, th, ac, tc int
	var maxBlock uint64
	for _, n := range m.Nodes {
		f, dec := Fresh(n.SeenLo, now)
		if !dec {
			ok = false
		}
		if n.Node.IsHost {
			th++
			if f {
				ah++
			}
		} else {
			tc++
			if f {
				ac++
			}
		}
		if n.Node.BlockNumber > maxBlock {
			maxBlock = n.Node.BlockNumber
		}
	}
	total := new(big.Int)
	for _, v := range m.Acct {
		total.Add(total, v)
	}
	for _, v := range m.Trial {
		total.Add(total, v)
	}
	return fmt.Sprintf("ok activeHosts=%d totalHosts=%d activeClients=%d totalClients=%d block=%d credit=%s deposit=0 trials=%d",
		ah, th, ac, tc, maxBlock, total.String(), len(m.Trial)), ok
}

// TotalCredit is the model's ledger total.
func (m *RefStore) TotalCredit() *big.Int {
	total := new(big.Int)
	for _, v := range m.Acct {
		total.Add(total, v)
	}
	for _, v := range m.Trial {
		total.Add(total, v)
	}
	return total
}

func (m *RefStore) CheckAndSaveNonce(id string, nonce int64, now time.Time) (res string, ok bool) {
	limit := now.Add(-store.ExpireNonce).UnixNano()
	d := nonce - limit
	if d < 0 {
		d = -d
	}
	if time.Duration(d) < 30*time.Second {
		return "", false
	}
	if nonce <= limit {
		return "ErrInvalidNonce", true
	}
	if nonce <= m.HW[id] {
		return "ErrInvalidNonce", true
	}
	m.HW[id] = nonce
	return "ok", true
}

// Canonical renderings of driver results ------------------------------------

func CanonBalance(b store.Balance, err error) string {
	if err != nil {
		return errName(err)
	}
	s := fmt.Sprintf("ok account=%q credit=%s", b.Account, b.Credit.String())
	if b.Deposit.Sign() != 0 {
		s += " deposit=" + b.Deposit.String()
	}
	return s
}

func CanonNodeIDs(prefix string, ids []store.NodeID, err error) string {
	if err != nil {
		return errName(err)
	}
	l := make([]string, 0, len(ids))
	for _, id := range ids {
		l = append(l, string(id))
	}
	sort.Strings(l)
	return "ok " + prefix + "=" + strings.Join(l, ",")
}

func CanonNodes(prefix string, ns []store.Node, err error) string {
	if err != nil {
		return errName(err)
	}
	l := make([]string, 0, len(ns))
	for _, n := range ns {
		l = append(l, string(n.ID))
	}
	sort.Strings(l)
	return "ok " + prefix + "=" + strings.Join(l, ",")
}

func CanonStats(s *store.Stats, err error) string {
	if err != nil {
		return errName(err)
	}
	return fmt.Sprintf("ok activeHosts=%d totalHosts=%d activeClients=%d totalClients=%d block=%d credit=%s deposit=%s trials=%d",
		s.NumActiveHosts, s.NumTotalHosts, s.NumActiveClients, s.NumTotalClients, s.LatestBlockNumber, s.TotalCredit.String(), s.TotalDeposit.String(), s.NumTrialBalances)
}

// SetPayout sets a node's payout account from a string whatever the field's
// exact type is (the harness should build against a tree that re-types it).
func SetPayout(n *store.Node, payout string) {
	f := reflect.ValueOf(n).Elem().FieldByName("Payout")
	if f.IsValid() && f.Kind() == reflect.String && f.CanSet() {
		f.SetString(payout)
	}
}

// PayoutString renders a node's payout account.
func PayoutString(n *store.Node) string { return fmt.Sprint(reflect.ValueOf(n).Elem().FieldByName("Payout").Interface()) }
