package vlib

import (
	"hash/fnv"
	"math/rand"
)

// SubSeed derives a reproducible seed from VERIF_SEED, a label and an index.
func SubSeed(label string, idx int) int64 {
	h := fnv.New64a()
	h.Write([]byte(label))
	x := uint64(Seed())*0x9E3779B97F4A7C15 ^ h.Sum64() ^ (uint64(idx)+1)*0xBF58476D1CE4E5B9
	// splitmix64 finaliser
	x ^= x >> 30
	x *= 0xBF58476D1CE4E5B9
	x ^= x >> 27
	x *= 0x94D049BB133111EB
	x ^= x >> 31
	return int64(x & 0x7fffffffffffffff)
}

// Rand returns a PRNG for (label, idx) under the run's seed.
func Rand(label string, idx int) *rand.Rand {
	return rand.New(rand.NewSource(SubSeed(label, idx)))
}

// Pick returns one of the options.
func Pick[T any](r *rand.Rand, opts ...T) T { return opts[r.Intn(len(opts))] }
