package vlib

import (
	"fmt"
	"net"
	"os"
	"os/exec"
	"path/filepath"
	"regexp"
	"strings"
	"syscall"
	"time"
)

// FreePort returns a currently free loopback TCP port.
func FreePort() int {
	ln, err := net.Listen("tcp", "127.0.0.1:0")
	if err != nil {
		panic(err)
	}
	defer ln.Close()
	return ln.Addr().(*net.TCPAddr).Port
}

// BuildVipnode builds the real binary from the repository working tree into
// the check's build directory (once per flavour).
func BuildVipnode(flavour string) (string, error) {
	dir := os.Getenv("VERIF_BUILD_DIR")
	if dir == "" {
		dir = os.TempDir()
	}
	out := filepath.Join(dir, "vipnode-"+flavour)
	if _, err := os.Stat(out); err == nil {
		return out, nil
	}
	repo := os.Getenv("VERIF_REPO")
	if repo == "" {
		repo = "/repo"
	}
	args := []string{"build", "-tags", "verif", "-o", out}
	switch flavour {
	case "race":
		args = append(args, "-race")
	case "asan":
		args = append(args, "-asan")
	}
	args = append(args, ".")
	cmd := exec.Command("go", args...)
	cmd.Dir = repo
	if b, err := cmd.CombinedOutput(); err != nil {
		return "", fmt.Errorf("go build (%s): %v: %s", flavour, err, b)
	}
	return out, nil
}

// Proc is a child process with its output captured to a file.
type Proc struct {
	Cmd     *exec.Cmd
	LogPath string
	done    chan error
	exited  bool
	exitErr error
}

// StartProc starts a child with stdout+stderr appended to logPath.
func StartProc(logPath string, env []string, bin string, args ...string) (*Proc, error) {
	f, err := os.OpenFile(logPath, os.O_CREATE|os.O_WRONLY|os.O_APPEND, 0o644)
	if err != nil {
		return nil, err
	}
	cmd := exec.Command(bin, args...)
	cmd.Env = append(os.Environ(), env...)
	cmd.Stdout, cmd.Stderr = f, f
	if err := cmd.Start(); err != nil {
		f.Close()
		return nil, err
	}
	p := &Proc{Cmd: cmd, LogPath: logPath, done: make(chan error, 1)}
	go func() { p.done <- cmd.Wait(); f.Close() }()
	return p, nil
}

// Exited reports whether the process has exited (non-blocking).
func (p *Proc) Exited() (bool, error) {
	if p.exited {
		return true, p.exitErr
	}
	select {
	case err := <-p.done:
		p.exited, p.exitErr = true, err
		return true, err
	default:
		return false, nil
	}
}

// WaitExit waits up to d for the process to exit.
func (p *Proc) WaitExit(d time.Duration) (bool, error) {
	if p.exited {
		return true, p.exitErr
	}
	select {
	case err := <-p.done:
		p.exited, p.exitErr = true, err
		return true, err
	case <-time.After(d):
		return false, nil
	}
}

// Kill terminates the process (SIGQUIT first for a goroutine dump when dump is true).
func (p *Proc) Kill(dump bool) {
	if ex, _ := p.Exited(); ex {
		return
	}
	if dump {
		p.Cmd.Process.Signal(syscall.SIGQUIT)
		if ex, _ := p.WaitExit(3 * time.Second); ex {
			return
		}
	}
	p.Cmd.Process.Kill()
	p.WaitExit(5 * time.Second)
}

// WaitListening waits until addr accepts TCP connections or the process exits.
func (p *Proc) WaitListening(addr string, d time.Duration) bool {
	deadline := time.Now().Add(d)
	for time.Now().Before(deadline) {
		if ex, _ := p.Exited(); ex {
			return false
		}
		c, err := net.DialTimeout("tcp", addr, 200*time.Millisecond)
		if err == nil {
			c.Close()
			return true
		}
		time.Sleep(20 * time.Millisecond)
	}
	return false
}

var panicRe = regexp.MustCompile(`(?m)^(panic: .*|fatal error: .*|WARNING: DATA RACE|==\d+==ERROR: AddressSanitizer.*)$`)
var repoFrameRe = regexp.MustCompile(`(?m)^(github\.com/vipnode/vipnode/v2[^\s(]*|main\.[^\s(]*)\(`)
var fileLineRe = regexp.MustCompile(`(?m)^\s+(/\S+\.go):(\d+)`)

// CrashSignature extracts a stable crash signature (message + first repository
// frames) from a child's log; "" when there is none.
func CrashSignature(logPath string) (sig string, excerpt string) {
	body, err := os.ReadFile(logPath)
	if err != nil {
		return "", ""
	}
	s := string(body)
	loc := panicRe.FindStringIndex(s)
	if loc == nil {
		return "", ""
	}
	msg := s[loc[0]:loc[1]]
	rest := s[loc[1]:]
	frames := []string{}
	for _, ln := range strings.Split(rest, "\n") {
		if !(strings.HasPrefix(ln, "github.com/vipnode/vipnode/v2") || strings.HasPrefix(ln, "main.")) {
			continue
		}
		if i := strings.LastIndex(ln, "("); i > 0 {
			ln = ln[:i]
		}
		frames = append(frames, strings.TrimPrefix(ln, "github.com/vipnode/vipnode/v2/"))
		if len(frames) == 3 {
			break
		}
	}
	// normalise numbers in the message so the key is stable
	msg = regexp.MustCompile(`0x[0-9a-f]+`).ReplaceAllString(msg, "0x..")
	msg = regexp.MustCompile(`\[[^\]]*\]`).ReplaceAllString(msg, "[..]")
	end := loc[0] + 2500
	if end > len(s) {
		end = len(s)
	}
	return msg + " @ " + strings.Join(frames, " < "), s[loc[0]:end]
}
