package vlib

import (
	"crypto/ecdsa"
	"encoding/base64"
	"encoding/hex"
	"encoding/json"
	"fmt"

	"github.com/ethereum/go-ethereum/crypto"
	"github.com/ethereum/go-ethereum/p2p/discv5"
)

// Identity is a deterministic secp256k1 key with its node id and wallet address.
type Identity struct {
	Key    *ecdsa.PrivateKey
	NodeID string // 128 hex chars
	Wallet string // 0x-prefixed checksummed address
	Name   string
}

// NewIdentity derives key number i of a named family.
func NewIdentity(family string, i int) *Identity {
	seed := crypto.Keccak256([]byte(fmt.Sprintf("verif-key/%s/%d", family, i)))
	for {
		k, err := crypto.ToECDSA(seed)
		if err == nil {
			return &Identity{
				Key:    k,
				NodeID: discv5.PubkeyID(&k.PublicKey).String(),
				Wallet: crypto.PubkeyToAddress(k.PublicKey).Hex(),
				Name:   fmt.Sprintf("%s%d", family, i),
			}
		}
		seed = crypto.Keccak256(seed)
	}
}

// RefPayload is the harness's own statement of what a signature covers:
// method ‖ JSON([identity, nonce, args...]).
func RefPayload(method, identity string, nonce int64, args ...interface{}) ([]byte, error) {
	arr := make([]interface{}, 0, 2+len(args))
	arr = append(arr, identity, nonce)
	arr = append(arr, args...)
	body, err := json.Marshal(arr)
	if err != nil {
		return nil, err
	}
	return append([]byte(method), body...), nil
}

// RefSignBytes signs like the documented scheme, independently of
// request.Sign: Keccak256 of the payload, EIP-191 prefix for wallet
// identities (≤ 42 chars); returns the raw 65 signature bytes.
func RefSignBytes(key *ecdsa.PrivateKey, method, identity string, nonce int64, args ...interface{}) ([]byte, error) {
	payload, err := RefPayload(method, identity, nonce, args...)
	if err != nil {
		return nil, err
	}
	if len(identity) <= 42 {
		payload = append([]byte(fmt.Sprintf("\x19Ethereum Signed Message:\n%d", len(payload))), payload...)
	}
	return crypto.Sign(crypto.Keccak256(payload), key)
}

// EncodeSig encodes raw signature bytes the way the identity style expects:
// base64 for node ids, hex for wallets.
func EncodeSig(identity string, sig []byte) string {
	if len(identity) <= 42 {
		return hex.EncodeToString(sig)
	}
	return base64.StdEncoding.EncodeToString(sig)
}

// RefSign is RefSignBytes + EncodeSig.
func RefSign(key *ecdsa.PrivateKey, method, identity string, nonce int64, args ...interface{}) string {
	sig, err := RefSignBytes(key, method, identity, nonce, args...)
	if err != nil {
		panic(err)
	}
	return EncodeSig(identity, sig)
}
