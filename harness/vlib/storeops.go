package vlib

import (
	"fmt"
	"math/big"
	"math/rand"
	"sort"
	"strings"
	"time"

	"github.com/vipnode/vipnode/v2/pool/store"
)

// StoreOp is one store operation of a generated history (JSON-friendly so it
// can be written to samples and replay files).
type StoreOp struct {
	Op       string   `json:"op"`
	ID       string   `json:"id,omitempty"`
	Acct     string   `json:"acct,omitempty"`
	Amount   string   `json:"amount,omitempty"`
	Peers    []string `json:"peers,omitempty"`
	Block    uint64   `json:"block,omitempty"`
	Limit    int      `json:"limit,omitempty"`
	IsHost   bool     `json:"is_host,omitempty"`
	NodeKind string   `json:"node_kind,omitempty"`
	AgeSec   int      `json:"age_s,omitempty"`
	NonceOff int64    `json:"nonce_off,omitempty"` // ns relative to the history's base time
}

func (o StoreOp) String() string {
	switch o.Op {
	case "SetNode":
		return fmt.Sprintf("SetNode(%q host=%v kind=%q age=%ds)", o.ID, o.IsHost, o.NodeKind, o.AgeSec)
	case "AddNodeBalance", "AddAccountBalance":
		return fmt.Sprintf("%s(%q%q,%s)", o.Op, o.ID, o.Acct, o.Amount)
	case "AddAccountNode", "IsAccountNode":
		return fmt.Sprintf("%s(%q,%q)", o.Op, o.Acct, o.ID)
	case "UpdateNodePeers":
		return fmt.Sprintf("UpdateNodePeers(%q,%v,%d)", o.ID, o.Peers, o.Block)
	case "ActiveHosts":
		return fmt.Sprintf("ActiveHosts(%q,%d)", o.NodeKind, o.Limit)
	case "CheckAndSaveNonce":
		return fmt.Sprintf("CheckAndSaveNonce(%q,base%+d)", o.ID, o.NonceOff)
	}
	return fmt.Sprintf("%s(%q%q)", o.Op, o.ID, o.Acct)
}

// StoreAlphabet is the small id/account alphabet of generated histories.
type StoreAlphabet struct {
	Nodes    []string
	Accounts []string
	Amounts  []string
	Kinds    []string
	Ages     []int
}

// DefaultAlphabet is the alphabet of DESIGN.md C12.
// RealisticAlphabet uses ids the way they occur in production: 128-hex node
// ids (also in upper case and with a 0x prefix: to a store these are three
// different ids) and checksummed wallet addresses, two of which share their
// first twelve characters.
func RealisticAlphabet() StoreAlphabet {
	a := DefaultAlphabet()
	h1 := NewIdentity("alphabet-node", 1).NodeID
	h2 := NewIdentity("alphabet-node", 2).NodeID
	a.Nodes = []string{h1, strings.ToUpper(h1), "0x" + h1, h2, "0x" + h2, "n1"}
	w1 := NewIdentity("alphabet-wallet", 1).Wallet
	w2 := w1[:12] + NewIdentity("alphabet-wallet", 2).Wallet[12:]
	a.Accounts = []string{w1, w2, strings.ToLower(w1)}
	return a
}

func DefaultAlphabet() StoreAlphabet {
	return StoreAlphabet{
		Nodes:    []string{"n1", "n2", "n3", "n4", "", "x:y"},
		Accounts: []string{"A", "B", ""},
		Amounts:  []string{"0", "1", "-1", "2", "7", "18446744073709551616", "-18446744073709551616", "1000000000000000000000000000000", "-1000000000000000000000000000000", "4611686018427387904", "-4611686018427387904", "9223372036854775807", "1000000000000000000"},
		Kinds:    []string{"geth", "parity", ""},
		Ages:     []int{0, 60, 110, 130, 180, 3600, -1},
	}
}

// GenStoreOp draws one operation.
func GenStoreOp(r *rand.Rand, a StoreAlphabet) StoreOp {
	node := func() string { return a.Nodes[r.Intn(len(a.Nodes))] }
	acct := func() string { return a.Accounts[r.Intn(len(a.Accounts))] }
	switch r.Intn(17) {
	case 0, 1, 2:
		return StoreOp{Op: "SetNode", ID: node(), IsHost: r.Intn(2) == 0, NodeKind: a.Kinds[r.Intn(len(a.Kinds))], AgeSec: a.Ages[r.Intn(len(a.Ages))], Block: uint64(r.Intn(50))}
	case 3:
		return StoreOp{Op: "GetNode", ID: node()}
	case 4:
		return StoreOp{Op: "GetNodeBalance", ID: node()}
	case 5, 6:
		return StoreOp{Op: "AddNodeBalance", ID: node(), Amount: a.Amounts[r.Intn(len(a.Amounts))]}
	case 7:
		return StoreOp{Op: "GetAccountBalance", Acct: acct()}
	case 8:
		return StoreOp{Op: "AddAccountBalance", Acct: acct(), Amount: a.Amounts[r.Intn(len(a.Amounts))]}
	case 9, 10:
		return StoreOp{Op: "AddAccountNode", Acct: acct(), ID: node()}
	case 11:
		if r.Intn(2) == 0 {
			return StoreOp{Op: "IsAccountNode", Acct: acct(), ID: node()}
		}
		return StoreOp{Op: "GetAccountNodes", Acct: acct()}
	case 12, 13:
		n := r.Intn(4)
		ps := make([]string, 0, n)
		for i := 0; i < n; i++ {
			if r.Intn(8) == 0 {
				ps = append(ps, "unknown-peer")
			} else {
				ps = append(ps, node())
			}
		}
		return StoreOp{Op: "UpdateNodePeers", ID: node(), Peers: ps, Block: uint64(r.Intn(100))}
	case 14:
		return StoreOp{Op: "NodePeers", ID: node()}
	case 15:
		if r.Intn(3) == 0 {
			return StoreOp{Op: "Stats"}
		}
		return StoreOp{Op: "ActiveHosts", NodeKind: a.Kinds[r.Intn(len(a.Kinds))], Limit: r.Intn(6)}
	default:
		offs := []int64{0, 1, 2, 3, 5, 1000, -1, int64(-14 * time.Minute), int64(-16 * time.Minute), int64(-20 * time.Minute), int64(time.Minute)}
		ids := []string{"n1", "n2", "A", ""}
		return StoreOp{Op: "CheckAndSaveNonce", ID: ids[r.Intn(len(ids))], NonceOff: offs[r.Intn(len(offs))] + int64(r.Intn(3))}
	}
}

// setNodeLastSeen: the check-in time a SetNode operation supplies; a negative
// age stands for "none supplied" (the zero time), which is simply a very old
// check-in.
func setNodeLastSeen(o StoreOp, base time.Time) time.Time {
	if o.AgeSec < 0 {
		return time.Time{}
	}
	return base.Add(-time.Duration(o.AgeSec) * time.Second)
}

func bigOf(s string) *big.Int {
	v, ok := new(big.Int).SetString(s, 10)
	if !ok {
		panic("bad amount " + s)
	}
	return v
}

// ExecResult is the outcome of one operation on one implementation.
type ExecResult struct {
	Res      string
	T0, T1   time.Time
	LastSeen time.Time // GetNode only
	Hosts    []string  // ActiveHosts only
}

// ExecStoreOp runs op against a real driver.
func ExecStoreOp(s store.Store, o StoreOp, base time.Time) (r ExecResult) {
	r.T0 = time.Now()
	defer func() { r.T1 = time.Now() }()
	switch o.Op {
	case "SetNode":
		err := s.SetNode(store.Node{ID: store.NodeID(o.ID), IsHost: o.IsHost, Kind: o.NodeKind, LastSeen: setNodeLastSeen(o, base), BlockNumber: o.Block, URI: "enode://" + o.ID + "@192.0.2.1:30303"})
		r.Res = errName(err)
	case "GetNode":
		n, err := s.GetNode(store.NodeID(o.ID))
		if err != nil {
			r.Res = errName(err)
		} else {
			r.Res = "ok " + nodeFields(*n)
			r.LastSeen = n.LastSeen
		}
	case "GetNodeBalance":
		r.Res = CanonBalance(s.GetNodeBalance(store.NodeID(o.ID)))
	case "AddNodeBalance":
		r.Res = errName(s.AddNodeBalance(store.NodeID(o.ID), bigOf(o.Amount)))
	case "GetAccountBalance":
		r.Res = CanonBalance(s.GetAccountBalance(store.Account(o.Acct)))
	case "AddAccountBalance":
		r.Res = errName(s.AddAccountBalance(store.Account(o.Acct), bigOf(o.Amount)))
	case "AddAccountNode":
		r.Res = errName(s.AddAccountNode(store.Account(o.Acct), store.NodeID(o.ID)))
	case "IsAccountNode":
		r.Res = errName(s.IsAccountNode(store.Account(o.Acct), store.NodeID(o.ID)))
	case "GetAccountNodes":
		ids, err := s.GetAccountNodes(store.Account(o.Acct))
		r.Res = CanonNodeIDs("nodes", ids, err)
	case "UpdateNodePeers":
		ids, err := s.UpdateNodePeers(store.NodeID(o.ID), o.Peers, o.Block)
		r.Res = CanonNodeIDs("inactive", ids, err)
	case "NodePeers":
		ns, err := s.NodePeers(store.NodeID(o.ID))
		r.Res = CanonNodes("peers", ns, err)
	case "ActiveHosts":
		ns, err := s.ActiveHosts(o.NodeKind, o.Limit)
		if err != nil {
			r.Res = errName(err)
		} else {
			for _, n := range ns {
				r.Hosts = append(r.Hosts, string(n.ID))
			}
			sort.Strings(r.Hosts)
			r.Res = fmt.Sprintf("ok n=%d", len(ns))
		}
	case "Stats":
		r.Res = CanonStats(s.Stats())
	case "CheckAndSaveNonce":
		r.Res = errName(s.CheckAndSaveNonce(o.ID, base.UnixNano()+o.NonceOff))
	default:
		panic("unknown op " + o.Op)
	}
	return
}

// ModelStoreOp applies op to the model. prescribed=false means the contract
// is silent on the result; decidable=false means a time class was too close to
// a window boundary to decide (the case is inconclusive).
func ModelStoreOp(m *RefStore, o StoreOp, base time.Time, t0, t1 time.Time) (res string, eligible []string, decidable bool) {
	decidable = true
	switch o.Op {
	case "SetNode":
		res = m.SetNode(store.Node{ID: store.NodeID(o.ID), IsHost: o.IsHost, Kind: o.NodeKind, LastSeen: setNodeLastSeen(o, base), BlockNumber: o.Block, URI: "enode://" + o.ID + "@192.0.2.1:30303"})
	case "GetNode":
		res, _ = m.GetNode(o.ID)
	case "GetNodeBalance":
		res = m.GetNodeBalance(o.ID)
	case "AddNodeBalance":
		res = m.AddNodeBalance(o.ID, bigOf(o.Amount))
	case "GetAccountBalance":
		res = m.GetAccountBalance(o.Acct)
	case "AddAccountBalance":
		res = m.AddAccountBalance(o.Acct, bigOf(o.Amount))
	case "AddAccountNode":
		res = m.AddAccountNode(o.Acct, o.ID)
	case "IsAccountNode":
		res = m.IsAccountNode(o.Acct, o.ID)
	case "GetAccountNodes":
		res = m.GetAccountNodes(o.Acct)
	case "UpdateNodePeers":
		res, decidable = m.UpdateNodePeers(o.ID, o.Peers, o.Block, t0, t1)
	case "NodePeers":
		res = m.NodePeers(o.ID)
	case "ActiveHosts":
		eligible, decidable = m.Eligible(o.NodeKind, t0)
		n := len(eligible)
		if o.Limit > 0 && o.Limit < n {
			n = o.Limit
		}
		res = fmt.Sprintf("ok n=%d", n)
	case "Stats":
		res, decidable = m.Stats(t0)
		if m.AcctN[""] {
			// An account entry with an empty name is indistinguishable from a
			// trial balance for Stats.CountBalance.
			res = bumpTrials(res)
		}
	case "CheckAndSaveNonce":
		res, decidable = m.CheckAndSaveNonce(o.ID, base.UnixNano()+o.NonceOff, t0)
	default:
		panic("unknown op " + o.Op)
	}
	return
}

func bumpTrials(res string) string {
	i := strings.LastIndex(res, "trials=")
	if i < 0 {
		return res
	}
	var n int
	fmt.Sscanf(res[i:], "trials=%d", &n)
	return fmt.Sprintf("%strials=%d", res[:i], n+1)
}

// SubsetOf reports whether a ⊆ b without duplicates in a.
func SubsetOf(a, b []string) bool {
	set := map[string]bool{}
	for _, x := range b {
		set[x] = true
	}
	seen := map[string]bool{}
	for _, x := range a {
		if !set[x] || seen[x] {
			return false
		}
		seen[x] = true
	}
	return true
}
