package vlib

import (
	"os"
	"path/filepath"
	"regexp"
	"sort"
	"strings"
)

// RaceReport is one de-duplicated data race report.
type RaceReport struct {
	Key     string   `json:"key"`
	Count   int      `json:"count"`
	StackA  []string `json:"stack_a"`
	StackB  []string `json:"stack_b"`
	Harness bool     `json:"harness_only"` // both stacks entirely inside the harness
}

var frameRe = regexp.MustCompile(`^  ([^\s(][^\n]*)\(\)$`)
var fileRe = regexp.MustCompile(`^      (\S+):\d+ \+0x`)

// ParseRaceLogs reads all files matching prefix* and returns reports
// de-duplicated by the pair of innermost repository frames.
func ParseRaceLogs(prefix string) ([]RaceReport, int) {
	files, _ := filepath.Glob(prefix + "*")
	total := 0
	byKey := map[string]*RaceReport{}
	for _, f := range files {
		body, err := os.ReadFile(f)
		if err != nil {
			continue
		}
		blocks := strings.Split(string(body), "WARNING: DATA RACE")
		for _, blk := range blocks[1:] {
			total++
			if i := strings.Index(blk, "=================="); i >= 0 {
				blk = blk[:i]
			}
			// split into access sections
			lines := strings.Split(blk, "\n")
			var stacks [][]string
			var cur []string
			inAccess := false
			for _, ln := range lines {
				switch {
				case strings.HasPrefix(ln, "Write at") || strings.HasPrefix(ln, "Read at") || strings.HasPrefix(ln, "Previous write at") || strings.HasPrefix(ln, "Previous read at") || strings.HasPrefix(ln, "Atomic") || strings.HasPrefix(ln, "Previous atomic"):
					if inAccess {
						stacks = append(stacks, cur)
					}
					cur = nil
					inAccess = true
				case strings.HasPrefix(ln, "Goroutine "):
					if inAccess {
						stacks = append(stacks, cur)
						inAccess = false
					}
				default:
					if inAccess {
						if m := frameRe.FindStringSubmatch(ln); m != nil {
							cur = append(cur, m[1])
						}
					}
				}
			}
			if inAccess {
				stacks = append(stacks, cur)
			}
			if len(stacks) < 2 {
				continue
			}
			sig := func(st []string) (string, bool) {
				harnessOnly := true
				for _, fn := range st {
					if strings.Contains(fn, "github.com/vipnode/vipnode") {
						harnessOnly = false
					}
				}
				for _, fn := range st {
					if strings.Contains(fn, "github.com/vipnode/vipnode/v2/") {
						return strings.TrimPrefix(fn, "github.com/vipnode/vipnode/v2/"), false
					}
				}
				for _, fn := range st {
					if strings.HasPrefix(fn, "verifharness/") {
						// strip closure suffixes so the key is stable
						if i := strings.Index(fn, ".func"); i > 0 {
							fn = fn[:i]
						}
						if i := strings.Index(fn, ".gowrap"); i > 0 {
							fn = fn[:i]
						}
						return "harness-reader:" + strings.TrimPrefix(fn, "verifharness/"), harnessOnly
					}
				}
				for _, fn := range st {
					if !strings.HasPrefix(fn, "runtime.") {
						return fn, harnessOnly
					}
				}
				return "?", harnessOnly
			}
			a, ha := sig(stacks[0])
			b, hb := sig(stacks[1])
			pair := []string{a, b}
			sort.Strings(pair)
			key := "race:" + pair[0] + "|" + pair[1]
			if r, ok := byKey[key]; ok {
				r.Count++
				continue
			}
			byKey[key] = &RaceReport{Key: key, Count: 1, StackA: stacks[0], StackB: stacks[1], Harness: ha && hb}
		}
	}
	out := []RaceReport{}
	for _, r := range byKey {
		out = append(out, *r)
	}
	sort.Slice(out, func(i, j int) bool { return out[i].Key < out[j].Key })
	return out, total
}
