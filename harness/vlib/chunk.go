package vlib

import (
	"io"
	"math/rand"
	"net"
	"sync"
	"time"
)

// ChunkMode selects how a byte stream is split into reads.
type ChunkMode int

const (
	ChunkOneByte ChunkMode = iota
	ChunkSmall             // 1..7 bytes
	ChunkRandom            // 1..4096 bytes
	ChunkAll               // as much as the caller's buffer takes (coalesced)
	ChunkPauses            // random pieces with tiny pauses between reads
)

var ChunkModeNames = map[ChunkMode]string{ChunkOneByte: "1-byte", ChunkSmall: "1..7", ChunkRandom: "1..4096", ChunkAll: "coalesced", ChunkPauses: "pieces+pauses"}

// ByteStream is an in-memory unidirectional byte pipe with unbounded buffer
// whose reads are chunked according to a mode.
type ByteStream struct {
	mu     sync.Mutex
	cond   *sync.Cond
	buf    []byte
	closed bool
	mode   ChunkMode
	rnd    *rand.Rand
	Reads  int
}

func NewByteStream(mode ChunkMode, seed int64) *ByteStream {
	s := &ByteStream{mode: mode, rnd: rand.New(rand.NewSource(seed))}
	s.cond = sync.NewCond(&s.mu)
	return s
}

func (s *ByteStream) Write(p []byte) (int, error) {
	s.mu.Lock()
	defer s.mu.Unlock()
	if s.closed {
		return 0, io.ErrClosedPipe
	}
	s.buf = append(s.buf, p...)
	s.cond.Broadcast()
	return len(p), nil
}

func chunkSize(mode ChunkMode, rnd *rand.Rand, avail, want int) int {
	k := want
	switch mode {
	case ChunkOneByte:
		k = 1
	case ChunkSmall:
		k = 1 + rnd.Intn(7)
	case ChunkRandom, ChunkPauses:
		k = 1 + rnd.Intn(4096)
	}
	if k > avail {
		k = avail
	}
	if k > want {
		k = want
	}
	return k
}

func (s *ByteStream) Read(p []byte) (int, error) {
	s.mu.Lock()
	defer s.mu.Unlock()
	for len(s.buf) == 0 {
		if s.closed {
			return 0, io.EOF
		}
		s.cond.Wait()
	}
	k := chunkSize(s.mode, s.rnd, len(s.buf), len(p))
	copy(p, s.buf[:k])
	s.buf = s.buf[k:]
	s.Reads++
	return k, nil
}

func (s *ByteStream) Close() error {
	s.mu.Lock()
	s.closed = true
	s.mu.Unlock()
	s.cond.Broadcast()
	return nil
}

// ChunkConn wraps a net.Conn so that its reads are chunked.
type ChunkConn struct {
	net.Conn
	Mode ChunkMode
	mu   sync.Mutex
	rnd  *rand.Rand
}

func NewChunkConn(c net.Conn, mode ChunkMode, seed int64) *ChunkConn {
	return &ChunkConn{Conn: c, Mode: mode, rnd: rand.New(rand.NewSource(seed))}
}

func (c *ChunkConn) Read(p []byte) (int, error) {
	if len(p) == 0 {
		return c.Conn.Read(p)
	}
	c.mu.Lock()
	k := chunkSize(c.Mode, c.rnd, len(p), len(p))
	pause := c.Mode == ChunkPauses && c.rnd.Intn(4) == 0
	c.mu.Unlock()
	if pause {
		time.Sleep(50 * time.Microsecond)
	}
	if c.Mode == ChunkAll {
		// give the sender time to coalesce several messages into the socket buffer
		time.Sleep(200 * time.Microsecond)
	}
	return c.Conn.Read(p[:k])
}

// ChunkListener wraps accepted connections in ChunkConns.
type ChunkListener struct {
	net.Listener
	Mode ChunkMode
	Seed int64
}

func (l *ChunkListener) Accept() (net.Conn, error) {
	c, err := l.Listener.Accept()
	if err != nil {
		return nil, err
	}
	return NewChunkConn(c, l.Mode, l.Seed), nil
}
