package checks

import (
	"context"
	"errors"
	"fmt"
	"io"
	"math/rand"
	"net"
	"net/url"
	"os"
	"sort"
	"strings"
	"sync"
	"testing"
	"time"

	"github.com/vipnode/vipnode/v2/agent"
	"github.com/vipnode/vipnode/v2/ethnode"
	"github.com/vipnode/vipnode/v2/pool"
	"github.com/vipnode/vipnode/v2/pool/store"
	"verifharness/vlib"
)

// scriptedPool is a fake pool.Pool whose replies are scripted per call.
type scriptedPool struct {
	mu          sync.Mutex
	connects    int
	updates     []pool.UpdateRequest
	peerReqs    []pool.PeerRequest
	nextUpdate  func(n int, req pool.UpdateRequest) (*pool.UpdateResponse, error)
	nextPeer    func(req pool.PeerRequest) (*pool.PeerResponse, error)
	connectErr  error
	updateTimes []time.Time
}

func (p *scriptedPool) Host(ctx context.Context, req pool.HostRequest) (*pool.HostResponse, error) {
	return &pool.HostResponse{}, nil
}
func (p *scriptedPool) Client(ctx context.Context, req pool.ClientRequest) (*pool.ClientResponse, error) {
	return &pool.ClientResponse{}, nil
}
func (p *scriptedPool) Connect(ctx context.Context, req pool.ConnectRequest) (*pool.ConnectResponse, error) {
	p.mu.Lock()
	defer p.mu.Unlock()
	p.connects++
	if p.connectErr != nil {
		return nil, p.connectErr
	}
	return &pool.ConnectResponse{PoolVersion: "scripted"}, nil
}
func (p *scriptedPool) Update(ctx context.Context, req pool.UpdateRequest) (*pool.UpdateResponse, error) {
	if err := ctx.Err(); err != nil {
		return nil, err // like a real transport: a finished context fails the call
	}
	p.mu.Lock()
	p.updates = append(p.updates, req)
	p.updateTimes = append(p.updateTimes, time.Now())
	n := len(p.updates)
	fn := p.nextUpdate
	p.mu.Unlock()
	if fn == nil {
		return &pool.UpdateResponse{}, nil
	}
	return fn(n, req)
}
func (p *scriptedPool) Peer(ctx context.Context, req pool.PeerRequest) (*pool.PeerResponse, error) {
	p.mu.Lock()
	p.peerReqs = append(p.peerReqs, req)
	fn := p.nextPeer
	p.mu.Unlock()
	if fn == nil {
		return &pool.PeerResponse{}, nil
	}
	return fn(req)
}
func (p *scriptedPool) Withdraw(ctx context.Context) error { return nil }
func (p *scriptedPool) numUpdates() int {
	p.mu.Lock()
	defer p.mu.Unlock()
	return len(p.updates)
}

// refRemoteHost is the harness's own statement of the host normalisation:
// loopback / unspecified / localhost / no user part => no host.
func refRemoteHost(enode string) (id, host string, ok bool) {
	s := enode
	if !strings.Contains(s, "://") {
		s = "enode://" + s
	}
	u, err := url.Parse(s)
	if err != nil || u.Scheme != "enode" {
		return "", "", false
	}
	if u.User == nil {
		return u.Host, "", true
	}
	h := u.Hostname()
	if h == "localhost" {
		return u.User.Username(), "", true
	}
	if ip := net.ParseIP(h); ip != nil && (ip.IsLoopback() || ip.IsUnspecified()) {
		return u.User.Username(), "", true
	}
	if h == "" {
		return u.User.Username(), "", true
	}
	return u.User.Username(), h, true
}

// c18TimeoutErr is what a transport deadline looks like to the agent.
type c18TimeoutErr struct{}

func (c18TimeoutErr) Error() string   { return "i/o timeout (scripted)" }
func (c18TimeoutErr) Timeout() bool   { return true }
func (c18TimeoutErr) Temporary() bool { return true }

// c18PoolError: the ways a keep-alive can fail - an RPC error, deadlines of
// the transport, a connection that went away.
func c18PoolError(r *rand.Rand) error {
	switch r.Intn(7) {
	case 0:
		return context.DeadlineExceeded
	case 1:
		return os.ErrDeadlineExceeded
	case 2:
		return c18TimeoutErr{}
	case 3:
		return fmt.Errorf("pool call failed: %w", context.DeadlineExceeded)
	case 4:
		return io.ErrUnexpectedEOF
	case 5:
		return &net.OpError{Op: "read", Net: "tcp", Err: c18TimeoutErr{}}
	}
	return errors.New("scripted update failure")
}

func idSet(calls []vlib.NodeCall, method string) []string {
	set := map[string]bool{}
	for _, c := range calls {
		if c.Method == method {
			set[c.Arg] = true
		}
	}
	out := []string{}
	for k := range set {
		out = append(out, k)
	}
	sort.Strings(out)
	return out
}

var c18Hosts = []string{"198.51.100.1", "198.51.100.2", "127.0.0.1", "0.0.0.0", "[::1]", "[::]", "localhost", "[2001:db8::9]", "[2001:db8:ffff::99]", "[2001:db9::1]", "node.example.org"}

func c18Case(ev *vlib.Evidence, idx int) {
	r := vlib.Rand("C18", idx)
	strict := r.Intn(2) == 0
	full := r.Intn(2) == 0
	kind := vlib.Pick(r, ethnode.Geth, ethnode.Parity)
	target := r.Intn(11)
	node := &vlib.FakeEth{ID: vlib.NewIdentity("c18self", 0).NodeID, NodeKind: kind, Full: full, Apply: r.Intn(2) == 0}
	universe := make([]*vlib.Identity, 8)
	for i := range universe {
		universe[i] = vlib.NewIdentity("c18peer", i)
	}
	mkLocal := func() []ethnode.PeerInfo {
		out := []ethnode.PeerInfo{}
		for _, p := range universe[:6] {
			if r.Intn(2) == 0 {
				pi := ethnode.PeerInfo{ID: p.NodeID}
				host := c18Hosts[r.Intn(len(c18Hosts))]
				pi.Network.RemoteAddress = fmt.Sprintf("%s:%d", host, 30000+r.Intn(1000))
				if r.Intn(3) == 0 {
					// geth style: ID is a hash, the pubkey lives in the enode string
					pi.ID = "hash-" + p.Name
					pi.Enode = "enode://" + p.NodeID + "@" + pi.Network.RemoteAddress
					if r.Intn(2) == 0 {
						// what a node advertises about itself need not be where it is connected from
						pi.Enode = fmt.Sprintf("enode://%s@%s:%d", p.NodeID, c18Hosts[r.Intn(len(c18Hosts))], 30303)
					}
				}
				out = append(out, pi)
			}
		}
		return out
	}
	node.PeerList = mkLocal()
	if fr := vlib.Rand("C18-nodefault", idx); fr.Intn(5) == 0 {
		// the Ethereum node refuses one kind of admin call (module not enabled, RPC hiccup): the
		// agent still makes every other call the round requires
		node.FailOn = vlib.Pick(fr, "RemoveTrustedPeer", "DisconnectPeer")
	}
	sp := &scriptedPool{}
	a := &agent.Agent{EthNode: node, NumHosts: target, StrictPeers: strict, UpdateInterval: time.Hour}
	trace := []string{fmt.Sprintf("config strict=%v fullnode=%v kind=%s target=%d apply=%v node-fails=%q", strict, full, kind, target, node.Apply, node.FailOn)}
	rounds := 1 + r.Intn(4)
	type script struct {
		active, invalid []string
		updateErr       error
		peerHosts       []store.Node
		peerErr         error
	}
	genScript := func(local []ethnode.PeerInfo) script {
		s := script{}
		for _, p := range universe {
			switch r.Intn(5) {
			case 0, 1:
				// active, under some host (maybe matching the local one)
				host := c18Hosts[r.Intn(len(c18Hosts))]
				for _, lp := range local {
					if lp.EnodeID() == p.NodeID && r.Intn(3) != 0 {
						h, _, _ := net.SplitHostPort(lp.Network.RemoteAddress)
						if strings.Contains(h, ":") {
							h = "[" + h + "]"
						}
						host = h
					}
				}
				uri := fmt.Sprintf("enode://%s@%s:%d", p.NodeID, host, 30303+r.Intn(5))
				if r.Intn(5) == 0 {
					// no address known, in every address-less spelling
					uri = vlib.Pick(r, "enode://"+p.NodeID+"@", "enode://"+p.NodeID, p.NodeID)
				}
				s.active = append(s.active, uri)
			case 2:
				if r.Intn(2) == 0 {
					s.invalid = append(s.invalid, p.NodeID)
				} else {
					s.invalid = append(s.invalid, "enode://"+p.NodeID+"@198.51.100.77:30303")
				}
			}
		}
		if r.Intn(10) == 0 {
			s.updateErr = c18PoolError(r)
		}
		np := r.Intn(4)
		for i := 0; i < np; i++ {
			h := vlib.NewIdentity("c18new", r.Intn(20))
			addr := fmt.Sprintf("203.0.113.%d:30303", 1+r.Intn(200))
			if r.Intn(3) == 0 {
				addr = vlib.Pick(r, "127.0.0.1:30304", "localhost:30305", "[::1]:30306", "[2001:db8::5]:30307")
			}
			s.peerHosts = append(s.peerHosts, store.Node{ID: store.NodeID(h.NodeID), URI: "enode://" + h.NodeID + "@" + addr})
		}
		if r.Intn(10) == 0 {
			s.peerErr = errors.New("scripted peer failure")
		}
		return s
	}
	var cur script
	sp.nextUpdate = func(n int, req pool.UpdateRequest) (*pool.UpdateResponse, error) {
		if cur.updateErr != nil {
			return nil, cur.updateErr
		}
		return &pool.UpdateResponse{ActivePeers: append([]string{}, cur.active...), InvalidPeers: append([]string{}, cur.invalid...)}, nil
	}
	sp.nextPeer = func(req pool.PeerRequest) (*pool.PeerResponse, error) {
		if cur.peerErr != nil {
			return nil, cur.peerErr
		}
		return &pool.PeerResponse{Peers: cur.peerHosts}, nil
	}
	started := false
	defer func() {
		if started {
			a.Stop()
			a.Wait()
		}
	}()
	for round := 0; round < rounds; round++ {
		node.TakeCalls()
		local, _ := node.Peers(context.Background())
		cur = genScript(local)
		sp.mu.Lock()
		peerReqsBefore := len(sp.peerReqs)
		updatesBefore := len(sp.updates)
		sp.mu.Unlock()
		var err error
		if !started {
			err = a.Start(sp)
			if err == nil {
				started = true
			}
		} else {
			err = a.UpdatePeers(context.Background(), sp)
		}
		calls := node.TakeCalls()
		sp.mu.Lock()
		peerReqs := append([]pool.PeerRequest{}, sp.peerReqs[peerReqsBefore:]...)
		nUpdates := len(sp.updates) - updatesBefore
		var reported []ethnode.PeerInfo
		if nUpdates > 0 {
			reported = sp.updates[len(sp.updates)-1].PeerInfo
		}
		sp.mu.Unlock()
		trace = append(trace, fmt.Sprintf("round %d: local=%d active=%d invalid=%d updateErr=%v peerHosts=%d peerErr=%v -> err=%v calls=%v peerReqs=%+v", round, len(local), len(cur.active), len(cur.invalid), cur.updateErr, len(cur.peerHosts), cur.peerErr, err, calls, peerReqs))
		detail := func() map[string]interface{} {
			la := []string{}
			for _, p := range local {
				la = append(la, vlib.Short(p.EnodeID())+"@"+p.Network.RemoteAddress)
			}
			aa := []string{}
			for _, u := range cur.active {
				aa = append(aa, strings.Replace(u, u[8:8+118], "", 1))
			}
			return map[string]interface{}{"index": idx, "trace": trace, "local_peers": la, "pool_active": aa, "pool_invalid": abbrevList(cur.invalid)}
		}
		ev.Count("rounds", 1)
		if nUpdates != 1 {
			ev.Violate("keepalive-count", detail())
			return
		}
		if len(reported) != len(local) {
			ev.Violate("reported-peers-differ-from-node", detail())
			return
		}
		// failed keep-alive: nothing changes on the node
		if cur.updateErr != nil {
			ev.Case(strings.Join(trace, ";"), true)
			ev.Count("failed-keepalives", 1)
			if err == nil {
				ev.Violate("failed-update-reported-success", detail())
				return
			}
			if len(calls) > 0 || len(peerReqs) > 0 {
				ev.Violate("node-changed-after-failed-update", detail())
				return
			}
			if !started {
				return
			}
			continue
		}
		// expected invalid set
		want := map[string]bool{}
		for _, p := range cur.invalid {
			if id, _, ok := refRemoteHost(p); ok {
				want[id] = true
			} else {
				want[p] = true
			}
		}
		if strict {
			activeHost := map[string]string{}
			for _, u := range cur.active {
				if id, h, ok := refRemoteHost(u); ok {
					activeHost[id] = h
				}
			}
			for _, lp := range local {
				id := lp.EnodeID()
				_, lh, ok := refRemoteHost("enode://" + id + "@" + lp.Network.RemoteAddress)
				if ah, listed := activeHost[id]; ok && listed && ah == lh {
					continue
				}
				want[id] = true
			}
		}
		wantIDs := []string{}
		for k := range want {
			wantIDs = append(wantIDs, k)
		}
		sort.Strings(wantIDs)
		gotUntrust := idSet(calls, "RemoveTrustedPeer")
		gotDisc := idSet(calls, "DisconnectPeer")
		if strings.Join(gotUntrust, ",") != strings.Join(wantIDs, ",") || strings.Join(gotDisc, ",") != strings.Join(wantIDs, ",") {
			d := detail()
			d["want_dropped"], d["untrusted"], d["disconnected"] = abbrevList(wantIDs), abbrevList(gotUntrust), abbrevList(gotDisc)
			key := "nonstrict:dropped-set"
			if strict {
				key = "strict:dropped-set"
				missingPoolInvalid := false
				for _, p := range cur.invalid {
					id, _, _ := refRemoteHost(p)
					found := false
					for _, g := range gotUntrust {
						if g == id {
							found = true
						}
					}
					if !found {
						missingPoolInvalid = true
					}
				}
				if missingPoolInvalid {
					key = "strict:pool-invalid-peer-not-dropped"
				}
			}
			ev.Violate(key, d)
			return
		}
		// top-up
		shortfall := target - len(cur.active)
		wantKind := ""
		if !full {
			wantKind = kind.String()
		}
		if shortfall > 0 {
			if len(peerReqs) != 1 || peerReqs[0].Num != shortfall || peerReqs[0].Kind != wantKind {
				d := detail()
				d["want_request"] = fmt.Sprintf("{Num:%d Kind:%q}", shortfall, wantKind)
				ev.Violate("peer-request-shortfall-or-kind", d)
				return
			}
			wantConnect := []string{}
			if cur.peerErr == nil {
				for _, h := range cur.peerHosts {
					wantConnect = append(wantConnect, h.URI)
				}
			}
			got := []string{}
			for _, c := range calls {
				if c.Method == "ConnectPeer" {
					got = append(got, c.Arg)
				}
			}
			if strings.Join(got, ",") != strings.Join(wantConnect, ",") {
				d := detail()
				d["want_connects"], d["got_connects"] = len(wantConnect), len(got)
				ev.Violate("connects-differ-from-returned-hosts", d)
				return
			}
			ev.Count("peer-requests", 1)
		} else if len(peerReqs) != 0 {
			ev.Violate("peer-request-without-shortfall", detail())
			return
		}
		for _, c := range calls {
			if c.Method == "AddTrustedPeer" {
				ev.Violate("unexpected-trust-call", detail())
				return
			}
		}
		ev.Case(strings.Join(trace, ";"), len(wantIDs) > 0 || shortfall > 0)
		if cur.peerErr != nil && shortfall > 0 && err != nil && !started {
			return
		}
		if !started {
			return
		}
		// next round: maybe change the local peers by hand
		if !node.Apply && r.Intn(2) == 0 {
			node.PeerList = mkLocal()
		}
	}
	if idx < 2 {
		ev.Sample(map[string]interface{}{"trace": trace})
	}
}

func TestC18(t *testing.T) {
	ev := vlib.NewEvidence("C18", "exploration",
		"binary: the built `vipnode agent` configured on its command line (--min-peers, --strict-peers) against a fake geth/parity node over HTTP JSON-RPC and a harness pool over WebSocket, one round per start, same model; RPC-backed: the same reconciliation through the repository's real geth and parity node wrappers (ethnode.RemoteNode) against a fake Ethereum node served by go-ethereum's in-process RPC server, comparing the admin_* / parity_* calls that arrive with the model (parity peers without protocols are not peers); real agent.Agent against a recording fake Ethereum node and a scripted pool: generated local peer sets (ids directly or inside enode strings; hosts incl. loopback/unspecified/localhost/IPv6/DNS), pool replies (active as enode URIs with matching or different hosts and ports or no address; invalid as ids or URIs incl. peers that are not local), strict on/off, targets 0..10, full node or light client of either kind, pool errors at update / peer request, 1-4 rounds (optionally applying the calls to the node's peer list); oracle: set of un-trusted and of disconnected ids = pool-invalid (+ strict mismatches under the reference host normalisation), one peer request for exactly the shortfall with the right kind iff short, ConnectPeer for every returned host, nothing after a failed keep-alive; non-trivial = something had to be dropped or requested; distinct = distinct traces; (faults) the node refusing every un-trust or every disconnect call in one case of five")
	parallelCases(vlib.Scale(2500, 400000), 12, func(i int) { c18Case(ev, i) })
	parallelCases(vlib.Scale(600, 60000), 12, func(i int) { c18RPC(ev, i) })
	if bin, err := vlib.BuildVipnode("plain"); err != nil {
		fmt.Println("HARNESS-ERROR", err)
		ev.Inconclusive("build")
	} else {
		parallelCases(vlib.Scale(16, 300), 8, func(i int) { c18AgentBinary(ev, bin, i) })
	}
	for _, nInv := range []int{32, 33, 60, 500} {
		c18ManyInvalidPeers(ev, nInv+20, nInv, false)
		c18ManyInvalidPeers(ev, nInv+20, nInv, true)
	}
	finish(t, ev)
}
