package checks

import (
	"context"
	"fmt"
	"net"
	"strings"
	"sync"
	"sync/atomic"
	"testing"
	"time"

	"github.com/vipnode/vipnode/v2/jsonrpc2"
	"verifharness/vlib"
)

// EchoReply is what the echo handler returns.
type EchoReply struct {
	Token  string `json:"token"`
	Callee string `json:"callee"`
	CtxOK  bool   `json:"ctx_ok"`
	Nested string `json:"nested,omitempty"` // problem found in a nested call-back, if any
}

// EchoService is registered on both ends of a connection.
// InnerService sits behind a jsonrpc2.Local.
type InnerService struct {
	self *jsonrpc2.Local
}

// Check reports whether the context service is the Local the call came through.
func (i *InnerService) Check(ctx context.Context) (bool, error) {
	svc, err := jsonrpc2.CtxService(ctx)
	return err == nil && svc == jsonrpc2.Service(i.self), nil
}

type EchoService struct {
	Name   string
	local  *jsonrpc2.Local
	self   *jsonrpc2.Remote
	mu     sync.Mutex
	counts map[string]int
	wrong  int64
}

// Echo returns its token; with depth > 0 it first calls back over the
// connection the request arrived on.
func (s *EchoService) Echo(ctx context.Context, token string, depth int) (*EchoReply, error) {
	s.mu.Lock()
	s.counts[token]++
	s.mu.Unlock()
	svc, err := jsonrpc2.CtxService(ctx)
	rep := &EchoReply{Token: token, Callee: s.Name, CtxOK: err == nil && svc == jsonrpc2.Service(s.self)}
	if depth > 0 && s.local != nil && len(token)%3 == 0 {
		// part of the work is delegated to an in-process service, handing on this request's context;
		// the handler behind it must see that in-process service, not the connection
		var ok bool
		if lerr := s.local.Call(ctx, &ok, "inner_check"); lerr != nil || !ok {
			rep.Nested = fmt.Sprintf("in-process handler saw a foreign context service (err=%v)", lerr)
			return rep, nil
		}
	}
	if depth > 0 && err == nil {
		cctx, cancel := context.WithTimeout(context.Background(), 60*time.Second)
		defer cancel()
		var sub EchoReply
		nt := token + "/n"
		if err := svc.Call(cctx, &sub, "echo_echo", nt, depth-1); err != nil {
			rep.Nested = "nested call failed: " + err.Error()
		} else if sub.Token != nt {
			rep.Nested = fmt.Sprintf("nested call for %q got reply for %q", nt, sub.Token)
		} else if sub.Callee == s.Name {
			rep.Nested = "nested call answered by the wrong side"
		} else if !sub.CtxOK {
			rep.Nested = "nested handler saw a foreign context service"
		} else if sub.Nested != "" {
			rep.Nested = sub.Nested
		}
	}
	return rep, nil
}

func (s *EchoService) count(token string) int {
	s.mu.Lock()
	defer s.mu.Unlock()
	return s.counts[token]
}

type c14Pair struct {
	a, b   *jsonrpc2.Remote
	sa, sb *EchoService
	closer func()
}

func newC14Pair(ca, cb jsonrpc2.Codec, limit, discard int) *c14Pair {
	p := &c14Pair{sa: &EchoService{Name: "A", counts: map[string]int{}}, sb: &EchoService{Name: "B", counts: map[string]int{}}}
	srvA, srvB := &jsonrpc2.Server{}, &jsonrpc2.Server{}
	if err := srvA.RegisterMethod("echo_echo", p.sa, "Echo"); err != nil {
		panic(err)
	}
	srvB.RegisterMethod("echo_echo", p.sb, "Echo")
	p.a = &jsonrpc2.Remote{Codec: ca, Server: srvA, Client: &jsonrpc2.Client{}, PendingLimit: limit, PendingDiscard: discard}
	p.b = &jsonrpc2.Remote{Codec: cb, Server: srvB, Client: &jsonrpc2.Client{}, PendingLimit: limit, PendingDiscard: discard}
	if discard%2 == 1 || (limit == 0 && discard == 0 && c14NoClient()) {
		// a Remote may be built without a Client (it then creates its own on first use)
		p.a.Client, p.b.Client = nil, nil
	}
	p.sa.self, p.sb.self = p.a, p.b
	for _, es := range []*EchoService{p.sa, p.sb} {
		loc := &jsonrpc2.Local{}
		inner := &InnerService{self: loc}
		if err := loc.Server.RegisterMethod("inner_check", inner, "Check"); err != nil {
			panic(err)
		}
		es.local = loc
	}
	go p.a.Serve()
	go p.b.Serve()
	return p
}

// c14Round runs one round of concurrent callers on both ends.
var c14Flip int32

// c14NoClient alternates between Remotes with and without an explicit Client.
func c14NoClient() bool { return atomic.AddInt32(&c14Flip, 1)%2 == 0 }

var c14Stalls int32 // rounds that stalled; after a few the remaining rounds are skipped (the verdict is already a violation)

func c14Round(ev *vlib.Evidence, transport string, idx int) {
	if atomic.LoadInt32(&c14Stalls) >= 3 {
		return
	}
	r := vlib.Rand("C14-"+transport, idx)
	var pair *c14Pair
	var rn *vlib.ReorderNet
	limit, discard := 0, 0
	if r.Intn(2) == 0 {
		limit, discard = 50, 10
	}
	switch transport {
	case "memnet":
		rn = vlib.NewReorderNet(r.Int63())
		ca, cb := rn.Codecs()
		pair = newC14Pair(ca, cb, limit, discard)
		pair.closer = rn.Close
	case "pipe":
		c1, c2 := net.Pipe()
		pair = newC14Pair(jsonrpc2.IOCodec(c1), jsonrpc2.IOCodec(c2), limit, discard)
		pair.closer = func() { c1.Close(); c2.Close() }
	case "gorilla":
		cc, sc, srv := wsPair("gorilla", vlib.ChunkAll, r.Int63())
		if cc == nil || sc == nil {
			ev.Inconclusive("ws-setup")
			return
		}
		pair = newC14Pair(cc, sc, limit, discard)
		pair.closer = func() { cc.Close(); sc.Close(); srv.Close() }
	case "tcp":
		ln, err := net.Listen("tcp", "127.0.0.1:0")
		if err != nil {
			panic(err)
		}
		acc := make(chan net.Conn, 1)
		go func() { c, _ := ln.Accept(); acc <- c }()
		c1, err := net.Dial("tcp", ln.Addr().String())
		if err != nil {
			panic(err)
		}
		c2 := <-acc
		ln.Close()
		pair = newC14Pair(jsonrpc2.IOCodec(c1), jsonrpc2.IOCodec(c2), limit, discard)
		pair.closer = func() { c1.Close(); c2.Close() }
	}
	defer pair.closer()
	callers := 1 + r.Intn(16) // per side
	perCaller := 3 + r.Intn(8)
	maxDepth := r.Intn(4)
	cancelShare := 0
	if transport == "memnet" {
		cancelShare = r.Intn(3) // 0: none; else 1 in (6/cancelShare) calls
	}
	var okCalls, cancelled, mismatches, nestedProblems, racyCancelled, racyAnswered int64
	var outstanding int64
	var wg sync.WaitGroup
	var heldMu sync.Mutex
	held := map[string]bool{}
	if rn != nil {
		rn.SetHold(func(raw []byte) bool {
			heldMu.Lock()
			defer heldMu.Unlock()
			if len(held) == 0 {
				return false
			}
			s := string(raw)
			if !strings.Contains(s, `"result"`) {
				return false
			}
			for tok := range held {
				if strings.Contains(s, `"token":"`+tok+`"`) {
					return true
				}
			}
			return false
		})
	}
	stalled := int32(0)
	done := make(chan struct{})
	// stall detector: logical progress, not a deadline
	go func() {
		last, same := int64(-1), 0
		for {
			select {
			case <-done:
				return
			case <-time.After(time.Second):
			}
			cur := atomic.LoadInt64(&okCalls) + atomic.LoadInt64(&cancelled)
			if rn != nil {
				cur += atomic.LoadInt64(&rn.Delivered)
			}
			if cur == last && atomic.LoadInt64(&outstanding) > 0 {
				same++
			} else {
				same = 0
			}
			last = cur
			if same >= 15 {
				atomic.StoreInt32(&stalled, 1)
				pair.closer()
				return
			}
		}
	}()
	type problem struct{ kind, detail string }
	var probMu sync.Mutex
	problems := []problem{}
	addProblem := func(kind, detail string) {
		probMu.Lock()
		problems = append(problems, problem{kind, detail})
		probMu.Unlock()
	}
	for side := 0; side < 2; side++ {
		from, other, name := pair.a, pair.sb, "A"
		if side == 1 {
			from, other, name = pair.b, pair.sa, "B"
		}
		for c := 0; c < callers; c++ {
			wg.Add(1)
			seed := r.Int63()
			go func(from *jsonrpc2.Remote, other *EchoService, name string, c int, seed int64) {
				defer wg.Done()
				rr := vlib.Rand(fmt.Sprintf("C14-caller-%d", seed), c)
				for k := 0; k < perCaller; k++ {
					token := fmt.Sprintf("%s%d-%d-%d", name, idx, c, k)
					depth := 0
					if maxDepth > 0 {
						depth = rr.Intn(maxDepth + 1)
					}
					doCancel := cancelShare > 0 && rr.Intn(6/cancelShare) == 0
					atomic.AddInt64(&outstanding, 1)
					if doCancel {
						depth = 0
						heldMu.Lock()
						held[token] = true
						heldMu.Unlock()
						ctx, cancel := context.WithCancel(context.Background())
						resCh := make(chan error, 1)
						var rep EchoReply
						go func() { resCh <- from.Call(ctx, &rep, "echo_echo", token, depth) }()
						// wait (logically) until the handler ran, so the reply exists and is withheld
						for i := 0; other.count(token) == 0 && i < 20000 && atomic.LoadInt32(&stalled) == 0; i++ {
							time.Sleep(100 * time.Microsecond)
						}
						cancel()
						select {
						case err := <-resCh:
							if err == nil {
								addProblem("cancelled-call-got-a-reply-that-was-withheld", token)
							} else if err != context.Canceled {
								addProblem("cancelled-call-wrong-error", token+": "+err.Error())
							} else {
								atomic.AddInt64(&cancelled, 1)
							}
						case <-time.After(10 * time.Second):
							addProblem("cancelled-call-still-blocked-while-reply-withheld", token)
						}
						heldMu.Lock()
						delete(held, token)
						heldMu.Unlock()
						if rn != nil {
							rn.Wake() // the late reply is now delivered
						}
						atomic.AddInt64(&outstanding, -1)
						continue
					}
					ctx, cancel := context.WithTimeout(context.Background(), 120*time.Second)
					var rep EchoReply
					racy := rr.Intn(8) == 0
					if racy {
						// cancellation racing the reply: the context ends at about the moment the reply
						// arrives (nothing withheld). Either outcome is fine for this call - its own reply
						// or the context's error - and whatever it leaves behind must never reach a later call.
						depth = 0
						extra := time.Duration(rr.Intn(300)) * time.Microsecond
						go func() {
							for i := 0; other.count(token) == 0 && i < 20000 && atomic.LoadInt32(&stalled) == 0; i++ {
								time.Sleep(50 * time.Microsecond)
							}
							time.Sleep(extra)
							cancel()
						}()
					}
					err := from.Call(ctx, &rep, "echo_echo", token, depth)
					cancel()
					atomic.AddInt64(&outstanding, -1)
					if racy && err == context.Canceled {
						atomic.AddInt64(&racyCancelled, 1)
						continue
					}
					if racy && err == nil {
						atomic.AddInt64(&racyAnswered, 1)
					}
					if err != nil {
						if atomic.LoadInt32(&stalled) == 1 {
							return
						}
						addProblem("call-failed", token+": "+err.Error())
						continue
					}
					switch {
					case rep.Token != token:
						atomic.AddInt64(&mismatches, 1)
						addProblem("reply-of-another-call", fmt.Sprintf("sent %q got %q", token, rep.Token))
					case rep.Callee == name:
						addProblem("answered-by-own-side", token)
					case !rep.CtxOK:
						addProblem("wrong-context-service", token)
					case rep.Nested != "":
						atomic.AddInt64(&nestedProblems, 1)
						addProblem("nested:"+strings.SplitN(rep.Nested, ":", 2)[0], token+": "+rep.Nested)
					default:
						atomic.AddInt64(&okCalls, 1)
						if n := other.count(token); n != 1 {
							addProblem("handler-invocations", fmt.Sprintf("%s handled %d times", token, n))
						}
					}
				}
			}(from, other, name, c, seed)
		}
	}
	wg.Wait()
	close(done)
	desc := fmt.Sprintf("%s callers/side=%d calls/caller=%d maxdepth=%d cancelshare=%d pendinglimit=%d", transport, callers, perCaller, maxDepth, cancelShare, limit)
	if atomic.LoadInt32(&stalled) == 1 {
		atomic.AddInt32(&c14Stalls, 1)
		ev.Violate("stall:"+transport, map[string]interface{}{"case": desc, "index": idx, "ok": okCalls, "note": "no message delivered and no call completed for 15 s while calls were outstanding"})
	}
	seen := map[string]bool{}
	for _, p := range problems {
		if seen[p.kind] {
			continue
		}
		seen[p.kind] = true
		ev.Violate(transport+":"+p.kind, map[string]interface{}{"case": desc, "index": idx, "detail": p.detail, "problems_total": len(problems)})
	}
	// late replies must not have reached anyone: every call verified its own token above.
	time.Sleep(2 * time.Millisecond)
	ev.Count("calls-ok", okCalls)
	ev.Count("calls-cancelled-with-reply-withheld", cancelled)
	ev.Count("calls-cancelled-racing-their-reply:cancelled", racyCancelled)
	ev.Count("calls-cancelled-racing-their-reply:answered", racyAnswered)
	ev.Count("pending-entries-at-quiescence", int64(pair.a.VerifPendingLen()+pair.b.VerifPendingLen()))
	if rn != nil {
		ev.Count("deliveries", atomic.LoadInt64(&rn.Delivered))
		ev.Count("reordered-deliveries", rn.Reordered)
		if rn.MaxQueue > 1 {
			ev.Count("rounds-with-queued-bursts", 1)
		}
	}
	nontrivial := okCalls > 0 && (callers > 1 || maxDepth > 0)
	if rn != nil {
		nontrivial = nontrivial && rn.Reordered > 0
	}
	ev.Case(desc+fmt.Sprint(idx), nontrivial)
	if idx == 0 {
		ev.Sample(map[string]interface{}{"case": desc, "ok_calls": okCalls, "cancelled": cancelled})
	}
}

// GateService answers Wait only when released and never answers Never.
type GateService struct{ release chan struct{} }

func (g *GateService) Wait(token string) (string, error) { <-g.release; return token, nil }
func (g *GateService) Never(ctx context.Context) (string, error) {
	select {
	case <-g.release:
	case <-time.After(30 * time.Second):
	}
	return "never", nil
}

// c14PendingLimit: with the production routing-table limit (50 entries, 10
// discarded), 1-3 calls are waiting for slow replies while many other calls on
// the same connection are cancelled (their late replies arrive afterwards or
// never). The waiting calls must still get their own replies, and a cancelled
// call returns promptly with the context's error.
func c14PendingLimit(ev *vlib.Evidence, idx int) {
	r := vlib.Rand("C14-pending-limit", idx)
	c1, c2 := net.Pipe()
	defer c1.Close()
	defer c2.Close()
	gate := &GateService{release: make(chan struct{})}
	srv := &jsonrpc2.Server{}
	if err := srv.Register("gate_", gate); err != nil {
		panic(err)
	}
	limit, discard := 50, 10
	if r.Intn(3) == 0 {
		limit, discard = 5+r.Intn(20), 1+r.Intn(5)
	}
	a := &jsonrpc2.Remote{Codec: jsonrpc2.IOCodec(c1), Client: &jsonrpc2.Client{}, Server: &jsonrpc2.Server{}, PendingLimit: limit, PendingDiscard: discard}
	b := &jsonrpc2.Remote{Codec: jsonrpc2.IOCodec(c2), Client: &jsonrpc2.Client{}, Server: srv, PendingLimit: limit, PendingDiscard: discard}
	go a.Serve()
	go b.Serve()
	waiters := 1 + r.Intn(3)
	if idx%3 == 2 {
		// more calls waiting than the table's limit: none of them is stale
		waiters = limit + 5 + r.Intn(25)
	}
	type res struct {
		token, got string
		err        error
	}
	results := make(chan res, waiters)
	for i := 0; i < waiters; i++ {
		token := fmt.Sprintf("W%d-%d", idx, i)
		go func() {
			var out string
			ctx, cancel := context.WithTimeout(context.Background(), 20*time.Second)
			defer cancel()
			err := a.Call(ctx, &out, "gate_wait", token)
			results <- res{token, out, err}
		}()
	}
	time.Sleep(20 * time.Millisecond) // let the waiters send their requests first (they are the oldest entries)
	cancelled := limit + discard + r.Intn(30)
	slowCancel := 0
	desc := fmt.Sprintf("pending-limit limit=%d discard=%d waiters=%d cancelled=%d idx=%d", limit, discard, waiters, cancelled, idx)
	timeouts := make([]time.Duration, cancelled)
	for i := range timeouts {
		timeouts[i] = time.Duration(1+r.Intn(3)) * time.Millisecond
	}
	cancelDone := make(chan int, 1)
	go func() {
		slow := 0
		for i := 0; i < cancelled; i++ {
			ctx, cancel := context.WithTimeout(context.Background(), timeouts[i])
			var out string
			t0 := time.Now()
			err := a.Call(ctx, &out, "gate_never")
			cancel()
			if err == nil || time.Since(t0) > 5*time.Second {
				slow++
			}
		}
		cancelDone <- slow
	}()
	select {
	case slowCancel = <-cancelDone:
	case <-time.After(90 * time.Second):
		ev.Case(desc, true)
		ev.Violate("pending-limit:calls-never-returned", map[string]interface{}{"case": desc, "note": "calls with a context of a few milliseconds have not returned after 90 s"})
		close(gate.release)
		return
	}
	close(gate.release)
	ev.Case(desc, true)
	ev.Count("pending-limit-rounds", 1)
	ev.Count("pending-limit-cancelled-calls", int64(cancelled))
	giveUp := time.After(90 * time.Second)
	for i := 0; i < waiters; i++ {
		var rs res
		select {
		case rs = <-results:
		case <-giveUp:
			ev.Violate("pending-limit:calls-never-returned", map[string]interface{}{"case": desc, "returned": i, "of": waiters, "note": "neither a reply nor the context's error 70 s after every context has ended"})
			return
		}
		if rs.err != nil {
			ev.Violate("pending-limit:waiting-call-lost-its-reply", map[string]interface{}{"case": desc, "token": rs.token, "err": rs.err.Error()})
		} else if rs.got != rs.token {
			ev.Violate("pending-limit:reply-of-another-call", map[string]interface{}{"case": desc, "sent": rs.token, "got": rs.got})
		}
	}
	if slowCancel > 0 {
		ev.Violate("pending-limit:cancelled-call-did-not-return-with-context-error", map[string]interface{}{"case": desc, "calls": slowCancel})
	}
}

func TestC14(t *testing.T) {
	ev := vlib.NewEvidence("C14", "exploration",
		"(race) one call in eight is cancelled at about the moment its reply arrives (nothing withheld): it may return its own reply or the context error, and nothing it leaves behind may reach a later call; (limit) with the production routing-table limit (50/10, also smaller ones) 1-3 calls wait for slow replies while limit+discard+0..29 other calls on the connection are cancelled: the waiting calls still get their own replies and cancelled calls return with the context error; two real jsonrpc2.Remote ends joined by (a) an in-memory network that delivers queued messages in PRNG-chosen order (replies overtake requests, bursts, replies before the caller waits) and can withhold replies, (b) IOCodec over net.Pipe, (c) IOCodec over loopback TCP, (d) the gorilla WebSocket codec over loopback; handlers also delegate to an in-process jsonrpc2.Local handing on their context; 1..16 concurrent callers per side, unique token per call, handlers echo (token, callee, identity of the context service) and call back over the same connection to depth <= 3; cancellations are issued while the reply is provably withheld, then the late reply is released; PendingLimit 0 and 50/10; non-trivial = calls succeeded with >1 caller or nesting (memnet: and at least one reordered delivery); distinct = round descriptors; (faults) reply writes failing on the serving side")
	ev.Assume("stall detection is logical (no delivery and no completion for 15 s with calls outstanding), not a deadline on the round")
	parallelCases(vlib.Scale(12, 600), 6, func(i int) { c14PendingLimit(ev, i) })
	parallelCases(vlib.Scale(12, 600), 6, func(i int) { c14ReplyWriteFails(ev, i) })
	parallelCases(vlib.Scale(200, 60000), 12, func(i int) { c14Round(ev, "memnet", i) })
	parallelCases(vlib.Scale(40, 6000), 8, func(i int) { c14Round(ev, "pipe", i) })
	parallelCases(vlib.Scale(40, 6000), 8, func(i int) { c14Round(ev, "tcp", i) })
	parallelCases(vlib.Scale(30, 3000), 4, func(i int) { c14Round(ev, "gorilla", i) })
	finish(t, ev)
}
