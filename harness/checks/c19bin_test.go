package checks

import (
	"encoding/json"
	"fmt"
	"net"
	"net/url"
	"os"
	"path/filepath"
	"strings"
	"time"

	"github.com/vipnode/vipnode/v2/pool"
	"verifharness/vlib"
)

// c19Binary: the built pool binary listening on a real socket (IPv4 and IPv6
// loopback); hosts register over real WebSocket connections, so the source
// address is whatever the shipped WebSocket codec reports for a TCP peer, and
// a client then asks for peers: the URI handed out for each host must carry
// its id and the supplied address or, by default, the address it connected
// from with port 30303.
func c19Binary(ev *vlib.Evidence) {
	bin, err := vlib.BuildVipnode("plain")
	if err != nil {
		fmt.Println("HARNESS-ERROR", err)
		ev.Inconclusive("build")
		return
	}
	binds := []struct{ name, listen, ip string }{{"ipv4-loopback", "127.0.0.1", "127.0.0.1"}, {"ipv6-loopback", "[::1]", "::1"}}
	for _, b := range binds {
		if ln, err := net.Listen("tcp", b.listen+":0"); err != nil {
			ev.Note("binary:"+b.name, "not available in this sandbox: "+err.Error())
			continue
		} else {
			ln.Close()
		}
		func() {
			dir, _ := os.MkdirTemp("", "verif-c19b-")
			defer os.RemoveAll(dir)
			addr := fmt.Sprintf("%s:%d", b.listen, vlib.FreePort())
			p, err := vlib.StartProc(filepath.Join(dir, "pool.log"), []string{"HOME=" + dir}, bin, "pool", "--store=memory", "--bind", addr)
			if err != nil || !p.WaitListening(addr, 30*time.Second) {
				if p != nil {
					p.Kill(false)
				}
				ev.Inconclusive("pool-start")
				return
			}
			defer p.Kill(false)
			type reg struct {
				ov       c19Override
				id       *vlib.Identity
				accepted bool
				err      string
				sess     *binSession
			}
			regs := []*reg{}
			n := 0
			for _, ov := range c19Overrides {
				if ov.Exotic || ov.ForeignID {
					continue
				}
				n++
				id := vlib.NewIdentity("c19bin-"+b.name, n)
				s, err := newBinSession(addr, id)
				if err != nil {
					ev.Inconclusive("ws-dial")
					return
				}
				defer s.c.Close()
				_, e, _, _, ok := s.call("vipnode_connect", vlib.ConnectReq(true, "geth", ov.URI(id.NodeID, ""), ""))
				if !ok {
					ev.Inconclusive("ws")
					return
				}
				regs = append(regs, &reg{ov: ov, id: id, accepted: e == "", err: e, sess: s})
				ev.Count("binary-registrations:"+b.name, 1)
			}
			client := vlib.NewIdentity("c19bin-client", 0)
			cs, err := newBinSession(addr, client)
			if err != nil {
				ev.Inconclusive("ws-dial")
				return
			}
			defer cs.c.Close()
			if _, e, _, _, ok := cs.call("vipnode_connect", vlib.ConnectReq(false, "geth", "", "")); !ok || e != "" {
				ev.Inconclusive("client-connect")
				return
			}
			res, e, _, _, ok := cs.call("vipnode_peer", pool.PeerRequest{Num: 1000})
			if !ok {
				ev.Inconclusive("ws")
				return
			}
			var pr pool.PeerResponse
			json.Unmarshal(res, &pr)
			handed := map[string]string{}
			for _, h := range pr.Peers {
				handed[string(h.ID)] = h.URI
			}
			for _, rg := range regs {
				desc := fmt.Sprintf("binary/%s/override=%s", b.name, rg.ov.Name)
				wantHost, wantPort := rg.ov.Host, rg.ov.Port
				if wantHost == "" {
					wantHost = b.ip
				}
				if wantPort == "" {
					wantPort = "30303"
				}
				detail := map[string]interface{}{"case": desc, "override": strings.Replace(rg.ov.URI(rg.id.NodeID, ""), rg.id.NodeID, "<own-id>", -1), "connected_from": b.ip, "err": rg.err, "peer_request_err": e}
				ev.Case(desc, true)
				if !rg.accepted {
					ev.Violate("binary:valid-registration-refused:"+b.name+":"+rg.ov.Name, detail)
					continue
				}
				uri, ok := handed[rg.id.NodeID]
				if !ok {
					// not handed out: nothing advertised (eligibility is C08's question)
					ev.Count("binary-hosts-not-handed-out", 1)
					continue
				}
				detail["handed_out"] = strings.Replace(uri, rg.id.NodeID, "<own-id>", -1)
				u, perr := url.Parse(uri)
				if perr != nil || u.User == nil || u.User.Username() != rg.id.NodeID {
					ev.Violate("binary:advertised-id-not-authenticated-id:"+rg.ov.Name, detail)
					continue
				}
				if u.Hostname() != wantHost || u.Port() != wantPort {
					detail["want_host"], detail["want_port"] = wantHost, wantPort
					ev.Violate("binary:advertised-address-wrong:"+b.name+":"+rg.ov.Name, detail)
				}
				ev.Count("binary-advertised-uris-checked:"+b.name, 1)
			}
		}()
	}
}
