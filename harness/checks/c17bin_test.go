package checks

import (
	"encoding/json"
	"fmt"
	"io"
	"net/http"
	"os"
	"path/filepath"
	"strings"
	"time"

	"github.com/gorilla/websocket"
	"verifharness/vlib"
)

// c17Binary: the transports as the shipped pool binary wires them (its own
// top-level HTTP handler and whichever WebSocket codec it was built with).
//
//	(a) POST bodies sent with and without a Content-Length, in one piece and in small chunks
//	(b) many requests pipelined on one WebSocket connection, answered concurrently by the
//	    pool with replies of several kB: every reply must be one intact message carrying
//	    its own id (concurrent writers never interleave their bytes)
func c17Binary(ev *vlib.Evidence) {
	bin, err := vlib.BuildVipnode("plain")
	if err != nil {
		fmt.Println("HARNESS-ERROR", err)
		ev.Inconclusive("build")
		return
	}
	dir, _ := os.MkdirTemp("", "verif-c17b-")
	defer os.RemoveAll(dir)
	addr := fmt.Sprintf("127.0.0.1:%d", vlib.FreePort())
	p, err := vlib.StartProc(filepath.Join(dir, "pool.log"), []string{"HOME=" + dir}, bin, "pool", "--store=memory", "--bind", addr)
	if err != nil || !p.WaitListening(addr, 30*time.Second) {
		if p != nil {
			p.Kill(false)
		}
		ev.Inconclusive("pool-start")
		return
	}
	defer p.Kill(false)
	// hosts, so that pool_status replies are a few kB
	nh := vlib.Scale(24, 60)
	for i := 0; i < nh; i++ {
		id := vlib.NewIdentity("c17bin-host", i)
		s, err := newBinSession(addr, id)
		if err != nil {
			ev.Inconclusive("ws-dial")
			return
		}
		defer s.c.Close()
		if _, e, _, _, ok := s.call("vipnode_connect", vlib.ConnectReq(true, "geth", "enode://"+id.NodeID+"@203.0.113.9:30303", "")); !ok || e != "" {
			ev.Inconclusive("host-connect")
			return
		}
	}
	// (a) HTTP framing variants
	body := `{"jsonrpc":"2.0","id":41,"method":"pool_status","params":[]}`
	for _, variant := range []string{"content-length", "chunked", "chunked-small-pieces"} {
		var rd io.Reader = strings.NewReader(body)
		switch variant {
		case "chunked":
			rd = struct{ io.Reader }{strings.NewReader(body)}
		case "chunked-small-pieces":
			pr, pw := io.Pipe()
			go func() {
				for i := 0; i < len(body); i += 7 {
					j := i + 7
					if j > len(body) {
						j = len(body)
					}
					pw.Write([]byte(body[i:j]))
					time.Sleep(time.Millisecond)
				}
				pw.Close()
			}()
			rd = pr
		}
		req, _ := http.NewRequest(http.MethodPost, "http://"+addr+"/", rd)
		req.Header.Set("Content-Type", "application/json")
		resp, err := (&http.Client{Timeout: 30 * time.Second}).Do(req)
		ev.Case("binary/http/"+variant, true)
		ev.Count("messages:binary-http", 1)
		if err != nil {
			ev.Violate("binary:http-request-failed:"+variant, map[string]interface{}{"err": err.Error()})
			continue
		}
		rb, _ := io.ReadAll(resp.Body)
		resp.Body.Close()
		var m struct {
			ID     json.RawMessage `json:"id"`
			Result json.RawMessage `json:"result"`
		}
		if json.Unmarshal(rb, &m) != nil || string(m.ID) != "41" || len(m.Result) < 10 {
			ev.Violate("binary:http-message-not-answered:"+variant, map[string]interface{}{"status": resp.StatusCode, "reply": truncStr(string(rb), 300)})
		}
	}
	// (b) pipelined requests on one WebSocket connection
	rounds := vlib.Scale(6, 40)
	for round := 0; round < rounds; round++ {
		c, err := wsDial(addr)
		if err != nil {
			ev.Inconclusive("ws-dial")
			return
		}
		n := 48 + 16*(round%4)
		for i := 1; i <= n; i++ {
			c.SetWriteDeadline(time.Now().Add(10 * time.Second))
			if err := c.WriteMessage(websocket.TextMessage, []byte(fmt.Sprintf(`{"jsonrpc":"2.0","id":%d,"method":"pool_status","params":[]}`, i))); err != nil {
				break
			}
		}
		seen := map[string]bool{}
		problem := ""
		largest := 0
		for len(seen) < n && problem == "" {
			c.SetReadDeadline(time.Now().Add(30 * time.Second))
			_, data, err := c.ReadMessage()
			if err != nil {
				problem = fmt.Sprintf("after %d intact replies: %v", len(seen), err)
				break
			}
			if len(data) > largest {
				largest = len(data)
			}
			var m struct {
				ID     json.RawMessage `json:"id"`
				Result json.RawMessage `json:"result"`
			}
			if err := json.Unmarshal(data, &m); err != nil {
				problem = fmt.Sprintf("reply %d is not one JSON message: %v: %s", len(seen)+1, err, truncStr(string(data), 200))
			} else if seen[string(m.ID)] || len(m.ID) == 0 {
				problem = fmt.Sprintf("reply id %s seen twice or missing", m.ID)
			} else if len(m.Result) < 10 {
				problem = fmt.Sprintf("reply %s carries no result: %s", m.ID, truncStr(string(data), 200))
			}
			seen[string(m.ID)] = true
		}
		c.Close()
		ev.Case(fmt.Sprintf("binary/ws/pipelined n=%d round=%d", n, round), true)
		ev.Count("messages:binary-ws-pipelined", int64(len(seen)))
		ev.Count("binary-ws-largest-reply-bytes", int64(largest))
		if problem != "" {
			ev.Violate("binary:ws-concurrent-replies-damaged", map[string]interface{}{"pipelined": n, "hosts_in_status": nh, "problem": problem})
			break
		}
		if ex, _ := p.Exited(); ex {
			sig, excerpt := vlib.CrashSignature(filepath.Join(dir, "pool.log"))
			ev.Violate("binary:pool-process-died:"+sig, map[string]interface{}{"log": truncStr(excerpt, 500)})
			break
		}
	}
}
