package checks

import (
	"bytes"
	"encoding/gob"
	"fmt"
	"math/big"
	"os"
	"os/exec"
	"path/filepath"
	"sort"
	"strings"
	"sync"
	"sync/atomic"
	"syscall"
	"testing"
	"time"

	badgerdb "github.com/dgraph-io/badger/v2"
	"github.com/vipnode/vipnode/v2/pool/store"
	"github.com/vipnode/vipnode/v2/pool/store/badger"
	"verifharness/vlib"
)

func init() {
	childModes["c13writer"] = c13WriterChild
	childModes["c13open"] = func() int {
		s, err := badger.Open(vlib.BadgerDiskOptions(os.Getenv("VERIF_C13_DIR")))
		if err != nil {
			fmt.Println("OPEN-ERROR:", err)
			return 7
		}
		s.Close()
		fmt.Println("OPEN-OK")
		return 0
	}
}

var c13Nodes = []string{"n1", "n2", "n3", "n4"}
var c13Accts = []string{"A", "B"}

// c13GenOps: time-independent operation stream for kill runs.
func c13GenOps(idx int, n int) []vlib.StoreOp {
	r := vlib.Rand("C13-kill-ops", idx)
	ops := []vlib.StoreOp{}
	for i := 0; i < n; i++ {
		node := c13Nodes[r.Intn(len(c13Nodes))]
		acct := c13Accts[r.Intn(len(c13Accts))]
		amt := vlib.Pick(r, "1", "7", "-3", "1000000000000000000", "18446744073709551616", "-18446744073709551616")
		switch k := r.Intn(12); {
		case i < 3 || k < 2:
			ops = append(ops, vlib.StoreOp{Op: "SetNode", ID: node, IsHost: r.Intn(2) == 0, NodeKind: vlib.Pick(r, "geth", "parity"), Block: uint64(i)})
		case k < 5:
			ops = append(ops, vlib.StoreOp{Op: "AddNodeBalance", ID: node, Amount: amt})
		case k < 6:
			ops = append(ops, vlib.StoreOp{Op: "AddAccountBalance", Acct: acct, Amount: amt})
		case k < 8:
			ops = append(ops, vlib.StoreOp{Op: "AddAccountNode", Acct: acct, ID: node})
		case k < 10:
			ps := []string{}
			for j := 0; j < 1+r.Intn(3); j++ {
				ps = append(ps, c13Nodes[r.Intn(len(c13Nodes))])
			}
			ops = append(ops, vlib.StoreOp{Op: "UpdateNodePeers", ID: node, Peers: ps, Block: uint64(100 + i)})
		default:
			ops = append(ops, vlib.StoreOp{Op: "CheckAndSaveNonce", ID: vlib.Pick(r, "n1", "A"), NonceOff: int64(i + 1)})
		}
	}
	return ops
}

// c13Dump renders the observable state of a store (without LastSeen).
func c13Dump(s store.Store, hw map[string]int64) string {
	var b strings.Builder
	for _, id := range c13Nodes {
		n, err := s.GetNode(store.NodeID(id))
		nf := vlib.ErrName(err)
		if err == nil {
			nf = "ok " + vlib.NodeFields(*n)
		}
		ns, perr := s.NodePeers(store.NodeID(id))
		fmt.Fprintf(&b, "node %s: %s | %s | %s\n", id, nf, vlib.CanonBalance(s.GetNodeBalance(store.NodeID(id))), vlib.CanonNodes("peers", ns, perr))
	}
	for _, a := range c13Accts {
		ids, err := s.GetAccountNodes(store.Account(a))
		fmt.Fprintf(&b, "acct %s: %s | %s\n", a, vlib.CanonBalance(s.GetAccountBalance(store.Account(a))), vlib.CanonNodeIDs("nodes", ids, err))
	}
	st, err := s.Stats()
	if err != nil {
		fmt.Fprintf(&b, "stats err %v\n", err)
	} else {
		fmt.Fprintf(&b, "stats hosts=%d clients=%d block=%d credit=%s trials=%d\n", st.NumTotalHosts, st.NumTotalClients, st.LatestBlockNumber, st.TotalCredit.String(), st.NumTrialBalances)
	}
	ids := []string{}
	for id := range hw {
		ids = append(ids, id)
	}
	sort.Strings(ids)
	for _, id := range ids {
		if hw[id] > 0 {
			fmt.Fprintf(&b, "nonce %s: replay-of-accepted=%s\n", id, vlib.ErrName(s.CheckAndSaveNonce(id, hw[id])))
		}
	}
	return b.String()
}

// c13ModelDump renders the model in the same format.
func c13ModelDump(m *vlib.RefStore) string {
	var b strings.Builder
	for _, id := range c13Nodes {
		nf, _ := m.GetNode(id)
		fmt.Fprintf(&b, "node %s: %s | %s | %s\n", id, nf, m.GetNodeBalance(id), m.NodePeers(id))
	}
	for _, a := range c13Accts {
		fmt.Fprintf(&b, "acct %s: %s | %s\n", a, m.GetAccountBalance(a), m.GetAccountNodes(a))
	}
	hosts, clients := 0, 0
	var blk uint64
	for _, n := range m.Nodes {
		if n.Node.IsHost {
			hosts++
		} else {
			clients++
		}
		if n.Node.BlockNumber > blk {
			blk = n.Node.BlockNumber
		}
	}
	fmt.Fprintf(&b, "stats hosts=%d clients=%d block=%d credit=%s trials=%d\n", hosts, clients, blk, m.TotalCredit().String(), len(m.Trial))
	ids := []string{}
	for id := range m.HW {
		ids = append(ids, id)
	}
	sort.Strings(ids)
	for _, id := range ids {
		if m.HW[id] > 0 {
			fmt.Fprintf(&b, "nonce %s: replay-of-accepted=ErrInvalidNonce\n", id)
		}
	}
	return b.String()
}

func c13ModelAfter(ops []vlib.StoreOp, k int, base time.Time) *vlib.RefStore {
	m := vlib.NewRefStore()
	for i := 0; i < k && i < len(ops); i++ {
		vlib.ModelStoreOp(m, ops[i], base, base, base)
	}
	return m
}

// c13WriterChild executes the op stream against a directory, logging start
// and acknowledgement of every operation.
func c13WriterChild() int {
	dir := os.Getenv("VERIF_C13_DIR")
	var idx, n int
	var baseNs int64
	fmt.Sscan(os.Getenv("VERIF_C13_IDX"), &idx)
	fmt.Sscan(os.Getenv("VERIF_C13_N"), &n)
	fmt.Sscan(os.Getenv("VERIF_C13_BASE"), &baseNs)
	logf, err := os.OpenFile(os.Getenv("VERIF_C13_LOG"), os.O_CREATE|os.O_WRONLY|os.O_APPEND, 0o644)
	if err != nil {
		return 4
	}
	s, err := badger.Open(vlib.BadgerDiskOptions(dir))
	if err != nil {
		fmt.Fprintf(logf, "openerr %v\n", err)
		return 5
	}
	fmt.Fprintf(logf, "open\n")
	base := time.Unix(0, baseNs)
	ops := c13GenOps(idx, n)
	for i, op := range ops {
		fmt.Fprintf(logf, "s %d\n", i)
		vlib.ExecStoreOp(s, op, base)
		fmt.Fprintf(logf, "a %d\n", i)
	}
	fmt.Fprintf(logf, "done\n")
	if os.Getenv("VERIF_C13_CLOSE") == "1" {
		s.Close()
		fmt.Fprintf(logf, "closed\n")
		return 0
	}
	// wait to be killed
	time.Sleep(30 * time.Second)
	return 0
}

func parseWriterLog(path string) (opened bool, acked int, inflight bool, done bool) {
	body, _ := os.ReadFile(path)
	acked = 0
	started := -1
	for _, ln := range strings.Split(string(body), "\n") {
		var i int
		switch {
		case ln == "open":
			opened = true
		case ln == "done":
			done = true
		case strings.HasPrefix(ln, "s "):
			if _, err := fmt.Sscanf(ln, "s %d", &i); err == nil {
				started = i
			}
		case strings.HasPrefix(ln, "a "):
			if _, err := fmt.Sscanf(ln, "a %d", &i); err == nil {
				acked = i + 1
			}
		}
	}
	inflight = started >= acked
	return
}

// c13Verify reopens dir and compares with the model after `acked` (or acked+1) operations.
func c13Verify(ev *vlib.Evidence, label string, dir string, ops []vlib.StoreOp, acked int, inflight bool, base time.Time, detail map[string]interface{}) {
	var s store.Store
	var err error
	func() {
		defer func() {
			if p := recover(); p != nil {
				err = fmt.Errorf("panic while reopening: %v", p)
			}
		}()
		s, err = badger.Open(vlib.BadgerDiskOptions(dir))
	}()
	if err != nil {
		detail["err"] = err.Error()
		ev.Violate(label+":cannot-reopen", detail)
		return
	}
	defer s.Close()
	m0 := c13ModelAfter(ops, acked, base)
	want0 := c13ModelDump(m0)
	got := c13Dump(s, m0.HW)
	if got == want0 {
		return
	}
	if inflight && acked < len(ops) {
		m1 := c13ModelAfter(ops, acked+1, base)
		// re-dump with the richer nonce map (probing is idempotent for remembered marks)
		got1 := c13Dump(s, m1.HW)
		if got1 == c13ModelDump(m1) {
			ev.Count("inflight-operation-found-applied", 1)
			return
		}
		detail["in_flight_op"] = ops[acked].String()
	}
	detail["acknowledged_ops"] = acked
	detail["state_after_restart"] = got
	detail["model_after_acknowledged"] = want0
	detail["diff"] = diffLines(want0, got)
	last := []string{}
	for i := acked - 3; i < acked+1 && i < len(ops); i++ {
		if i >= 0 {
			last = append(last, fmt.Sprintf("%d:%s", i, ops[i].String()))
		}
	}
	detail["last_ops"] = last
	ev.Violate(label+":state-differs-after-restart", detail)
}

// c13KillCycle: SIGKILL after a PRNG-chosen number of acknowledgements.
func c13KillCycle(ev *vlib.Evidence, idx int, strace bool, when int) {
	r := vlib.Rand("C13-kill", idx)
	dir, _ := os.MkdirTemp("", "verif-c13-")
	defer os.RemoveAll(dir)
	dbdir := filepath.Join(dir, "db")
	os.MkdirAll(dbdir, 0o755)
	logp := filepath.Join(dir, "writer.log")
	n := 30
	base := time.Now()
	killAfter := r.Intn(n + 1)
	env := append(os.Environ(), "VERIF_CHILD=c13writer", "VERIF_C13_DIR="+dbdir, fmt.Sprintf("VERIF_C13_IDX=%d", idx), fmt.Sprintf("VERIF_C13_N=%d", n), fmt.Sprintf("VERIF_C13_BASE=%d", base.UnixNano()), "VERIF_C13_LOG="+logp, "GORACE=halt_on_error=0")
	var cmd *exec.Cmd
	if strace {
		env = append(env, "GOMAXPROCS=1")
		cmd = exec.Command("strace", "-f", "-o", "/dev/null", "-P", filepath.Join(dbdir, "000000.vlog"), "-e", "trace=write", "-e", fmt.Sprintf("inject=write:signal=SIGKILL:when=%d", when), os.Args[0])
	} else {
		cmd = exec.Command(os.Args[0])
	}
	cmd.Env = env
	out, _ := os.Create(filepath.Join(dir, "writer.out"))
	cmd.Stdout, cmd.Stderr = out, out
	if err := cmd.Start(); err != nil {
		ev.Inconclusive("writer-start")
		return
	}
	exited := make(chan struct{})
	go func() { cmd.Wait(); close(exited) }()
	if !strace {
		deadline := time.Now().Add(60 * time.Second)
	poll:
		for time.Now().Before(deadline) {
			select {
			case <-exited:
				break poll
			default:
			}
			opened, acked, _, done := parseWriterLog(logp)
			if opened && (acked >= killAfter || done) {
				time.Sleep(time.Duration(r.Intn(800)) * time.Microsecond)
				break
			}
			time.Sleep(200 * time.Microsecond)
		}
		cmd.Process.Signal(syscall.SIGKILL)
	}
	select {
	case <-exited:
	case <-time.After(90 * time.Second):
		cmd.Process.Kill()
		<-exited
		if strace {
			// the injected write number was never reached: the script completed
		}
	}
	out.Close()
	opened, acked, inflight, _ := parseWriterLog(logp)
	label := "kill"
	if strace {
		label = "kill-at-vlog-write"
	}
	if !opened {
		// killed inside Open of a brand-new directory: nothing was acknowledged (outside the statement)
		ev.Count(label+"-before-open-returned", 1)
		return
	}
	ops := c13GenOps(idx, n)
	detail := map[string]interface{}{"index": idx, "killed_after_acks": acked, "in_flight": inflight}
	if strace {
		detail["vlog_write_number"] = when
	}
	c13Verify(ev, label, dbdir, ops, acked, inflight, base, detail)
	ev.Case(fmt.Sprintf("%s idx=%d acked=%d inflight=%v when=%d", label, idx, acked, inflight, when), acked > 0)
	ev.Count(label+"-cycles", 1)
	ev.Count(fmt.Sprintf("%s-points:acked=%02d", label, acked), 1)
}

// c13ReopenHistory: close/reopen after every operation of a model-checked history.
func c13ReopenHistory(ev *vlib.Evidence, idx int) {
	r := vlib.Rand("C13-reopen", idx)
	dir, _ := os.MkdirTemp("", "verif-c13r-")
	defer os.RemoveAll(dir)
	alpha := vlib.DefaultAlphabet()
	if idx%2 == 1 {
		alpha = vlib.RealisticAlphabet() // production-style ids (they end up in the on-disk keys)
	}
	alpha.Ages = []int{0, 60} // reopen takes time: stay well inside the window
	ops := make([]vlib.StoreOp, 8+r.Intn(25))
	for i := range ops {
		ops[i] = vlib.GenStoreOp(r, alpha)
		if ops[i].Op == "CheckAndSaveNonce" && ops[i].NonceOff < int64(-10*time.Minute) {
			ops[i].NonceOff = int64(i)
		}
	}
	s, err := badger.Open(vlib.BadgerDiskOptions(dir))
	if err != nil {
		ev.Violate("reopen:cannot-open", map[string]interface{}{"err": err.Error()})
		return
	}
	cur := store.Store(s)
	reopens := 0
	every := 1 + r.Intn(3)
	steps, nontrivial, conclusive := runStoreHistory(ev, "C13", "C13-reopen", idx, ops, []string{"badger"}, []store.Store{cur}, func(step, which int) store.Store {
		if step == 0 || step%every != 0 {
			return nil
		}
		if err := cur.Close(); err != nil {
			ev.Violate("reopen:close-failed", map[string]interface{}{"err": err.Error()})
		}
		ns, err := badger.Open(vlib.BadgerDiskOptions(dir))
		if err != nil {
			ev.Violate("reopen:cannot-reopen", map[string]interface{}{"err": err.Error(), "step": step})
			return nil
		}
		reopens++
		cur = ns
		return ns
	})
	cur.Close()
	if !conclusive {
		ev.Inconclusive("time-class")
		return
	}
	desc := ""
	for _, o := range ops {
		desc += o.String() + ";"
	}
	ev.Case("reopen "+desc, nontrivial && reopens > 0)
	ev.Count("close-reopen-cycles", int64(reopens))
	if idx == 0 {
		ev.Sample(map[string]interface{}{"layer": "close/reopen", "reopen_every": every, "steps": steps})
	}
}

// c13Readers: concurrent readers must always see the same ledger total while
// link operations migrate trial balances.
func c13Readers(ev *vlib.Evidence, idx int) {
	r := vlib.Rand("C13-readers", idx)
	s, cleanup, err := vlib.OpenStore(vlib.Pick(r, vlib.DriverBadgerMem, vlib.DriverBadgerDisk, vlib.DriverBadgerMem))
	if err != nil {
		panic(err)
	}
	defer cleanup()
	nn := 6 + r.Intn(10)
	total := new(big.Int)
	nodes := []string{}
	for i := 0; i < nn; i++ {
		id := fmt.Sprintf("r%d", i)
		nodes = append(nodes, id)
		s.SetNode(store.Node{ID: store.NodeID(id), LastSeen: time.Now()})
		amt := big.NewInt(int64(1 + r.Intn(1000000)))
		s.AddNodeBalance(store.NodeID(id), amt)
		total.Add(total, amt)
	}
	var stop int32
	var observations, bad int64
	var firstBad atomic.Value
	var wg sync.WaitGroup
	// a node's own credit is visible at every moment, on its trial balance or inside its wallet
	own := map[string]*big.Int{}
	for _, id := range nodes {
		b, _ := s.GetNodeBalance(store.NodeID(id))
		own[id] = new(big.Int).Set(&b.Credit)
	}
	var balReads, balBad int64
	var firstBalBad atomic.Value
	for g := 0; g < 3; g++ {
		wg.Add(1)
		go func(g int) {
			defer wg.Done()
			for i := g; atomic.LoadInt32(&stop) == 0; i++ {
				id := nodes[i%len(nodes)]
				b, err := s.GetNodeBalance(store.NodeID(id))
				if err != nil {
					continue
				}
				atomic.AddInt64(&balReads, 1)
				if b.Credit.Cmp(own[id]) < 0 {
					if atomic.AddInt64(&balBad, 1) == 1 {
						firstBalBad.Store(fmt.Sprintf("node %s: read account=%q credit=%s, its own credit is %s", id, b.Account, b.Credit.String(), own[id].String()))
					}
				}
			}
		}(g)
	}
	for g := 0; g < 4; g++ {
		wg.Add(1)
		go func() {
			defer wg.Done()
			for atomic.LoadInt32(&stop) == 0 {
				st, err := s.Stats()
				if err != nil {
					continue
				}
				atomic.AddInt64(&observations, 1)
				if st.TotalCredit.Cmp(total) != 0 {
					if atomic.AddInt64(&bad, 1) == 1 {
						firstBad.Store(st.TotalCredit.String())
					}
				}
			}
		}()
	}
	var ww sync.WaitGroup
	for g := 0; g < 3; g++ {
		ww.Add(1)
		seed := r.Int63()
		go func(g int, seed int64) {
			defer ww.Done()
			rr := vlib.Rand(fmt.Sprintf("C13-linker-%d", seed), g)
			for k := 0; k < 40; k++ {
				// every node always joins the same wallet: moving to another wallet later
				// legitimately leaves its earlier credit behind, which the readers' invariant excludes
				ni := rr.Intn(len(nodes))
				s.AddAccountNode(store.Account(fmt.Sprintf("W%d", ni%3)), store.NodeID(nodes[ni]))
			}
		}(g, seed)
	}
	ww.Wait()
	atomic.StoreInt32(&stop, 1)
	wg.Wait()
	ev.Case(fmt.Sprintf("readers idx=%d nodes=%d", idx, nn), observations > 10)
	ev.Count("reader-observations", observations)
	ev.Count("reader-balance-observations", balReads)
	if balBad > 0 {
		ev.Violate("readers:node-credit-vanished-during-link", map[string]interface{}{"first": firstBalBad.Load(), "bad_reads": balBad, "reads": balReads})
	}
	if bad > 0 {
		ev.Violate("readers:ledger-total-changed-during-link", map[string]interface{}{"expected": total.String(), "first_bad_total": firstBad.Load(), "bad_observations": bad, "observations": observations})
	}
	st, _ := s.Stats()
	if st.TotalCredit.Cmp(total) != 0 {
		ev.Violate("readers:ledger-total-after-links", map[string]interface{}{"expected": total.String(), "got": st.TotalCredit.String()})
	}
}

// c13ContendedAcks: many writers hammer the same keys of an on-disk store;
// every acknowledged add must be there after close and reopen.
func c13ContendedAcks(ev *vlib.Evidence, idx int) {
	r := vlib.Rand("C13-contended", idx)
	dir, _ := os.MkdirTemp("", "verif-c13c-")
	defer os.RemoveAll(dir)
	s, err := badger.Open(vlib.BadgerDiskOptions(dir))
	if err != nil {
		ev.Violate("contended:cannot-open", map[string]interface{}{"err": err.Error()})
		return
	}
	node := store.NodeID("hot")
	s.SetNode(store.Node{ID: node, LastSeen: time.Now()})
	writers := 8 + r.Intn(17)
	per := 10 + r.Intn(20)
	var mu sync.Mutex
	wantNode, wantAcct := new(big.Int), new(big.Int)
	acked := 0
	var wg sync.WaitGroup
	for g := 0; g < writers; g++ {
		wg.Add(1)
		go func(g int) {
			defer wg.Done()
			for k := 0; k < per; k++ {
				d := big.NewInt(int64(1 + g*1000 + k))
				if (g+k)%2 == 0 {
					if s.AddNodeBalance(node, d) == nil {
						mu.Lock()
						wantNode.Add(wantNode, d)
						acked++
						mu.Unlock()
					}
				} else {
					if s.AddAccountBalance("HOT", d) == nil {
						mu.Lock()
						wantAcct.Add(wantAcct, d)
						acked++
						mu.Unlock()
					}
				}
			}
		}(g)
	}
	// Meanwhile a node re-registers (version after version) while its
	// keep-alives keep coming: what is on disk afterwards is the last
	// acknowledged registration, whatever the keep-alives raced with.
	reg := store.NodeID("reg")
	versions := 15 + r.Intn(25)
	regNode := func(v int) store.Node {
		n := store.Node{ID: reg, Kind: fmt.Sprintf("kind-v%d", v), URI: fmt.Sprintf("enode://reg@192.0.2.7:%d", 30000+v), IsHost: v%2 == 0, LastSeen: time.Now()}
		vlib.SetPayout(&n, fmt.Sprintf("payout-v%d", v))
		return n
	}
	s.SetNode(regNode(0))
	var stop int32
	var kwg sync.WaitGroup
	keepalives := int64(0)
	for g := 0; g < 4; g++ {
		kwg.Add(1)
		go func(g int) {
			defer kwg.Done()
			extra := 0
			for k := 0; extra < 3; k++ {
				if atomic.LoadInt32(&stop) == 1 {
					extra++
				}
				if _, err := s.UpdateNodePeers(reg, nil, uint64(k)); err == nil {
					atomic.AddInt64(&keepalives, 1)
				}
			}
		}(g)
	}
	lastAcked := 0
	for v := 1; v <= versions; v++ {
		if s.SetNode(regNode(v)) == nil {
			lastAcked = v
		}
	}
	atomic.StoreInt32(&stop, 1)
	kwg.Wait()
	wg.Wait()
	s.Close()
	s2, err := badger.Open(vlib.BadgerDiskOptions(dir))
	if err != nil {
		ev.Violate("contended:cannot-reopen", map[string]interface{}{"err": err.Error()})
		return
	}
	defer s2.Close()
	ev.Count("contended-keepalives-racing-registrations", atomic.LoadInt64(&keepalives))
	if got, err := s2.GetNode(reg); err != nil {
		ev.Violate("contended:registered-node-missing-after-reopen", map[string]interface{}{"err": err.Error()})
	} else {
		want := regNode(lastAcked)
		if got.Kind != want.Kind || got.URI != want.URI || got.IsHost != want.IsHost || vlib.PayoutString(got) != vlib.PayoutString(&want) {
			ev.Violate("contended:last-acknowledged-registration-not-on-disk", map[string]interface{}{"last_acknowledged_version": lastAcked, "on_disk_kind": got.Kind, "on_disk_uri": got.URI, "on_disk_payout": vlib.PayoutString(got), "keepalives": atomic.LoadInt64(&keepalives)})
		}
	}
	nb, _ := s2.GetNodeBalance(node)
	ab, _ := s2.GetAccountBalance("HOT")
	ev.Case(fmt.Sprintf("contended writers=%d per=%d idx=%d", writers, per, idx), acked > writers)
	ev.Count("contended-acknowledged-adds", int64(acked))
	if nb.Credit.Cmp(wantNode) != 0 || ab.Credit.Cmp(wantAcct) != 0 {
		ev.Violate("contended:acknowledged-add-missing-after-reopen", map[string]interface{}{"writers": writers, "acknowledged": acked, "node_credit": nb.Credit.String(), "sum_of_acknowledged_node_adds": wantNode.String(), "account_credit": ab.Credit.String(), "sum_of_acknowledged_account_adds": wantAcct.String()})
	}
}

func rawKeys(dir string) (map[string]string, error) {
	db, err := badgerdb.Open(vlib.BadgerDiskOptions(dir))
	if err != nil {
		return nil, err
	}
	defer db.Close()
	out := map[string]string{}
	err = db.View(func(txn *badgerdb.Txn) error {
		it := txn.NewIterator(badgerdb.DefaultIteratorOptions)
		defer it.Close()
		for it.Rewind(); it.Valid(); it.Next() {
			k := string(it.Item().KeyCopy(nil))
			v, err := it.Item().ValueCopy(nil)
			if err != nil {
				return err
			}
			out[k] = string(v)
		}
		return nil
	})
	return out, err
}

func bigInt(v int64) *big.Int { return big.NewInt(v) }

func gobInt(v int) []byte {
	var buf bytes.Buffer
	gob.NewEncoder(&buf).Encode(&v)
	return buf.Bytes()
}

// c13Migration: format-version matrix.
func c13Migration(ev *vlib.Evidence, idx int) {
	r := vlib.Rand("C13-migration", idx)
	for _, ver := range []int{0, 1, 2, 3} {
		dir, _ := os.MkdirTemp("", "verif-c13m-")
		func() {
			defer os.RemoveAll(dir)
			s, err := badger.Open(vlib.BadgerDiskOptions(dir))
			if err != nil {
				ev.Violate("migration:cannot-create", map[string]interface{}{"err": err.Error()})
				return
			}
			base := time.Now()
			for _, op := range c13GenOps(idx*7+ver, 25) {
				vlib.ExecStoreOp(s, op, base)
			}
			// some databases are large: many keys sort after the nonce table
			// (vip:peers:*, vip:trial:*), beyond one iterator prefetch batch
			if idx%2 == 1 {
				big := 120 + r.Intn(200)
				for i := 0; i < big; i++ {
					id := store.NodeID(vlib.NewIdentity("c13bulk", i).NodeID) // realistic 128-hex ids: same key length as the nonce keys
					s.SetNode(store.Node{ID: id, IsHost: i%2 == 0, LastSeen: base})
					s.AddNodeBalance(id, bigInt(int64(i+1)))
					if i%3 == 0 {
						s.UpdateNodePeers(id, []string{"n1", "n2", vlib.NewIdentity("c13bulk", (i+1)%100).NodeID}, uint64(i))
					}
				}
			}
			s.Close()
			// rewrite the version and plant nonce keys with the raw API
			db, err := badgerdb.Open(vlib.BadgerDiskOptions(dir))
			if err != nil {
				ev.Violate("migration:cannot-open-raw", map[string]interface{}{"err": err.Error()})
				return
			}
			nNonce := 1 + r.Intn(6)
			if idx%2 == 1 {
				nNonce = 3 + r.Intn(150)
			}
			db.Update(func(txn *badgerdb.Txn) error {
				if ver == 0 {
					txn.Delete([]byte("vip:version"))
				} else {
					txn.Set([]byte("vip:version"), gobInt(ver))
				}
				for i := 0; i < nNonce; i++ {
					id := vlib.NewIdentity("c13nonce", i).NodeID
					if i%2 == 1 {
						id = vlib.NewIdentity("c13nonce", i).Wallet
					}
					txn.Set([]byte("vip:nonce:"+id), gobInt(1000+i))
				}
				return nil
			})
			db.Close()
			before, err := rawKeys(dir)
			if err != nil {
				ev.Violate("migration:cannot-dump", map[string]interface{}{"err": err.Error()})
				return
			}
			var s2 store.Store
			if ver == 3 {
				// in a child: a refused Open keeps the directory lock until the process exits
				cmd := exec.Command(os.Args[0])
				cmd.Env = append(os.Environ(), "VERIF_CHILD=c13open", "VERIF_C13_DIR="+dir)
				outb, _ := cmd.CombinedOutput()
				if strings.Contains(string(outb), "OPEN-OK") {
					err = nil
				} else {
					err = fmt.Errorf("%s", strings.TrimSpace(string(outb)))
				}
			} else {
				s2, err = badger.Open(vlib.BadgerDiskOptions(dir))
			}
			desc := fmt.Sprintf("migration from-version=%d nonce-keys=%d idx=%d", ver, nNonce, idx)
			ev.Case(desc, true)
			ev.Count(fmt.Sprintf("migrations:from-v%d", ver), 1)
			if ver == 3 {
				if err == nil {
					ev.Violate("migration:newer-format-not-refused", map[string]interface{}{"case": desc})
					return
				}
				after, rerr := rawKeys(dir)
				if rerr != nil {
					ev.Inconclusive("raw-dump")
					return
				}
				if d := diffMaps(before, after, nil); len(d) > 0 {
					ev.Violate("migration:refused-database-was-modified", map[string]interface{}{"case": desc, "changed": d})
				}
				return
			}
			if err != nil {
				ev.Violate("migration:open-failed", map[string]interface{}{"case": desc, "err": err.Error()})
				return
			}
			s2.Close()
			after, _ := rawKeys(dir)
			ignore := func(k string) bool { return k == "vip:version" || (ver < 2 && strings.HasPrefix(k, "vip:nonce:")) }
			if d := diffMaps(before, after, ignore); len(d) > 0 {
				ev.Violate("migration:data-keys-changed", map[string]interface{}{"case": desc, "changed": d})
			}
			if after["vip:version"] != string(gobInt(2)) {
				ev.Violate("migration:version-not-current", map[string]interface{}{"case": desc})
			}
			if ver < 2 {
				left := []string{}
				for k := range after {
					if strings.HasPrefix(k, "vip:nonce:") {
						left = append(left, vlib.Short(k[10:]))
					}
				}
				sort.Strings(left)
				if len(left) > 0 {
					ev.Violate("migration:old-nonce-keys-survived", map[string]interface{}{"case": desc, "planted": nNonce, "left": left})
				}
			}
			// reopening a current database changes nothing
			s3, err := badger.Open(vlib.BadgerDiskOptions(dir))
			if err != nil {
				ev.Violate("migration:reopen-current-failed", map[string]interface{}{"case": desc, "err": err.Error()})
				return
			}
			s3.Close()
			again, _ := rawKeys(dir)
			if d := diffMaps(after, again, nil); len(d) > 0 {
				ev.Violate("migration:reopening-current-database-changed-keys", map[string]interface{}{"case": desc, "changed": d})
			}
		}()
	}
}

func diffMaps(a, b map[string]string, ignore func(string) bool) []string {
	out := []string{}
	for k, v := range a {
		if ignore != nil && ignore(k) {
			continue
		}
		if bv, ok := b[k]; !ok {
			out = append(out, "removed "+vlib.Short(k)+"…")
		} else if bv != v {
			out = append(out, "changed "+k)
		}
	}
	for k := range b {
		if ignore != nil && ignore(k) {
			continue
		}
		if _, ok := a[k]; !ok {
			out = append(out, "added "+k)
		}
	}
	sort.Strings(out)
	return out
}

func TestC13(t *testing.T) {
	ev := vlib.NewEvidence("C13", "fault_enumeration",
		"(1) model-checked store histories on an on-disk badger store opened exactly like pool.go (DefaultOptions(dir)) with Close/Open inserted every 1-3 operations; (2) kill cycles: a child process runs a seeded 30-operation stream (nodes, balances, links, peers, nonces) logging start/ack of every operation and is SIGKILLed after a PRNG-chosen number of acknowledgements plus a sub-millisecond delay; the directory is reopened and the full observable state (nodes, balances, links, peers, stats, replay of accepted nonces) must equal the model after the acknowledged prefix, or prefix+1 when an operation was in flight; thorough: kill points enumerated at value-log write boundaries with strace fault injection; (3) readers polling Stats and node balances while link operations migrate trial balances must always see the same ledger total and never less than a node's own credit; (3b) 8-24 writers hammering one node and one wallet balance of an on-disk store: every acknowledged add is present after close/reopen, and a node re-registering while its keep-alives race has its last acknowledged registration on disk; (3c) the built pool binary with --store=persist, fed signed registrations, wallet links and keep-alives over HTTP, SIGKILLed or interrupted and restarted on the same data directory: links and registrations are still there and the byte-identical copy of every accepted request is refused; (3d) committed golden data directories (formats 2, 1, 0; production-style ids) written by an earlier tree are opened twice by the tree under check and must read back exactly as recorded; (4) format matrix: databases rewritten to version 0/1/current/current+1 with planted nonce keys must migrate to current with every data key byte-identical, refuse and not touch a newer format, and not change on reopen; non-trivial = kill after >=1 acknowledged operation / history with >=1 reopen; distinct = case descriptors")
	ev.Assume("only process kill can be produced here, not power loss; kills are armed after Open returned")
	for i := 0; i < vlib.Scale(25, 400); i++ {
		c13ReopenHistory(ev, i)
	}
	parallelCases(vlib.Scale(16, 400), 8, func(i int) { c13KillCycle(ev, i, false, 0) })
	if vlib.Thorough() {
		if _, err := exec.LookPath("strace"); err == nil {
			parallelCases(70, 8, func(i int) { c13KillCycle(ev, 100000+i%3, true, 2+i) })
		}
	}
	parallelCases(vlib.Scale(8, 100), 4, func(i int) { c13Readers(ev, i) })
	parallelCases(vlib.Scale(6, 100), 3, func(i int) { c13ContendedAcks(ev, i) })
	parallelCases(vlib.Scale(6, 80), 3, func(i int) { c13Binary(ev, i) })
	c13Fixtures(ev)
	for i := 0; i < vlib.Scale(4, 40); i++ {
		c13Migration(ev, i)
	}
	finish(t, ev)
}
