package checks

import (
	"fmt"
	"io"
	"net/http"
	"os"
	"path/filepath"
	"strings"
	"time"

	"github.com/vipnode/vipnode/v2/ethnode"
	"github.com/vipnode/vipnode/v2/pool"
	"verifharness/vlib"
)

// c15CutOffWithDepartedHosts: perfectly valid traffic that takes the pool
// through its rarely used fan-out paths. A pool with a minimum balance cuts a
// client off at a keep-alive whose report still lists hosts that have closed
// their connection in the meantime (0..all of them), or hosts that never
// answer. Every request must receive a reply carrying its own id, and other
// connections keep being served meanwhile.
func c15CutOffWithDepartedHosts(ev *vlib.Evidence, bin string, idx int) {
	r := vlib.Rand("C15-cutoff-departed", idx)
	dir, _ := os.MkdirTemp("", "verif-c15c-")
	defer os.RemoveAll(dir)
	addr := fmt.Sprintf("127.0.0.1:%d", vlib.FreePort())
	p, err := vlib.StartProc(filepath.Join(dir, "pool.log"), []string{"HOME=" + dir}, bin, "pool", "--store=memory", "--bind", addr, "--contract.min-balance=0")
	if err != nil || !p.WaitListening(addr, 30*time.Second) {
		if p != nil {
			p.Kill(false)
		}
		ev.Inconclusive("pool-start")
		return
	}
	defer p.Kill(false)
	nh := 1 + r.Intn(4)
	depart := r.Intn(nh + 1) // how many hosts leave before the cut-off
	hosts := []*binSession{}
	infos := []ethnode.PeerInfo{}
	for i := 0; i < nh; i++ {
		id := vlib.NewIdentity("c15cutoff-host", idx*5+i)
		s, err := newBinSession(addr, id)
		if err != nil {
			ev.Inconclusive("ws-dial")
			return
		}
		defer s.c.Close()
		if _, e, _, _, ok := s.call("vipnode_connect", vlib.ConnectReq(true, "geth", "enode://"+id.NodeID+"@203.0.113.9:30303", "")); !ok || e != "" {
			ev.Inconclusive("host-connect")
			return
		}
		hosts = append(hosts, s)
		infos = append(infos, ethnode.PeerInfo{ID: id.NodeID})
	}
	client := vlib.NewIdentity("c15cutoff-client", idx)
	cs, err := newBinSession(addr, client)
	if err != nil {
		ev.Inconclusive("ws-dial")
		return
	}
	defer cs.c.Close()
	if _, e, _, _, ok := cs.call("vipnode_connect", vlib.ConnectReq(false, "geth", "", "")); !ok || e != "" {
		ev.Inconclusive("client-connect")
		return
	}
	for i := 0; i < depart; i++ {
		hosts[i].c.Close()
	}
	time.Sleep(300 * time.Millisecond) // the pool notices the closed connections
	type outcome struct {
		errMsg string
		ok     bool
	}
	done := make(chan outcome, 1)
	go func() {
		_, e, _, _, ok := cs.call("vipnode_update", pool.UpdateRequest{PeerInfo: infos, BlockNumber: 3})
		done <- outcome{e, ok}
	}()
	desc := fmt.Sprintf("cut-off hosts=%d departed=%d idx=%d", nh, depart, idx)
	ev.Case(desc, true)
	ev.Count("cut-off-with-departed-hosts", 1)
	canaries := 0
	deadline := time.Now().Add(40 * time.Second)
	for {
		select {
		case o := <-done:
			// with a minimum of 0 and a positive charge the client is cut off: the reply is that error
			if !o.ok {
				ev.Violate("request-without-reply:cut-off-keepalive", map[string]interface{}{"case": desc, "note": o.errMsg, "canaries_answered_meanwhile": canaries})
			} else if o.errMsg != "" && !strings.Contains(o.errMsg, "low balance") {
				ev.Count("cut-off-keepalive-other-error", 1)
			}
			return
		case <-time.After(500 * time.Millisecond):
		}
		// another connection is still served?
		resp, err := (&http.Client{Timeout: 10 * time.Second}).Post("http://"+addr+"/", "application/json", strings.NewReader(`{"jsonrpc":"2.0","id":5,"method":"vipnode_ping","params":[]}`))
		if err == nil {
			io.Copy(io.Discard, resp.Body)
			resp.Body.Close()
			canaries++
		}
		if ex, _ := p.Exited(); ex {
			sig, excerpt := vlib.CrashSignature(filepath.Join(dir, "pool.log"))
			ev.Violate("pool-process-died:"+sig, map[string]interface{}{"case": desc, "log": truncStr(excerpt, 600)})
			return
		}
		if time.Now().After(deadline) {
			if canaries < 10 {
				ev.Inconclusive("slow-machine") // nothing got through in 40 s: no verdict
				return
			}
			ev.Violate("request-without-reply:cut-off-keepalive", map[string]interface{}{"case": desc, "note": "no reply after 40 s although the pool's own fan-out timeout is 5 s", "canaries_answered_meanwhile": canaries})
			return
		}
	}
}

// c15StatusAfterOddRegistrations: correctly signed registrations whose
// self-reported node description is odd (versions without the usual
// structure, unknown kinds and networks, odd payouts), and only then the
// first pool_status / health request (the status is cached for a minute, so
// it has to be the first one to see these hosts).
func c15StatusAfterOddRegistrations(ev *vlib.Evidence, bin string, idx int) {
	r := vlib.Rand("C15-status-odd", idx)
	dir, _ := os.MkdirTemp("", "verif-c15s-")
	defer os.RemoveAll(dir)
	addr := fmt.Sprintf("127.0.0.1:%d", vlib.FreePort())
	p, err := vlib.StartProc(filepath.Join(dir, "pool.log"), []string{"HOME=" + dir}, bin, "pool", "--store=memory", "--bind", addr)
	if err != nil || !p.WaitListening(addr, 30*time.Second) {
		if p != nil {
			p.Kill(false)
		}
		ev.Inconclusive("pool-start")
		return
	}
	defer p.Kill(false)
	versions := []string{"no-slash", "", "/", "a/", "/b", "Geth", "x/y/z/w/v", "\u0000", strings.Repeat("v", 5000), "Parity-Ethereum//v2", "名前/1"}
	for i := 0; i < 4; i++ {
		id := vlib.NewIdentity("c15status-host", idx*4+i)
		s, err := newBinSession(addr, id)
		if err != nil {
			ev.Inconclusive("ws-dial")
			return
		}
		defer s.c.Close()
		req := vlib.ConnectReq(true, "geth", "enode://"+id.NodeID+"@203.0.113.9:30303", vlib.Pick(r, "", "0xabc", "not-an-address"))
		req.NodeInfo.Version = versions[r.Intn(len(versions))]
		req.NodeInfo.Kind = ethnode.NodeKind(r.Intn(9) - 2)
		req.NodeInfo.Network = ethnode.NetworkID(vlib.Pick(r, 1, 0, -5, 61, 1337, 2147483647))
		req.NodeInfo.EthProtocol = vlib.Pick(r, "", "63", "x", "0x")
		req.VipnodeVersion = versions[r.Intn(len(versions))]
		if _, _, _, _, ok := s.call("vipnode_connect", req); !ok {
			if ex, _ := p.Exited(); ex {
				sig, excerpt := vlib.CrashSignature(filepath.Join(dir, "pool.log"))
				ev.Violate("pool-process-died:"+sig, map[string]interface{}{"after": "odd registration", "version": truncStr(req.NodeInfo.Version, 60), "log": truncStr(excerpt, 500)})
				return
			}
		}
	}
	ev.Case(fmt.Sprintf("status-after-odd-registrations idx=%d", idx), true)
	ev.Count("status-after-odd-registrations", 1)
	for _, how := range []string{"http-rpc", "health", "ws"} {
		var body string
		var err error
		switch how {
		case "http-rpc":
			var resp *http.Response
			resp, err = (&http.Client{Timeout: 20 * time.Second}).Post("http://"+addr+"/", "application/json", strings.NewReader(`{"jsonrpc":"2.0","id":3,"method":"pool_status","params":[]}`))
			if err == nil {
				b, _ := io.ReadAll(resp.Body)
				resp.Body.Close()
				body = string(b)
			}
		case "health":
			var resp *http.Response
			resp, err = (&http.Client{Timeout: 20 * time.Second}).Get("http://" + addr + "/health")
			if err == nil {
				b, _ := io.ReadAll(resp.Body)
				resp.Body.Close()
				body = `{"id":3,"result":` + string(b) + `}`
			}
		case "ws":
			c, derr := wsDial(addr)
			err = derr
			if derr == nil {
				c.WriteMessage(1, []byte(`{"jsonrpc":"2.0","id":3,"method":"pool_status","params":[]}`))
				c.SetReadDeadline(time.Now().Add(20 * time.Second))
				_, data, rerr := c.ReadMessage()
				err = rerr
				body = string(data)
				c.Close()
			}
		}
		if ex, _ := p.Exited(); ex {
			sig, excerpt := vlib.CrashSignature(filepath.Join(dir, "pool.log"))
			ev.Violate("pool-process-died:"+sig, map[string]interface{}{"after": "pool_status via " + how, "log": truncStr(excerpt, 500)})
			return
		}
		if err != nil || !strings.Contains(body, `"result"`) || !strings.Contains(body, "active_hosts") {
			ev.Violate("request-without-reply:pool_status:"+how, map[string]interface{}{"err": fmt.Sprint(err), "reply": truncStr(body, 300)})
			return
		}
	}
}

// c15SharedConnection: an agent that serves several nodes registers them all
// over one connection (valid, if unusual); a client's peer request must still
// be answered, and so must everything else afterwards.
func c15SharedConnection(ev *vlib.Evidence, bin string, idx int) {
	dir, _ := os.MkdirTemp("", "verif-c15h-")
	defer os.RemoveAll(dir)
	addr := fmt.Sprintf("127.0.0.1:%d", vlib.FreePort())
	p, err := vlib.StartProc(filepath.Join(dir, "pool.log"), []string{"HOME=" + dir}, bin, "pool", "--store=memory", "--bind", addr)
	if err != nil || !p.WaitListening(addr, 30*time.Second) {
		if p != nil {
			p.Kill(false)
		}
		ev.Inconclusive("pool-start")
		return
	}
	defer p.Kill(false)
	first := vlib.NewIdentity("c15shared-host", idx*4)
	s, err := newBinSession(addr, first)
	if err != nil {
		ev.Inconclusive("ws-dial")
		return
	}
	defer s.c.Close()
	nIDs := 2 + idx%3
	for i := 0; i < nIDs; i++ {
		id := vlib.NewIdentity("c15shared-host", idx*4+i)
		s.id = id // the same socket, the next identity
		if _, e, _, _, ok := s.call("vipnode_connect", vlib.ConnectReq(true, "geth", "enode://"+id.NodeID+"@203.0.113.9:30303", "")); !ok || e != "" {
			ev.Inconclusive("host-connect")
			return
		}
	}
	client := vlib.NewIdentity("c15shared-client", idx)
	cs, err := newBinSession(addr, client)
	if err != nil {
		ev.Inconclusive("ws-dial")
		return
	}
	defer cs.c.Close()
	if _, e, _, _, ok := cs.call("vipnode_connect", vlib.ConnectReq(false, "geth", "", "")); !ok || e != "" {
		ev.Inconclusive("client-connect")
		return
	}
	ev.Case(fmt.Sprintf("shared-connection identities=%d idx=%d", nIDs, idx), true)
	ev.Count("shared-connection-sessions", 1)
	for round := 0; round < 2; round++ {
		_, e, _, _, ok := cs.call("vipnode_peer", pool.PeerRequest{Num: nIDs + 2})
		if ex, _ := p.Exited(); ex {
			sig, excerpt := vlib.CrashSignature(filepath.Join(dir, "pool.log"))
			ev.Violate("pool-process-died:"+sig, map[string]interface{}{"after": "peer request with several hosts on one connection", "log": truncStr(excerpt, 500)})
			return
		}
		if !ok {
			ev.Violate("request-without-reply:peer-request-with-hosts-sharing-a-connection", map[string]interface{}{"identities_on_the_connection": nIDs, "round": round, "note": e})
			return
		}
	}
}
