package checks

import (
	"fmt"
	"os"
	"sort"
	"strings"
	"sync"
	"sync/atomic"
	"testing"
	"time"

	"github.com/anishathalye/porcupine"
	"github.com/vipnode/vipnode/v2/jsonrpc2"
	"github.com/vipnode/vipnode/v2/pool"
	"github.com/vipnode/vipnode/v2/pool/store"
	"github.com/vipnode/vipnode/v2/pool/store/badger"
	"verifharness/vlib"
)

type nonceIn struct {
	ID    string
	Nonce int64
}
type nonceOut struct {
	Accepted bool
	NonceErr bool // refused because of the nonce
}

// nonceModel: per identity high-water mark.
var nonceModel = porcupine.Model{
	Partition: func(h []porcupine.Operation) [][]porcupine.Operation {
		m := map[string][]porcupine.Operation{}
		keys := []string{}
		for _, op := range h {
			k := op.Input.(nonceIn).ID
			if _, ok := m[k]; !ok {
				keys = append(keys, k)
			}
			m[k] = append(m[k], op)
		}
		sort.Strings(keys)
		out := [][]porcupine.Operation{}
		for _, k := range keys {
			out = append(out, m[k])
		}
		return out
	},
	Init: func() interface{} { return int64(0) },
	Step: func(st, in, out interface{}) (bool, interface{}) {
		hw, i, o := st.(int64), in.(nonceIn), out.(nonceOut)
		if o.Accepted {
			return i.Nonce > hw, i.Nonce
		}
		if o.NonceErr {
			return i.Nonce <= hw, hw
		}
		return true, hw // refused for another reason: no effect
	},
	DescribeOperation: func(in, out interface{}) string {
		return fmt.Sprintf("submit(%s,%d)->%+v", vlib.Short(in.(nonceIn).ID), in.(nonceIn).Nonce, out.(nonceOut))
	},
}

func classifyNonce(err error) nonceOut {
	if err == nil {
		return nonceOut{Accepted: true}
	}
	msg := err.Error()
	if strings.Contains(msg, "failed to verify signature") {
		return nonceOut{NonceErr: strings.Contains(msg, "invalid nonce")}
	}
	return nonceOut{Accepted: true} // passed the verification step
}

// c05Sequential: real signed RPCs with nonces around a base, 3 identities.
func c05Sequential(ev *vlib.Evidence, driver string, idx int) {
	r := vlib.Rand("C05-seq-"+driver, idx)
	lw, err := authWorld(driver, idx)
	if err != nil {
		// A pool that refuses the reference-signed session set-up cannot be
		// exercised here at all; whether refusing it is right is C04's
		// question (valid-request-refused), not a verdict on nonces.
		ev.Inconclusive("session-setup-refused")
		return
	}
	defer lw.w.Close()
	w := lw.w
	ids := []*vlib.Identity{lw.clients[0], lw.clients[1], lw.wallets[0]}
	hw := map[string]int64{}
	for _, id := range ids[:2] {
		hw[id.NodeID] = w.LastNonce(id.NodeID)
	}
	base := time.Now().UnixNano() + int64(time.Minute)
	trace := []string{}
	accepted := 0
	for s := 0; s < 12+r.Intn(20); s++ {
		id := ids[r.Intn(3)]
		identity := id.NodeID
		method := "vipnode_update"
		var args []interface{} = []interface{}{pool.UpdateRequest{BlockNumber: uint64(s)}}
		var svc jsonrpc2.Service = w.Local
		if id == lw.wallets[0] {
			identity, method, args = id.Wallet, "pool_addNode", []interface{}{lw.clients[0].NodeID}
		}
		var nonce int64
		class := ""
		legacy := false
		switch r.Intn(11) {
		case 8:
			nonce, class = vlib.Pick(r, int64(-9223372036854775808), int64(-9000000000000000000), int64(-8000000000000000000), int64(0), int64(1), int64(-1)), "extreme"
		case 9, 10:
			// the deprecated keep-alive format: signature over {peers, block_number} only
			if method == "vipnode_update" {
				legacy = true
			}
			if r.Intn(2) == 0 {
				nonce, class = hw[identity], "legacy-equal"
			} else {
				nonce, class = base+int64(s*1000+r.Intn(1000)), "legacy-higher"
			}
		case 0:
			nonce, class = hw[identity], "equal"
		case 1:
			nonce, class = hw[identity]-1-int64(r.Intn(1000)), "lower"
		case 2:
			nonce, class = time.Now().Add(-16*time.Minute).UnixNano(), "too-old"
		case 3:
			nonce, class = time.Now().Add(-14*time.Minute).UnixNano()+int64(s), "old-but-fresh"
		default:
			nonce, class = base+int64(s*1000+r.Intn(1000)), "higher"
		}
		want := nonce > hw[identity] && nonce > time.Now().Add(-15*time.Minute).UnixNano()
		signArgs := args
		if legacy {
			req := args[0].(pool.UpdateRequest)
			signArgs = []interface{}{struct {
				Peers       []string `json:"peers"`
				BlockNumber uint64   `json:"block_number"`
			}{req.Peers, req.BlockNumber}}
		}
		out := guardedCall(svc, method, append([]interface{}{vlib.RefSign(id.Key, method, identity, nonce, signArgs...), identity, nonce}, args...)...)
		got := out.Accepted && out.Panic == ""
		trace = append(trace, fmt.Sprintf("%s %s nonce=%s(%d) hw=%d -> accepted=%v", id.Name, method, class, nonce, hw[identity], got))
		ev.Count("seq-submissions:"+class, 1)
		if got != want {
			key := "sequential:" + driver + ":accepted-" + class
			if want {
				key = "sequential:" + driver + ":refused-" + class
			}
			ev.Violate(key, map[string]interface{}{"trace": trace, "err": fmt.Sprint(out.Err), "panic": out.Panic})
			return
		}
		if got {
			hw[identity] = nonce
			accepted++
		}
	}
	ev.Case("seq "+driver+strings.Join(trace, ";"), accepted >= 2)
	if idx == 0 {
		ev.Sample(map[string]interface{}{"layer": "sequential", "driver": driver, "trace": trace})
	}
}

// c05Concurrent: goroutines race copies of signed requests (same nonce and a
// few distinct ones) through real endpoints on separate connections.
func c05Concurrent(ev *vlib.Evidence, driver string, idx int) {
	r := vlib.Rand("C05-conc-"+driver, idx)
	lw, err := authWorld(driver, idx)
	if err != nil {
		// A pool that refuses the reference-signed session set-up cannot be
		// exercised here at all; whether refusing it is right is C04's
		// question (valid-request-refused), not a verdict on nonces.
		ev.Inconclusive("session-setup-refused")
		return
	}
	defer lw.w.Close()
	w := lw.w
	k := 2 + r.Intn(15)
	nIdent := 1 + r.Intn(2)
	var clock int64
	var mu sync.Mutex
	history := []porcupine.Operation{}
	var wg sync.WaitGroup
	base := time.Now().UnixNano() + int64(time.Minute)
	nonces := []int64{base, base + 1, base + 2}[:1+r.Intn(3)]
	accepted := map[string]int{}
	start := make(chan struct{})
	for g := 0; g < k; g++ {
		id := lw.clients[g%nIdent]
		nonce := nonces[r.Intn(len(nonces))]
		var svc jsonrpc2.Service = w.Local
		if r.Intn(2) == 0 {
			svc = w.Dial(id, "192.0.2.60:1").AgentSide
		}
		args := []interface{}{pool.UpdateRequest{BlockNumber: 7}}
		sig := vlib.RefSign(id.Key, "vipnode_update", id.NodeID, nonce, args...)
		wg.Add(1)
		go func(g int, id *vlib.Identity, nonce int64) {
			defer wg.Done()
			<-start
			call := atomic.AddInt64(&clock, 1)
			var resp pool.UpdateResponse
			err := w.Raw(svc, "vipnode_update", &resp, sig, id.NodeID, nonce, args[0])
			ret := atomic.AddInt64(&clock, 1)
			out := classifyNonce(err)
			mu.Lock()
			history = append(history, porcupine.Operation{ClientId: g, Input: nonceIn{id.NodeID, nonce}, Call: call, Output: out, Return: ret})
			if out.Accepted {
				accepted[fmt.Sprintf("%s/%d", vlib.Short(id.NodeID), nonce)]++
			}
			mu.Unlock()
		}(g, id, nonce)
	}
	close(start)
	wg.Wait()
	desc := fmt.Sprintf("conc %s goroutines=%d identities=%d nonces=%d", driver, k, nIdent, len(nonces))
	ev.Count("concurrent-submissions", int64(k))
	overlaps := 0
	for i := range history {
		for j := i + 1; j < len(history); j++ {
			if history[i].Call <= history[j].Return && history[j].Call <= history[i].Return {
				overlaps++
			}
		}
	}
	ev.Count("overlapping-submission-pairs", int64(overlaps))
	for key, n := range accepted {
		if n > 1 {
			ev.Violate("concurrent:"+driver+":duplicate-honoured", map[string]interface{}{"case": desc, "request": key, "acceptances": n})
		}
	}
	res, _ := porcupine.CheckOperationsVerbose(nonceModel, history, 20*time.Second)
	switch res {
	case porcupine.Illegal:
		ops := []string{}
		for _, op := range history {
			ops = append(ops, fmt.Sprintf("[%d,%d] %s", op.Call, op.Return, nonceModel.DescribeOperation(op.Input, op.Output)))
		}
		ev.Violate("concurrent:"+driver+":not-linearizable", map[string]interface{}{"case": desc, "history": ops})
	case porcupine.Unknown:
		ev.Inconclusive("porcupine-timeout")
		return
	}
	ev.Case(desc+fmt.Sprint(accepted), overlaps > 0)
	if idx == 0 {
		ev.Sample(map[string]interface{}{"layer": "concurrent", "case": desc, "accepted_per_request": accepted, "overlapping_pairs": overlaps})
	}
}

// c05Reopen: replay across close/reopen of the persistent store.
func c05Reopen(ev *vlib.Evidence, idx int) {
	dir, err := os.MkdirTemp("", "verif-c05-")
	if err != nil {
		panic(err)
	}
	defer os.RemoveAll(dir)
	open := func() store.Store {
		s, err := badger.Open(vlib.BadgerDiskOptions(dir))
		if err != nil {
			panic(err)
		}
		return s
	}
	s := open()
	id := vlib.NewIdentity("c05reopen", idx)
	n := time.Now().UnixNano() + int64(idx)
	w, _ := vlib.NewWorld(vlib.WorldOptions{Store: s})
	req := pool.ConnectRequest{}
	sig := vlib.RefSign(id.Key, "vipnode_connect", id.NodeID, n, req)
	first := guardedCall(w.Local, "vipnode_connect", sig, id.NodeID, n, req)
	// a second, later request of the same identity is accepted before the restart as well
	n2 := n + 5
	sig2 := vlib.RefSign(id.Key, "vipnode_connect", id.NodeID, n2, req)
	second := guardedCall(w.Local, "vipnode_connect", sig2, id.NodeID, n2, req)
	s.Close()
	s = open()
	defer s.Close()
	w2, _ := vlib.NewWorld(vlib.WorldOptions{Store: s})
	replay := guardedCall(w2.Local, "vipnode_connect", sig, id.NodeID, n, req)
	// a refused replay is not the end of it: the same request, again and again
	for k := 0; k < 3 && !replay.Accepted; k++ {
		replay = guardedCall(w2.Local, "vipnode_connect", sig, id.NodeID, n, req)
	}
	// both captured requests are replayed, the older one first
	if second.Accepted && !replay.Accepted {
		replay = guardedCall(w2.Local, "vipnode_connect", sig2, id.NodeID, n2, req)
	}
	lower := guardedCall(w2.Local, "vipnode_connect", vlib.RefSign(id.Key, "vipnode_connect", id.NodeID, n-1, req), id.NodeID, n-1, req)
	higher := guardedCall(w2.Local, "vipnode_connect", vlib.RefSign(id.Key, "vipnode_connect", id.NodeID, n2+1, req), id.NodeID, n2+1, req)
	ev.Case(fmt.Sprintf("reopen %d", idx), true)
	ev.Count("reopen-cycles", 1)
	if !first.Accepted {
		// nothing was accepted, so nothing can be replayed (whether the refusal is right is C04's question)
		ev.Inconclusive("session-setup-refused")
		return
	}
	if replay.Accepted || lower.Accepted || !higher.Accepted {
		ev.Violate("reopen:replay-after-restart", map[string]interface{}{"first": first.Accepted, "replay_accepted": replay.Accepted, "lower_accepted": lower.Accepted, "higher_accepted": higher.Accepted, "errs": []string{fmt.Sprint(first.Err), fmt.Sprint(replay.Err), fmt.Sprint(lower.Err), fmt.Sprint(higher.Err)}})
	}
}

// c05Expiry: with the freshness window shortened (hook), a future-dated nonce
// must still be refused on replay after the stored mark's TTL would have
// lapsed, as long as the nonce itself is still inside the window.
func c05Expiry(ev *vlib.Evidence, idx int) {
	bs, err := badger.Open(badgerMemOpts())
	if err != nil {
		panic(err)
	}
	defer bs.Close()
	window := 2 * time.Second
	bs.VerifSetNonceExpire(window)
	// the nonce is dated `ahead` of now; it stays fresh until ahead+window. The
	// replay comes after max(window, ahead)+1.3 s: later than any TTL that
	// ignores part of that sum, earlier than the nonce going stale.
	ahead := []time.Duration{1500 * time.Millisecond, 3 * time.Second, 5 * time.Second}[idx%3]
	wait := window + 300*time.Millisecond // a mark kept for just the window is gone by then
	if ahead > window {
		wait = ahead + 1300*time.Millisecond // also later than "ahead + 1 s of rounding"
	}
	id := fmt.Sprintf("expiry-%d", idx)
	t0 := time.Now()
	n := t0.Add(ahead).UnixNano()
	first := bs.CheckAndSaveNonce(id, n)
	time.Sleep(wait)
	elapsed := time.Since(t0)
	if elapsed > ahead+window-500*time.Millisecond {
		ev.Inconclusive("expiry-timing")
		return
	}
	replay := bs.CheckAndSaveNonce(id, n)
	ev.Case(fmt.Sprintf("expiry ahead=%s idx=%d", ahead, idx), true)
	ev.Count("expiry-cases", 1)
	if first != nil || replay == nil {
		ev.Violate("expiry:mark-forgotten-while-nonce-still-fresh", map[string]interface{}{"first": fmt.Sprint(first), "replay": fmt.Sprint(replay), "window": window.String(), "nonce_ahead_of_now": ahead.String(), "replayed_after": elapsed.String()})
	}
}

// c05ManyIdentities: an accepted nonce that is minutes old (still fresh) must
// stay refused on replay however many other identities use the store meanwhile.
func c05ManyIdentities(ev *vlib.Evidence, driver string, idx int) {
	s, cleanup, err := vlib.OpenStore(driver)
	if err != nil {
		panic(err)
	}
	defer cleanup()
	r := vlib.Rand("C05-many-"+driver, idx)
	victims := map[string]int64{}
	for i := 0; i < 5; i++ {
		id := fmt.Sprintf("victim-%d", i)
		age := time.Duration(vlib.Pick(r, 3, 5, 9, 13)) * time.Minute
		n := time.Now().Add(-age).UnixNano()
		if err := s.CheckAndSaveNonce(id, n); err != nil {
			ev.Violate("many:"+driver+":fresh-old-nonce-refused", map[string]interface{}{"age": age.String(), "err": err.Error()})
			return
		}
		victims[id] = n
	}
	others := 1100 + r.Intn(1500)
	// the other identities' clocks are not the victims': some date their nonces minutes back,
	// some far ahead (accepted: there is no upper bound) - none of that is the victims' business
	skew := []time.Duration{0, 0, -10 * time.Minute, 20 * time.Minute, time.Hour, 24 * time.Hour, 1000 * time.Hour}
	for i := 0; i < others; i++ {
		sk := time.Duration(0)
		if idx%2 == 1 {
			sk = skew[r.Intn(len(skew))]
		}
		s.CheckAndSaveNonce(fmt.Sprintf("other-%d", i), time.Now().Add(sk).UnixNano())
	}
	ev.Case(fmt.Sprintf("many-identities %s others=%d idx=%d", driver, others, idx), true)
	ev.Count("many-identities-scenarios", 1)
	for id, n := range victims {
		if err := s.CheckAndSaveNonce(id, n); err == nil {
			ev.Violate("many:"+driver+":replay-accepted-after-other-identities-used-the-store", map[string]interface{}{"identity": id, "other_identities": others})
			return
		}
		if err := s.CheckAndSaveNonce(id, n-1); err == nil {
			ev.Violate("many:"+driver+":lower-nonce-accepted-after-other-identities-used-the-store", map[string]interface{}{"identity": id, "other_identities": others})
			return
		}
	}
}

// c05Respelled: a captured request replayed under another spelling of the
// same identity (hex case, 0x prefix) is not a new request.
func c05Respelled(ev *vlib.Evidence, driver string, idx int) {
	lw, err := authWorld(driver, idx)
	if err != nil {
		return // C04 reports refused reference-signed sessions
	}
	defer lw.w.Close()
	w := lw.w
	id := vlib.NewIdentity("c05respell", idx)
	req := vlib.ConnectReq(false, "geth", "", "")
	n := w.NextNonce(id.NodeID)
	sig := vlib.RefSign(id.Key, "vipnode_connect", id.NodeID, n, req)
	first := guardedCall(w.Local, "vipnode_connect", sig, id.NodeID, n, req)
	ev.Case(fmt.Sprintf("respelled %s %d", driver, idx), true)
	ev.Count("respelled-replays", 3)
	if !first.Accepted {
		ev.Violate("respelled:setup", map[string]interface{}{"err": fmt.Sprint(first.Err)})
		return
	}
	honoured := 1
	for _, spelling := range []string{strings.ToUpper(id.NodeID), "0x" + id.NodeID, "0X" + strings.ToUpper(id.NodeID)} {
		out := guardedCall(w.Local, "vipnode_connect", sig, spelling, n, req)
		if out.Accepted && out.Panic == "" {
			honoured++
		}
	}
	if honoured > 1 {
		ev.Violate("respelled:"+driver+":captured-request-honoured-again-under-another-spelling", map[string]interface{}{"times_honoured": honoured})
	}
}

func TestC05(t *testing.T) {
	ev := vlib.NewEvidence("C05", "exploration",
		"(1) sequential signed RPCs (vipnode_update, pool_addNode) for 3 identities with nonces equal/lower/higher than the identity's high-water mark, 14 min old (fresh) and 16 min old (stale), oracle = per-identity high-water model; (2) 2..16 goroutines race copies of the same signed request (and 1-3 distinct nonces, 1-2 identities) over Local and separate Remote connections, history recorded at the client boundary and checked with porcupine plus 'accepted copies <= 1'; (2b) replay of minutes-old accepted nonces after >1000 other identities used the store; a captured request replayed under other spellings of the identity; (3) replay across close/reopen of an on-disk badger store; (4) freshness window shortened by the verif hook: replay of a future-dated nonce after the mark's TTL; non-trivial: sequential >= 2 acceptances, concurrent >= 1 overlapping pair; distinct = distinct traces/configurations; (faults) first copy submitted while the nonce save fails, then two replays")
	for _, driver := range vlib.Drivers() {
		for i := 0; i < vlib.Scale(60, 1500); i++ {
			c05Sequential(ev, driver, i)
		}
		for i := 0; i < vlib.Scale(150, 4000); i++ {
			c05Concurrent(ev, driver, i)
		}
	}
	for i := 0; i < vlib.Scale(4, 40); i++ {
		c05Reopen(ev, i)
	}
	for _, driver := range vlib.Drivers() {
		for i := 0; i < vlib.Scale(2, 20); i++ {
			c05ManyIdentities(ev, driver, i)
		}
		for i := 0; i < vlib.Scale(10, 200); i++ {
			c05Respelled(ev, driver, i)
		}
		for i := 0; i < vlib.Scale(10, 200); i++ {
			c05NonceStoreFaults(ev, driver, i)
		}
	}
	var wg sync.WaitGroup
	for i := 0; i < vlib.Scale(6, 30); i++ {
		wg.Add(1)
		go func(i int) { defer wg.Done(); c05Expiry(ev, i) }(i)
	}
	wg.Wait()
	finish(t, ev)
}
