package checks

import (
	"context"
	"encoding/json"
	"fmt"
	"sort"
	"strings"
	"sync"
	"testing"
	"time"

	"github.com/vipnode/vipnode/v2/ethnode"
	"github.com/vipnode/vipnode/v2/pool"
	"github.com/vipnode/vipnode/v2/pool/store"
	"verifharness/vlib"
)

type c08Host struct {
	id        *vlib.Identity
	kind      string
	fresh     bool
	connected bool
	peered    bool
	beh       vlib.Behaviour
	behName   string
	conn      *vlib.Conn
	carrier   *c08Host // set when this host registered on another host's connection (one agent, several nodes)
}

// ackKey is the identity under which the fake agent's recorder logs the whitelist acknowledgement.
func (h *c08Host) ackKey() string {
	if h.carrier != nil {
		return h.carrier.id.NodeID
	}
	return h.id.NodeID
}

func parallelCases(n int, workers int, fn func(i int)) {
	var wg sync.WaitGroup
	ch := make(chan int)
	for w := 0; w < workers; w++ {
		wg.Add(1)
		go func() {
			defer wg.Done()
			for i := range ch {
				fn(i)
			}
		}()
	}
	for i := 0; i < n; i++ {
		ch <- i
	}
	close(ch)
	wg.Wait()
}

func c08Case(ev *vlib.Evidence, driver string, idx int, allowHang bool) {
	r := vlib.Rand("C08-"+driver, idx)
	maxHosts := vlib.Pick(r, 0, 0, 1, 2, 5)
	w, err := vlib.NewWorld(vlib.WorldOptions{Driver: driver, MaxHosts: maxHosts})
	if err != nil {
		panic(err)
	}
	defer w.Close()
	nh := r.Intn(9)
	uniform := r.Intn(3) == 0 // a population where every host is healthy: exercises the exact-count clause
	hosts := []*c08Host{}
	trace := []string{fmt.Sprintf("config driver=%s max=%d hosts=%d uniform=%v", driver, maxHosts, nh, uniform)}
	for i := 0; i < nh; i++ {
		h := &c08Host{id: vlib.NewIdentity("c08host", i), kind: vlib.Pick(r, "geth", "geth", "parity", ""), fresh: true, connected: true, beh: vlib.BehAck, behName: "ack"}
		if !uniform {
			h.fresh = r.Intn(5) != 0
			h.connected = r.Intn(6) != 0
			h.peered = r.Intn(6) == 0
			switch k := r.Intn(12); {
			case k == 0:
				h.beh, h.behName = vlib.BehError, "error"
			case k == 1:
				h.beh, h.behName = vlib.BehDelay, "delay"
			case k == 2 && allowHang:
				h.beh, h.behName = vlib.BehHang, "hang"
			}
		}
		if i > 0 && r.Intn(6) == 0 {
			// one agent serving several nodes: this host registers on the connection of an earlier one
			carrier := hosts[r.Intn(len(hosts))]
			for carrier.carrier != nil {
				carrier = carrier.carrier
			}
			var resp pool.ConnectResponse
			if err := w.Signed(carrier.conn.AgentSide, h.id, h.id.NodeID, "vipnode_connect", &resp, vlib.ConnectReq(true, h.kind, fmt.Sprintf("enode://%s@192.0.2.%d:30303", h.id.NodeID, i+1), "")); err != nil {
				ev.Violate("setup:connect-failed", map[string]interface{}{"err": err.Error()})
				return
			}
			h.carrier, h.conn = carrier, carrier.conn
			h.connected, h.beh, h.behName = carrier.connected, carrier.beh, carrier.behName+"(shared connection)"
			hosts = append(hosts, h)
			continue
		}
		c, err := w.ConnectHost(h.id, h.kind, fmt.Sprintf("192.0.2.%d:30303", i+1))
		if err != nil {
			ev.Violate("setup:connect-failed", map[string]interface{}{"err": err.Error()})
			return
		}
		h.conn = c
		c.Rec.SetBehaviour(h.beh, time.Duration(5+r.Intn(40))*time.Millisecond)
		hosts = append(hosts, h)
	}
	// requester: a light client or a host
	reqIsHost := r.Intn(4) == 0
	requester := vlib.NewIdentity("c08req", idx%5)
	reqKind := vlib.Pick(r, "geth", "parity", "")
	var rc *vlib.Conn
	if reqIsHost {
		rc, err = w.ConnectHost(requester, reqKind, "192.0.2.200:30303")
	} else {
		rc, err = w.ConnectClient(requester, reqKind, "192.0.2.200:30303")
	}
	if err != nil {
		ev.Violate("setup:connect-failed", map[string]interface{}{"err": err.Error()})
		return
	}
	// already-peered hosts: the requester reports them in a keep-alive
	infos := []ethnode.PeerInfo{}
	for _, h := range hosts {
		if h.peered {
			infos = append(infos, ethnode.PeerInfo{ID: h.id.NodeID})
		}
	}
	if len(infos) > 0 {
		// some already-peered hosts last checked in a while ago (still inside the window)
		for _, h := range hosts {
			if h.peered && h.fresh && r.Intn(2) == 0 {
				n, _ := w.RawStore.GetNode(store.NodeID(h.id.NodeID))
				nn := *n
				nn.LastSeen = time.Now().Add(-vlib.Pick(r, 70*time.Second, 90*time.Second, 105*time.Second))
				w.RawStore.SetNode(nn)
				trace = append(trace, fmt.Sprintf("host%s last seen %s ago when reported", h.id.Name[7:], time.Since(nn.LastSeen).Round(time.Second)))
			}
		}
		if _, err := w.Update(rc.AgentSide, requester, infos, 1); err != nil {
			ev.Violate("setup:update-failed", map[string]interface{}{"err": err.Error()})
			return
		}
		// the requester may reconnect before asking for more peers
		if r.Intn(2) == 0 {
			var resp pool.ConnectResponse
			if err := w.Signed(rc.AgentSide, requester, requester.NodeID, "vipnode_connect", &resp, vlib.ConnectReq(reqIsHost, reqKind, "", "")); err != nil {
				ev.Violate("setup:reconnect-failed", map[string]interface{}{"err": err.Error()})
				return
			}
			trace = append(trace, "requester reconnects")
		}
	}
	// staleness and disconnection after registration
	for _, h := range hosts {
		if !h.fresh {
			n, _ := w.RawStore.GetNode(store.NodeID(h.id.NodeID))
			nn := *n
			nn.LastSeen = time.Now().Add(-vlib.Pick(r, 130*time.Second, 180*time.Second, time.Hour))
			w.RawStore.SetNode(nn)
		}
		if h.fresh && !h.peered && r.Intn(4) == 0 {
			// still inside the activity window, though not by much
			n, _ := w.RawStore.GetNode(store.NodeID(h.id.NodeID))
			nn := *n
			nn.LastSeen = time.Now().Add(-vlib.Pick(r, 95*time.Second, 100*time.Second, 108*time.Second))
			w.RawStore.SetNode(nn)
			trace = append(trace, fmt.Sprintf("host%s last seen %s ago", h.id.Name[7:], time.Since(nn.LastSeen).Round(time.Second)))
		}
		if !h.connected && h.carrier == nil {
			h.conn.Close()
		}
		trace = append(trace, fmt.Sprintf("host%s kind=%q fresh=%v connected=%v peered=%v whitelist=%s", h.id.Name[7:], h.kind, h.fresh, h.connected, h.peered, h.behName))
	}
	// the request
	legacy := r.Intn(5) == 0
	kind := vlib.Pick(r, "", "", "geth", "parity", "geth", "parity", "besu", "unknown")
	supply := 0
	for _, h := range hosts {
		if h.fresh && (kind == "" || h.kind == kind) {
			supply++
		}
	}
	num := vlib.Pick(r, -5, -1, 0, 1, 2, 3, supply-1, supply, supply+3)
	requested := num
	method := "vipnode_peer"
	var arg interface{} = pool.PeerRequest{Num: num, Kind: kind}
	if legacy {
		method = "vipnode_client"
		if num < 0 {
			num = 0
		}
		arg = pool.ClientRequest{NumHosts: num, Kind: kind}
		requested = num
		if num == 0 {
			requested = 3 // documented default
		}
	}
	limit := requested
	if limit < 0 {
		limit = 0
	}
	if maxHosts > 0 && limit > maxHosts {
		limit = maxHosts
	}
	eligible := map[string]*c08Host{}
	allHealthy := true
	for _, h := range hosts {
		if !(h.fresh && (kind == "" || h.kind == kind)) {
			continue
		}
		if h.connected && !h.peered && h.id.NodeID != requester.NodeID {
			eligible[h.id.NodeID] = h
			if h.beh == vlib.BehError || h.beh == vlib.BehHang {
				allHealthy = false
			}
		} else {
			allHealthy = false
		}
	}
	start := w.Tick()
	t0 := time.Now()
	nonce := w.NextNonce(requester.NodeID)
	var out callOutcome
	if viaClientAPI := !legacy && num <= 0 && r.Intn(2) == 0; viaClientAPI {
		// the exported client API (what the agent uses) signs and sends the request itself
		func() {
			defer func() {
				if p := recover(); p != nil {
					out.Panic = fmt.Sprint(p)
				}
			}()
			ctx, cancel := context.WithTimeout(context.Background(), vlib.CallTimeout)
			defer cancel()
			resp, err := pool.Remote(w.Local, requester.Key).Peer(ctx, pool.PeerRequest{Num: num, Kind: kind})
			out.Err = err
			if err == nil {
				out.Raw, _ = json.Marshal(resp)
			}
			out.Accepted = err == nil || !strings.Contains(err.Error(), "failed to verify signature")
			out.Verify = !out.Accepted
		}()
		trace = append(trace, "sent through pool.Remote(...).Peer")
	} else {
		out = guardedCall(w.Local, method, vlib.RefSign(requester.Key, method, requester.NodeID, nonce, arg), requester.NodeID, nonce, arg)
	}
	replyStamp := w.Tick()
	took := time.Since(t0)
	trace = append(trace, fmt.Sprintf("%s by %s(host=%v kind=%q) num=%d kind=%q -> err=%v panic=%q took=%s", method, requester.Name, reqIsHost, reqKind, num, kind, out.Err, out.Panic, took.Round(time.Millisecond)))
	desc := strings.Join(trace, ";")
	detail := func() map[string]interface{} {
		return map[string]interface{}{"trace": trace, "index": idx, "driver": driver}
	}
	nontrivial := len(eligible) > 0 && limit > 0
	ev.Case(desc, nontrivial)
	ev.Count("requests:"+method, 1)
	if out.Panic != "" {
		key := "panic:" + method
		if num < 0 {
			key = "panic:negative-count"
		}
		d := detail()
		d["panic"] = out.Panic
		ev.Violate(key, d)
		return
	}
	if out.Verify {
		ev.Violate("request-refused-at-verification", detail())
		return
	}
	// decode the reply through a second call? No: guardedCall discards the result, so repeat decoding here.
	returned := []store.Node{}
	if out.Err == nil {
		returned = lastPeerResult(w, method, requester, arg)
	}
	_ = returned
	// events
	acks := map[string]int64{}
	ackCount := 0
	for _, e := range w.EventsSince(start) {
		if e.Method == "whitelist" && e.Arg == requester.NodeID && e.Acked && e.Stamp < replyStamp {
			if _, ok := acks[e.Host]; !ok {
				acks[e.Host] = e.Stamp
			}
			ackCount++
		}
	}
	ev.Count("whitelist-acks-observed", int64(ackCount))
	res := c08Result(out)
	ids := []string{}
	for _, n := range res {
		ids = append(ids, string(n.ID))
	}
	sort.Strings(ids)
	for _, n := range res {
		h, ok := eligible[string(n.ID)]
		if !ok {
			d := detail()
			d["returned"] = vlib.Short(string(n.ID))
			ev.Violate("returned-ineligible-host", d)
			return
		}
		if _, ok := acks[h.ackKey()]; !ok {
			d := detail()
			d["returned"] = h.id.Name
			ev.Violate("returned-host-without-ack", d)
			return
		}
	}
	if len(res) > limit {
		d := detail()
		d["returned"], d["limit"] = len(res), limit
		key := "more-hosts-than-requested"
		if maxHosts > 0 && len(res) > maxHosts {
			key = "more-hosts-than-maximum"
		}
		if requested <= 0 {
			key = "hosts-for-nonpositive-request"
		}
		ev.Violate(key, d)
		return
	}
	seen := map[string]bool{}
	for _, id := range ids {
		if seen[id] {
			ev.Violate("duplicate-host-in-reply", detail())
			return
		}
		seen[id] = true
	}
	if out.Err != nil && len(acks) > 0 && limit > 0 {
		d := detail()
		d["acks"] = len(acks)
		ev.Violate("error-although-a-host-acknowledged", d)
		return
	}
	if allHealthy && limit > 0 {
		want := limit
		if len(eligible) < want {
			want = len(eligible)
		}
		// every active host of the kind is eligible and acknowledges
		if len(res) != want && !(want == 0 && out.Err != nil) {
			d := detail()
			d["returned"], d["want"] = len(res), want
			ev.Violate("fewer-hosts-than-available", d)
			return
		}
		ev.Count("exact-count-cases", 1)
	}
	if idx < 2 {
		ev.Sample(map[string]interface{}{"driver": driver, "trace": trace, "returned": len(res), "eligible": len(eligible), "limit": limit})
	}
}

// c08Result decodes the hosts of a reply captured by guardedCallResult.
func c08Result(out callOutcome) []store.Node {
	if out.Err != nil || len(out.Raw) == 0 {
		return nil
	}
	var pr struct {
		Peers []store.Node `json:"peers"`
		Hosts []store.Node `json:"hosts"`
	}
	if err := json.Unmarshal(out.Raw, &pr); err != nil {
		return nil
	}
	return append(pr.Peers, pr.Hosts...)
}

func lastPeerResult(w *vlib.World, method string, requester *vlib.Identity, arg interface{}) []store.Node {
	return nil
}

func TestC08(t *testing.T) {
	ev := vlib.NewEvidence("C08", "exploration",
		"populations of 0..8 hosts (some registered on a shared connection: one agent, several nodes) with random kind, freshness (LastSeen injected 130 s..1 h old), connection state (closed => CloseRemote), already-peered flag and whitelist behaviour (ack, error, delayed ack, never answer); requester is a client or a host; signed vipnode_peer with Num in {-5,-1,0,1,2,3,supply-1,supply,supply+3} or legacy vipnode_client; MaxRequestHosts in {0,1,2,5}; oracle: every returned host is eligible and acknowledged vipnode_whitelist(requester) (logical stamp) before the reply, count <= min(requested,max), no hosts for <=0, error only if nothing acknowledged, exact count when every active host of the kind is eligible and acknowledges; non-trivial = at least one eligible host and a positive limit; distinct = distinct population+request descriptors; (faults) peer requests while the requester's peer list cannot be read")
	ev.Assume("never-answering hosts cost the pool's constant 5 s timeout; those cases are a fixed share run in parallel")
	for _, driver := range vlib.Drivers() {
		n := vlib.Scale(1500, 20000)
		parallelCases(n, 16, func(i int) { c08Case(ev, driver, i, i%25 == 0) })
	}
	for _, driver := range vlib.Drivers() {
		c08ManyHosts(ev, driver, 100)
		driver := driver
		parallelCases(vlib.Scale(60, 1500), 8, func(i int) { c08PeersReadFails(ev, driver, i) })
		parallelCases(vlib.Scale(60, 1500), 8, func(i int) { c08RepeatedRequests(ev, driver, i) })
	}
	finish(t, ev)
}
