package checks

import (
	"fmt"
	"math/rand"
	"sort"
	"strings"
	"sync"
	"testing"
	"time"

	"github.com/vipnode/vipnode/v2/ethnode"
	"github.com/vipnode/vipnode/v2/pool"
	"github.com/vipnode/vipnode/v2/pool/store"
	"verifharness/vlib"
)

var c11Ages = []int{0, 60, 110, 130, 180, 3600, -1}

func genC11Ops(r *rand.Rand) []vlib.StoreOp {
	peers := []string{"p1", "p2", "p3", "p4"}[:3+r.Intn(2)]
	all := append([]string{"o"}, peers...)
	ops := []vlib.StoreOp{}
	for _, id := range all {
		if r.Intn(6) != 0 { // sometimes a peer is never registered
			ops = append(ops, vlib.StoreOp{Op: "SetNode", ID: id, IsHost: r.Intn(2) == 0, NodeKind: "geth", AgeSec: c11Ages[r.Intn(len(c11Ages))]})
		}
	}
	n := 8 + r.Intn(30)
	for i := 0; i < n; i++ {
		switch k := r.Intn(10); {
		case k < 3:
			ops = append(ops, vlib.StoreOp{Op: "SetNode", ID: all[r.Intn(len(all))], IsHost: r.Intn(2) == 0, NodeKind: "geth", AgeSec: c11Ages[r.Intn(len(c11Ages))]})
		case k < 7:
			cnt := r.Intn(len(peers) + 2)
			ps := []string{}
			for j := 0; j < cnt; j++ {
				switch r.Intn(10) {
				case 0:
					ps = append(ps, "unknown-id")
				case 1:
					ps = append(ps, "o")
				default:
					ps = append(ps, peers[r.Intn(len(peers))])
				}
			}
			ops = append(ops, vlib.StoreOp{Op: "UpdateNodePeers", ID: "o", Peers: ps, Block: uint64(i)})
		case k < 8:
			// a peer checks in itself
			ops = append(ops, vlib.StoreOp{Op: "UpdateNodePeers", ID: peers[r.Intn(len(peers))], Peers: nil, Block: uint64(i)})
		default:
			ops = append(ops, vlib.StoreOp{Op: "NodePeers", ID: "o"})
		}
	}
	ops = append(ops, vlib.StoreOp{Op: "NodePeers", ID: "o"})
	return ops
}

func sortedCopy(in []string) []string {
	out := append([]string{}, in...)
	sort.Strings(out)
	return out
}

// c11Pool runs one pool-level history: signed vipnode_update calls of an
// observer, compared with the tracked-peer model.
func c11Pool(ev *vlib.Evidence, driver string, idx int) (nontrivial, conclusive bool, desc string) {
	r := vlib.Rand("C11-pool-"+driver, idx)
	w, err := vlib.NewWorld(vlib.WorldOptions{Driver: driver})
	if err != nil {
		panic(err)
	}
	defer w.Close()
	model := vlib.NewRefStore()
	start := time.Now()
	obs := vlib.NewIdentity("c11obs", idx%7)
	npeers := 3 + r.Intn(3)
	peers := make([]*vlib.Identity, npeers)
	uri := map[string]string{}
	conns := map[string]*vlib.Conn{}
	trace := []string{}
	register := func(id *vlib.Identity, host bool) bool {
		var c *vlib.Conn
		var err error
		t0 := time.Now()
		if host {
			c, err = w.ConnectHost(id, "geth", fmt.Sprintf("192.0.2.%d:4000", 10+len(conns)))
		} else {
			c, err = w.ConnectClient(id, "geth", "192.0.2.9:4000")
		}
		if err != nil {
			ev.Violate("pool:connect-failed", map[string]interface{}{"driver": driver, "index": idx, "err": err.Error()})
			return false
		}
		conns[id.NodeID] = c
		n, _ := w.RawStore.GetNode(store.NodeID(id.NodeID))
		model.SetNode(*n)
		model.Nodes[id.NodeID].SeenLo = t0
		uri[id.NodeID] = n.URI
		return true
	}
	if !register(obs, r.Intn(2) == 0) {
		return false, true, ""
	}
	registered := []*vlib.Identity{}
	for i := range peers {
		peers[i] = vlib.NewIdentity("c11peer", (idx*5+i)%23)
		switch r.Intn(6) {
		case 0:
			// the same key under another spelling of its id: to the pool simply another id,
			// registered and reported under exactly that spelling
			cp := *peers[i]
			cp.NodeID = strings.ToUpper(cp.NodeID)
			peers[i] = &cp
		case 1:
			cp := *peers[i]
			cp.NodeID = "0x" + cp.NodeID
			peers[i] = &cp
		}
		if r.Intn(6) != 0 {
			if !register(peers[i], r.Intn(3) != 0) {
				return false, true, ""
			}
			registered = append(registered, peers[i])
		}
	}
	inject := func(id *vlib.Identity, age int) {
		n, err := w.RawStore.GetNode(store.NodeID(id.NodeID))
		if err != nil {
			return
		}
		nn := *n
		nn.LastSeen = time.Now().Add(-time.Duration(age) * time.Second)
		if age < 0 {
			nn.LastSeen = time.Time{} // a registration that supplies no check-in time
		}
		w.RawStore.SetNode(nn)
		model.Nodes[id.NodeID].Node.LastSeen = nn.LastSeen
		model.Nodes[id.NodeID].SeenLo, model.Nodes[id.NodeID].SeenHi = nn.LastSeen, nn.LastSeen
		trace = append(trace, fmt.Sprintf("inject %s age=%ds", id.Name, age))
	}
	steps := 6 + r.Intn(14)
	evictions := 0
	for s := 0; s < steps; s++ {
		switch k := r.Intn(10); {
		case k < 3 && len(registered) > 0:
			inject(registered[r.Intn(len(registered))], c11Ages[r.Intn(len(c11Ages))])
		case k == 4 && len(registered) > 0 && r.Intn(2) == 0:
			// a peer reconnects (new connection, same identity): that is a check-in too
			p := registered[r.Intn(len(registered))]
			t0 := time.Now()
			wasHost := model.Nodes[p.NodeID].Node.IsHost
			conns[p.NodeID].Close()
			var c *vlib.Conn
			var err error
			if wasHost {
				c, err = w.ConnectHost(p, "geth", fmt.Sprintf("192.0.2.%d:4000", 60+s))
			} else {
				c, err = w.ConnectClient(p, "geth", "192.0.2.9:4000")
			}
			if err != nil {
				ev.Violate("pool:connect-failed", map[string]interface{}{"driver": driver, "index": idx, "err": err.Error(), "trace": trace})
				return false, true, ""
			}
			conns[p.NodeID] = c
			if n, err := w.RawStore.GetNode(store.NodeID(p.NodeID)); err == nil {
				uri[p.NodeID] = n.URI
			}
			mn := model.Nodes[p.NodeID]
			mn.Node.LastSeen, mn.SeenLo, mn.SeenHi = t0, t0, time.Now()
			trace = append(trace, "reconnect "+p.Name)
		case k < 4 && len(registered) > 0:
			// a peer checks in itself
			p := registered[r.Intn(len(registered))]
			t0 := time.Now()
			if _, err := w.Update(conns[p.NodeID].AgentSide, p, nil, 1); err != nil {
				ev.Violate("pool:update-failed", map[string]interface{}{"driver": driver, "index": idx, "err": err.Error(), "trace": trace})
				return false, true, ""
			}
			model.UpdateNodePeers(p.NodeID, nil, 1, t0, time.Now())
			trace = append(trace, "checkin "+p.Name)
		default:
			cnt := r.Intn(npeers + 2)
			infos := []ethnode.PeerInfo{}
			ids := []string{}
			names := []string{}
			for j := 0; j < cnt; j++ {
				var pid, name string
				switch r.Intn(12) {
				case 0:
					pid, name = vlib.NewIdentity("c11unknown", j).NodeID, "unknown"
				case 1:
					pid, name = obs.NodeID, "self"
				default:
					p := peers[r.Intn(npeers)]
					pid, name = p.NodeID, p.Name
				}
				pi := ethnode.PeerInfo{ID: pid}
				if r.Intn(2) == 0 && len(pid) == 128 && pid == strings.ToLower(pid) {
					// id only inside the enode URI, ID field carries a hash-like value
					pi = ethnode.PeerInfo{ID: "deadbeef", Enode: "enode://" + pid + "@198.51.100.7:30303"}
				}
				infos = append(infos, pi)
				ids = append(ids, pid)
				names = append(names, name)
			}
			t0 := time.Now()
			resp, err := w.Update(conns[obs.NodeID].AgentSide, obs, infos, uint64(s))
			t1 := time.Now()
			if err != nil {
				ev.Violate("pool:update-failed", map[string]interface{}{"driver": driver, "index": idx, "err": err.Error(), "trace": trace})
				return false, true, ""
			}
			mres, ok := model.UpdateNodePeers(obs.NodeID, ids, uint64(s), t0, t1)
			if !ok || time.Since(start) > 5*time.Second {
				return false, false, ""
			}
			wantInvalid := strings.TrimPrefix(mres, "ok inactive=")
			gotInvalid := strings.Join(sortedCopy(resp.InvalidPeers), ",")
			wantActive := []string{}
			for p := range model.Peers[obs.NodeID] {
				if _, reg := model.Nodes[p]; reg {
					wantActive = append(wantActive, uri[p])
				}
			}
			sort.Strings(wantActive)
			gotActive := sortedCopy(resp.ActivePeers)
			trace = append(trace, fmt.Sprintf("update obs peers=%v -> invalid=%d active=%d", names, len(resp.InvalidPeers), len(resp.ActivePeers)))
			if wantInvalid != "" {
				evictions++
			}
			if gotInvalid != wantInvalid {
				ev.Violate("pool:"+driver+":InvalidPeers", map[string]interface{}{"driver": driver, "index": idx, "got": abbrevList(resp.InvalidPeers), "want": abbrevCSV(wantInvalid), "trace": trace})
				return true, true, ""
			}
			if strings.Join(gotActive, ",") != strings.Join(wantActive, ",") {
				ev.Violate("pool:"+driver+":ActivePeers", map[string]interface{}{"driver": driver, "index": idx, "got": gotActive, "want": wantActive, "trace": trace})
				return true, true, ""
			}
			// NodePeers afterwards must agree with the reply
			ns, err := w.RawStore.NodePeers(store.NodeID(obs.NodeID))
			if got := vlib.CanonNodes("peers", ns, err); got != model.NodePeers(obs.NodeID) {
				ev.Violate("pool:"+driver+":NodePeers-after-update", map[string]interface{}{"driver": driver, "index": idx, "got": got, "want": model.NodePeers(obs.NodeID), "trace": trace})
				return true, true, ""
			}
		}
	}
	if idx < 1 {
		ev.Sample(map[string]interface{}{"layer": "pool", "driver": driver, "trace": trace})
	}
	return evictions > 0, true, strings.Join(trace, ";")
}

func abbrevList(in []string) []string {
	out := []string{}
	for _, s := range in {
		out = append(out, vlib.Short(s))
	}
	sort.Strings(out)
	return out
}

func abbrevCSV(s string) []string {
	if s == "" {
		return []string{}
	}
	return abbrevList(strings.Split(s, ","))
}

var _ = pool.UpdateRequest{}

// c11Ageing: tracked stamps age past the window in real time (one shared
// 21 s wait for all scenarios). Covers peers that vanish from the report but
// keep checking in themselves, peers that are re-reported, and keep-alives
// whose report is empty or names only unknown ids.
func c11Ageing(ev *vlib.Evidence, n int) {
	type scenario struct {
		driver  string
		s       store.Store
		model   *vlib.RefStore
		base    time.Time
		pfx     string
		peers   []string
		checkin []bool
		report  []string
		trace   []string
		dead    bool
	}
	scs := []*scenario{}
	cleanups := []func(){}
	for _, driver := range vlib.Drivers() {
		st, cleanup, err := vlib.OpenStore(driver)
		if err != nil {
			panic(err)
		}
		cleanups = append(cleanups, cleanup)
		for j := 0; j < n; j++ {
			r := vlib.Rand("C11-ageing-"+driver, j)
			sc := &scenario{driver: driver, s: st, model: vlib.NewRefStore(), base: time.Now(), pfx: fmt.Sprintf("a%d-", j)}
			exec := func(op vlib.StoreOp) bool {
				res := vlib.ExecStoreOp(sc.s, op, sc.base)
				want, _, ok := vlib.ModelStoreOp(sc.model, op, sc.base, res.T0, res.T1)
				sc.trace = append(sc.trace, fmt.Sprintf("%s -> %s", op.String(), res.Res))
				if !ok {
					sc.dead = true
					ev.Inconclusive("time-class")
					return false
				}
				if res.Res != want {
					ev.Violate("ageing:"+driver+":"+op.Op, map[string]interface{}{"driver": driver, "trace": sc.trace, "got": res.Res, "want": want})
					sc.dead = true
					return false
				}
				return true
			}
			o := sc.pfx + "o"
			exec(vlib.StoreOp{Op: "SetNode", ID: o, AgeSec: 0})
			np := 3 + r.Intn(2)
			for i := 0; i < np; i++ {
				p := fmt.Sprintf("%sp%d", sc.pfx, i)
				sc.peers = append(sc.peers, p)
				age := vlib.Pick(r, 105, 110, 110, 0)
				if j%2 == 1 {
					age = 0 // the first tracked peer is fresh ...
					if i > 0 {
						age = vlib.Pick(r, 105, 110) // ... the ones added by the second keep-alive are not
					}
				}
				exec(vlib.StoreOp{Op: "SetNode", ID: p, IsHost: true, AgeSec: age})
				sc.checkin = append(sc.checkin, r.Intn(2) == 0)
			}
			if j%2 == 1 && np > 1 {
				// the peers become tracked in two keep-alives, the later ones with the older check-ins
				exec(vlib.StoreOp{Op: "UpdateNodePeers", ID: o, Peers: sc.peers[:1], Block: 1})
			}
			exec(vlib.StoreOp{Op: "UpdateNodePeers", ID: o, Peers: sc.peers, Block: 1})
			switch r.Intn(4) {
			case 0: // empty report
			case 1:
				sc.report = []string{"unknown-id"}
			default:
				for _, p := range sc.peers {
					if r.Intn(2) == 0 {
						sc.report = append(sc.report, p)
					}
				}
			}
			scs = append(scs, sc)
		}
	}
	// every pool-level scenario holds a world (and its store) open across the shared wait:
	// their number is bounded, whatever the tier
	nPool := n/6 + 4
	if nPool > 16 {
		nPool = 16
	}
	poolFinish := c11PoolAgeingPrepare(ev, nPool)
	time.Sleep(21 * time.Second)
	defer poolFinish()
	for _, sc := range scs {
		if sc.dead {
			continue
		}
		exec := func(op vlib.StoreOp) (string, bool) {
			res := vlib.ExecStoreOp(sc.s, op, sc.base)
			want, _, ok := vlib.ModelStoreOp(sc.model, op, sc.base, res.T0, res.T1)
			sc.trace = append(sc.trace, fmt.Sprintf("[+21s] %s -> %s", op.String(), res.Res))
			if !ok {
				ev.Inconclusive("time-class")
				return want, false
			}
			if res.Res != want {
				ev.Violate("ageing:"+sc.driver+":"+op.Op, map[string]interface{}{"driver": sc.driver, "trace": sc.trace, "got": res.Res, "want": want})
				return want, false
			}
			return want, true
		}
		okAll := true
		for i, p := range sc.peers {
			if sc.checkin[i] {
				if _, ok := exec(vlib.StoreOp{Op: "UpdateNodePeers", ID: p, Block: 2}); !ok {
					okAll = false
				}
			}
		}
		if !okAll {
			continue
		}
		want, ok := exec(vlib.StoreOp{Op: "UpdateNodePeers", ID: sc.pfx + "o", Peers: sc.report, Block: 3})
		if !ok {
			continue
		}
		if _, ok := exec(vlib.StoreOp{Op: "NodePeers", ID: sc.pfx + "o"}); !ok {
			continue
		}
		// a second keep-alive must not declare the forgotten peers again
		if _, ok := exec(vlib.StoreOp{Op: "UpdateNodePeers", ID: sc.pfx + "o", Peers: nil, Block: 4}); !ok {
			continue
		}
		ev.Case("ageing "+sc.driver+strings.Join(sc.trace, ";"), want != "ok inactive=")
		ev.Count("ageing-scenarios", 1)
		if want != "ok inactive=" {
			ev.Count("ageing-evictions", 1)
		}
	}
	if len(scs) > 0 {
		ev.Sample(map[string]interface{}{"layer": "ageing", "driver": scs[0].driver, "trace": scs[0].trace})
	}
	for _, c := range cleanups {
		c()
	}
}

// c11PoolAgeingPrepare is the endpoint-level counterpart of the ageing
// scenarios: an observer reports hosts whose check-in is 105-110 s old (they
// become tracked), the shared real wait carries the recorded stamps past the
// window, some hosts check in themselves, and the observer's next signed
// vipnode_update (reporting only a subset, nothing, or an unknown id) must
// list exactly the model's peers in invalid_peers and active_peers. The
// returned function runs the part after the wait.
func c11PoolAgeingPrepare(ev *vlib.Evidence, n int) func() {
	type scenario struct {
		driver  string
		idx     int
		w       *vlib.World
		model   *vlib.RefStore
		obs     *vlib.Identity
		hosts   []*vlib.Identity
		conns   map[string]*vlib.Conn
		uri     map[string]string
		checkin []bool
		report  []*vlib.Identity
		unknown bool
		trace   []string
		dead    bool
	}
	scs := []*scenario{}
	for _, driver := range vlib.Drivers() {
		for j := 0; j < n; j++ {
			r := vlib.Rand("C11-pool-ageing-"+driver, j)
			w, err := vlib.NewWorld(vlib.WorldOptions{Driver: driver})
			if err != nil {
				panic(err)
			}
			sc := &scenario{driver: driver, idx: j, w: w, model: vlib.NewRefStore(), conns: map[string]*vlib.Conn{}, uri: map[string]string{}}
			scs = append(scs, sc)
			register := func(id *vlib.Identity, host bool) bool {
				var c *vlib.Conn
				var err error
				t0 := time.Now()
				if host {
					c, err = w.ConnectHost(id, "geth", fmt.Sprintf("192.0.2.%d:4000", 10+len(sc.conns)))
				} else {
					c, err = w.ConnectClient(id, "geth", "192.0.2.9:4000")
				}
				if err != nil {
					ev.Violate("pool:connect-failed", map[string]interface{}{"driver": driver, "index": j, "err": err.Error()})
					sc.dead = true
					return false
				}
				sc.conns[id.NodeID] = c
				nn, _ := w.RawStore.GetNode(store.NodeID(id.NodeID))
				sc.model.SetNode(*nn)
				sc.model.Nodes[id.NodeID].SeenLo = t0
				sc.uri[id.NodeID] = nn.URI
				return true
			}
			sc.obs = vlib.NewIdentity("c11ageobs", j%11)
			if !register(sc.obs, r.Intn(2) == 0) {
				continue
			}
			nh := 2 + r.Intn(3)
			infos := []ethnode.PeerInfo{}
			ids := []string{}
			for i := 0; i < nh && !sc.dead; i++ {
				h := vlib.NewIdentity("c11agehost", (j*5+i)%29)
				if !register(h, true) {
					break
				}
				sc.hosts = append(sc.hosts, h)
				age := vlib.Pick(r, 105, 108, 110, 110, 0)
				nn, _ := w.RawStore.GetNode(store.NodeID(h.NodeID))
				cp := *nn
				cp.LastSeen = time.Now().Add(-time.Duration(age) * time.Second)
				w.RawStore.SetNode(cp)
				sc.model.Nodes[h.NodeID].Node.LastSeen = cp.LastSeen
				sc.model.Nodes[h.NodeID].SeenLo, sc.model.Nodes[h.NodeID].SeenHi = cp.LastSeen, cp.LastSeen
				sc.trace = append(sc.trace, fmt.Sprintf("host %s check-in %ds old", h.Name, age))
				sc.checkin = append(sc.checkin, r.Intn(3) == 0)
				infos = append(infos, ethnode.PeerInfo{ID: h.NodeID})
				ids = append(ids, h.NodeID)
			}
			if sc.dead {
				continue
			}
			t0 := time.Now()
			resp, err := w.Update(sc.conns[sc.obs.NodeID].AgentSide, sc.obs, infos, 1)
			if err != nil {
				ev.Violate("pool:update-failed", map[string]interface{}{"driver": driver, "index": j, "err": err.Error(), "trace": sc.trace})
				sc.dead = true
				continue
			}
			mres, ok := sc.model.UpdateNodePeers(sc.obs.NodeID, ids, 1, t0, time.Now())
			if !ok {
				sc.dead = true
				ev.Inconclusive("time-class")
				continue
			}
			sc.trace = append(sc.trace, fmt.Sprintf("update obs reports all %d hosts -> invalid=%d active=%d", len(ids), len(resp.InvalidPeers), len(resp.ActivePeers)))
			if got := strings.Join(sortedCopy(resp.InvalidPeers), ","); got != strings.TrimPrefix(mres, "ok inactive=") {
				ev.Violate("pool-ageing:"+driver+":InvalidPeers", map[string]interface{}{"driver": driver, "index": j, "got": abbrevList(resp.InvalidPeers), "want": abbrevCSV(strings.TrimPrefix(mres, "ok inactive=")), "trace": sc.trace})
				sc.dead = true
				continue
			}
			switch r.Intn(4) {
			case 0:
			case 1:
				sc.unknown = true
			default:
				for _, h := range sc.hosts {
					if r.Intn(2) == 0 {
						sc.report = append(sc.report, h)
					}
				}
			}
		}
	}
	return func() {
		for _, sc := range scs {
			func() {
				defer sc.w.Close()
				if sc.dead {
					return
				}
				for i, h := range sc.hosts {
					if !sc.checkin[i] {
						continue
					}
					t0 := time.Now()
					if _, err := sc.w.Update(sc.conns[h.NodeID].AgentSide, h, nil, 2); err != nil {
						ev.Violate("pool:update-failed", map[string]interface{}{"driver": sc.driver, "index": sc.idx, "err": err.Error(), "trace": sc.trace})
						return
					}
					sc.model.UpdateNodePeers(h.NodeID, nil, 2, t0, time.Now())
					sc.trace = append(sc.trace, "[+21s] checkin "+h.Name)
				}
				infos := []ethnode.PeerInfo{}
				ids := []string{}
				names := []string{}
				for _, h := range sc.report {
					infos = append(infos, ethnode.PeerInfo{ID: h.NodeID})
					ids = append(ids, h.NodeID)
					names = append(names, h.Name)
				}
				if sc.unknown {
					u := vlib.NewIdentity("c11unknown", 1).NodeID
					infos = append(infos, ethnode.PeerInfo{ID: u})
					ids = append(ids, u)
					names = append(names, "unknown")
				}
				for round := 0; round < 2; round++ {
					if round == 1 {
						infos, ids, names = nil, nil, nil // a second keep-alive must not declare forgotten peers again
					}
					t0 := time.Now()
					resp, err := sc.w.Update(sc.conns[sc.obs.NodeID].AgentSide, sc.obs, infos, uint64(3+round))
					t1 := time.Now()
					if err != nil {
						ev.Violate("pool:update-failed", map[string]interface{}{"driver": sc.driver, "index": sc.idx, "err": err.Error(), "trace": sc.trace})
						return
					}
					mres, ok := sc.model.UpdateNodePeers(sc.obs.NodeID, ids, uint64(3+round), t0, t1)
					if !ok {
						ev.Inconclusive("time-class")
						return
					}
					wantInvalid := strings.TrimPrefix(mres, "ok inactive=")
					wantActive := []string{}
					for p := range sc.model.Peers[sc.obs.NodeID] {
						if _, reg := sc.model.Nodes[p]; reg {
							wantActive = append(wantActive, sc.uri[p])
						}
					}
					sort.Strings(wantActive)
					sc.trace = append(sc.trace, fmt.Sprintf("[+21s] update obs peers=%v -> invalid=%d active=%d", names, len(resp.InvalidPeers), len(resp.ActivePeers)))
					if got := strings.Join(sortedCopy(resp.InvalidPeers), ","); got != wantInvalid {
						ev.Violate("pool-ageing:"+sc.driver+":InvalidPeers", map[string]interface{}{"driver": sc.driver, "index": sc.idx, "got": abbrevList(resp.InvalidPeers), "want": abbrevCSV(wantInvalid), "trace": sc.trace})
						return
					}
					if got := strings.Join(sortedCopy(resp.ActivePeers), ","); got != strings.Join(wantActive, ",") {
						ev.Violate("pool-ageing:"+sc.driver+":ActivePeers", map[string]interface{}{"driver": sc.driver, "index": sc.idx, "got": sortedCopy(resp.ActivePeers), "want": wantActive, "trace": sc.trace})
						return
					}
					if round == 0 {
						ev.Case("pool-ageing "+sc.driver+strings.Join(sc.trace, ";"), wantInvalid != "")
						ev.Count("pool-ageing-scenarios", 1)
						if wantInvalid != "" {
							ev.Count("pool-ageing-evictions", 1)
						}
					}
				}
				if sc.idx == 0 {
					ev.Sample(map[string]interface{}{"layer": "pool-ageing", "driver": sc.driver, "trace": sc.trace})
				}
			}()
		}
	}
}

// c11Concurrent: an observer's keep-alive races the keep-alive of a reported
// peer whose last check-in is stale. Either order is fine, but the answer must
// be consistent: a peer declared invalid is not tracked afterwards, and the
// other way round.
func c11Concurrent(ev *vlib.Evidence, driver string, s store.Store, idx int) {
	pfx := fmt.Sprintf("cc%d-", idx)
	o, p := store.NodeID(pfx+"o"), store.NodeID(pfx+"p")
	s.SetNode(store.Node{ID: o, LastSeen: time.Now()})
	s.SetNode(store.Node{ID: p, IsHost: true, LastSeen: time.Now().Add(-130 * time.Second)})
	var wg sync.WaitGroup
	var inactive []store.NodeID
	var oerr error
	wg.Add(2)
	go func() { defer wg.Done(); inactive, oerr = s.UpdateNodePeers(o, []string{string(p)}, 1) }()
	go func() { defer wg.Done(); s.UpdateNodePeers(p, nil, 1) }()
	wg.Wait()
	ev.Case(fmt.Sprintf("concurrent %s %d", driver, idx), true)
	ev.Count("concurrent-keepalive-pairs", 1)
	if oerr != nil {
		ev.Violate("concurrent:"+driver+":keepalive-failed", map[string]interface{}{"err": oerr.Error()})
		return
	}
	peers, _ := s.NodePeers(o)
	tracked := false
	for _, n := range peers {
		if n.ID == p {
			tracked = true
		}
	}
	declared := 0
	for _, id := range inactive {
		if id == p {
			declared++
		}
	}
	if declared > 1 || (declared == 1) == tracked {
		ev.Violate("concurrent:"+driver+":declared-invalid-and-tracked-disagree", map[string]interface{}{"driver": driver, "declared_invalid_times": declared, "still_tracked": tracked})
	}
	if declared == 1 {
		ev.Count("concurrent-outcome:declared-invalid", 1)
	} else {
		ev.Count("concurrent-outcome:kept", 1)
	}
}

func TestC11(t *testing.T) {
	ev := vlib.NewEvidence("C11", "exploration",
		"concurrent: an observer's keep-alive racing the keep-alive of a stale reported peer (declared-invalid and still-tracked must disagree); ageing: tracked stamps recorded 105-110 s old are aged past the window by one shared 21 s real wait, with peers that check in themselves without being re-reported, re-reported peers, empty and unknown-only reports, and a second keep-alive afterwards, at store level and through signed vipnode_update sessions (invalid_peers/active_peers vs the model); store level: histories of one observer and 3-4 peers (SetNode with LastSeen ages {0,60,110,130,180,3600 s}, observer and peer keep-alives, unknown/duplicate/self ids) on both drivers vs the tracked-peer model; pool level: signed vipnode_update sessions (ids given directly or inside enode:// URIs) comparing InvalidPeers/ActivePeers/NodePeers with the model; non-trivial = at least one peer was declared invalid (store level: >=3 mutations); distinct = distinct histories; (faults) a damaged peer record between two keep-alives on an on-disk store")
	ev.Assume("the 120 s window is only approached to ±10 s; cases longer than 5 s wall are inconclusive")
	ageDone := make(chan struct{})
	go func() { c11Ageing(ev, vlib.Scale(150, 2000)); close(ageDone) }()
	unreadableDone := make(chan struct{})
	go func() {
		parallelCases(vlib.Scale(4, 40), 4, func(i int) { c11PeerRecordUnreadable(ev, i) })
		close(unreadableDone)
	}()
	n := vlib.Scale(2000, 60000)
	parallelCases(n, 12, func(i int) {
		r := vlib.Rand("C11-store", i)
		ops := genC11Ops(r)
		desc := ""
		evict := false
		for _, o := range ops {
			desc += o.String() + ";"
		}
		mem, cm, _ := vlib.OpenStore(vlib.DriverMemory)
		bad, cb, _ := vlib.OpenStore(vlib.DriverBadgerMem)
		steps, nontrivial, conclusive := runStoreHistory(ev, "C11", "C11-store", i, ops, []string{"memory", "badger"}, []store.Store{mem, bad}, nil)
		cm()
		cb()
		if !conclusive {
			ev.Inconclusive("time-class")
			return
		}
		for _, s := range steps {
			if strings.HasPrefix(s.Model, "ok inactive=") && s.Model != "ok inactive=" {
				evict = true
				ev.Count("store-evictions", 1)
			}
		}
		ev.Case(desc, nontrivial && evict)
		if i < 1 {
			ev.Sample(map[string]interface{}{"layer": "store", "steps": steps})
		}
	})
	m := vlib.Scale(400, 10000)
	for _, driver := range vlib.Drivers() {
		driver := driver
		parallelCases(m, 12, func(i int) {
			nontrivial, conclusive, desc := c11Pool(ev, driver, i)
			if !conclusive {
				ev.Inconclusive("time-class")
				return
			}
			ev.Case(driver+desc, nontrivial)
			ev.Count("pool-histories:"+driver, 1)
		})
	}
	for _, driver := range vlib.Drivers() {
		st, cleanup, err := vlib.OpenStore(driver)
		if err != nil {
			t.Fatal(err)
		}
		for i := 0; i < vlib.Scale(1500, 30000); i++ {
			c11Concurrent(ev, driver, st, i)
		}
		cleanup()
	}
	<-ageDone
	<-unreadableDone
	for _, driver := range vlib.Drivers() {
		c11ManyPeers(ev, driver, 300, 10)
	}
	finish(t, ev)
}
