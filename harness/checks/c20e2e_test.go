package checks

import (
	"encoding/json"
	"fmt"
	"os"
	"os/exec"
	"path/filepath"
	"time"

	"github.com/vipnode/vipnode/v2/pool"
	"verifharness/vlib"
)

// c20AcceptedIntervalStaysWithinExpiry (two minutes of real time, run
// alongside the rest of C20): the reason the command line bounds --update-interval is that a
// host updating at an accepted interval must never drop out of the pool's
// activity window. The built agent (fake full node) runs at 100 s against the
// built pool; a client asks for peers from second 93 to second 125 (every 2 s; the
// connection is left silent before that) and must be offered that host every time.
func c20AcceptedIntervalStaysWithinExpiry(ev *vlib.Evidence) {
	bin, err := vlib.BuildVipnode("plain")
	if err != nil {
		ev.Inconclusive("build")
		return
	}
	dir, _ := os.MkdirTemp("", "verif-c20e-")
	defer os.RemoveAll(dir)
	if keep := os.Getenv("VERIF_C20_KEEP"); keep != "" {
		defer func() { exec.Command("cp", "-r", dir, keep).Run() }()
	}
	paddr := fmt.Sprintf("127.0.0.1:%d", vlib.FreePort())
	pp, err := vlib.StartProc(filepath.Join(dir, "pool.log"), []string{"HOME=" + dir}, bin, "pool", "--store=memory", "--bind", paddr)
	if err != nil || !pp.WaitListening(paddr, 30*time.Second) {
		if pp != nil {
			pp.Kill(false)
		}
		ev.Inconclusive("pool-start")
		return
	}
	defer pp.Kill(false)
	self := vlib.NewIdentity("c20e2e-host", 0)
	const interval = "100s"
	ap, err := vlib.StartProc(filepath.Join(dir, "agent.log"), []string{"HOME=" + dir}, bin, "agent", "ws://"+paddr+"/", "--rpc", "fakenode://"+self.NodeID+"?fullnode=1", "--nodekey", writeNodeKey(dir, self), "--update-interval="+interval, "--min-peers=0")
	if err != nil {
		ev.Inconclusive("agent-start")
		return
	}
	defer ap.Kill(false)
	client := vlib.NewIdentity("c20e2e-client", 0)
	cs, err := newBinSession(paddr, client)
	if err != nil {
		ev.Inconclusive("ws-dial")
		return
	}
	defer cs.c.Close()
	if _, e, _, _, ok := cs.call("vipnode_connect", vlib.ConnectReq(false, "geth", "", "")); !ok || e != "" {
		ev.Inconclusive("client-connect")
		return
	}
	offered := func() (bool, bool) {
		res, e, _, _, ok := cs.call("vipnode_peer", pool.PeerRequest{Num: 3})
		if !ok {
			return false, false
		}
		if e != "" {
			return false, true
		}
		var pr pool.PeerResponse
		json.Unmarshal(res, &pr)
		for _, h := range pr.Peers {
			if string(h.ID) == self.NodeID {
				return true, true
			}
		}
		return false, true
	}
	// wait for the registration
	registered := false
	for i := 0; i < 150 && !registered; i++ {
		if ok, alive := offered(); !alive {
			ev.Inconclusive("ws")
			return
		} else if ok {
			registered = true
		} else {
			time.Sleep(200 * time.Millisecond)
		}
	}
	if !registered {
		ev.Inconclusive("agent-did-not-register")
		return
	}
	start := time.Now()
	polls, missing := 0, []string{}
	stalled := false // the harness itself was not scheduled for seconds: the machine is too loaded for a verdict
	// the connection between agent and pool stays silent until shortly before the keep-alive is
	// due (every poll makes the pool call the host, which would be traffic on that connection)
	time.Sleep(91*time.Second - time.Since(start))
	// the observer uses a fresh connection of its own (its first one has been silent just as long)
	cs.c.Close()
	client2 := vlib.NewIdentity("c20e2e-client", 1)
	cs, err = newBinSession(paddr, client2)
	if err != nil {
		ev.Inconclusive("ws-dial")
		return
	}
	defer cs.c.Close()
	if _, e, _, _, ok := cs.call("vipnode_connect", vlib.ConnectReq(false, "geth", "", "")); !ok || e != "" {
		ev.Inconclusive("client-connect")
		return
	}
	for time.Since(start) < 125*time.Second {
		t0 := time.Now()
		time.Sleep(2 * time.Second)
		if time.Since(t0) > 6*time.Second {
			stalled = true
		}
		ok, alive := offered()
		if !alive {
			ev.Inconclusive("ws")
			return
		}
		if ex, _ := ap.Exited(); ex {
			b, _ := os.ReadFile(ap.LogPath)
			ev.Case("accepted-interval-stays-within-expiry "+interval, true)
			ev.Violate("cli:agent-at-an-accepted-interval-lost-its-pool", map[string]interface{}{"update_interval": interval, "after": time.Since(start).Round(time.Second).String(), "agent_log": tailStr(string(b), 600)})
			return
		}
		polls++
		if !ok {
			missing = append(missing, time.Since(start).Round(time.Second).String())
		}
	}
	ev.Case("accepted-interval-stays-within-expiry "+interval, true)
	ev.Count("expiry-polls", int64(polls))
	if len(missing) > 0 && stalled {
		ev.Inconclusive("machine-stalled-during-expiry-run")
		return
	}
	if len(missing) > 0 {
		ev.Violate("cli:host-at-an-accepted-interval-dropped-out-of-the-activity-window", map[string]interface{}{"update_interval": interval, "not_offered_at": missing, "polls": polls})
	}
}
