package checks

import (
	"bytes"
	"context"
	"encoding/json"
	"fmt"
	"io"
	"math/big"
	"math/rand"
	"net"
	"net/http"
	"net/http/httptest"
	"net/url"
	"os"
	"strings"
	"sync"
	"sync/atomic"
	"time"

	badgerdb "github.com/dgraph-io/badger/v2"
	"github.com/vipnode/vipnode/v2/ethnode"
	"github.com/vipnode/vipnode/v2/jsonrpc2"
	"github.com/vipnode/vipnode/v2/pool"
	"github.com/vipnode/vipnode/v2/pool/status"
	"github.com/vipnode/vipnode/v2/pool/store"
	"github.com/vipnode/vipnode/v2/pool/store/badger"
	"verifharness/vlib"
)

// Failure-path scenarios: the system is driven while one of the things it
// depends on (a store call, the Ethereum node, a transport) fails, and the
// monitors assert what the property still promises in that situation.

// c03BalanceReadFails (C03): a client below the minimum connects while the
// pool's balance lookup fails. Being unable to read the balance is no reason
// to let the client in: the request must end in an error and no host may be
// asked to whitelist it. A client at or above the minimum may see the store
// error, but must not be told its balance is too low.
func c03BalanceReadFails(ev *vlib.Evidence, driver string, idx int) {
	r := vlib.Rand("C03-readfault-"+driver, idx)
	min := mustBig(vlib.Pick(r, "1", "1000000", "0", "100000000000000000000"))
	var chaos *vlib.Chaos
	w, err := vlib.NewWorld(vlib.WorldOptions{Driver: driver, Price: big.NewInt(1), Interval: time.Nanosecond, MinBalance: min, Deposits: true,
		WrapStore: func(s store.Store) store.Store { chaos = vlib.NewChaos(s, int64(idx)); return chaos }})
	if err != nil {
		panic(err)
	}
	defer w.Close()
	host := vlib.NewIdentity("c03fhost", idx%7)
	if _, err := w.ConnectHost(host, "geth", "192.0.2.1:7"); err != nil {
		ev.Inconclusive(fmt.Sprintf("c03 read-fault setup: host refused: %v", err))
		return
	}
	below := r.Intn(3) != 0
	tb := new(big.Int).Set(min)
	cls := "at-min"
	if below {
		tb.Sub(tb, big.NewInt(int64(1+r.Intn(3))))
		cls = "below-min"
	}
	client := vlib.NewIdentity("c03fclient", idx%13)
	w.RawStore.SetNode(store.Node{ID: store.NodeID(client.NodeID), IsHost: false, LastSeen: time.Now()})
	linked := r.Intn(2) == 0
	how := setSpendable(w, r, client.NodeID, "0xFaultClientWallet", linked, tb)
	method := vlib.Pick(r, "vipnode_connect", "vipnode_client")
	cc := w.Dial(client, "192.0.2.99:7")
	stamp := w.Tick()
	chaos.ResetCalls()
	chaos.Fail = func(op string, n int) bool { return op == "GetNodeBalance" }
	var cerr error
	if method == "vipnode_connect" {
		var cresp pool.ConnectResponse
		cerr = w.Signed(cc.AgentSide, client, client.NodeID, method, &cresp, vlib.ConnectReq(false, "geth", "", ""))
	} else {
		var cresp pool.ClientResponse
		cerr = w.Signed(cc.AgentSide, client, client.NodeID, method, &cresp, pool.ClientRequest{Kind: "geth", NumHosts: 1})
	}
	reads := chaos.Calls("GetNodeBalance")
	chaos.Fail = nil
	ev.Case(fmt.Sprintf("balance-read-fails/%s/%s/%s/linked=%v", driver, method, cls, linked), true)
	ev.Count("connects-while-balance-read-fails", 1)
	detail := map[string]interface{}{"driver": driver, "method": method, "min": min.String(), "balance": tb.String(), "how": how, "err": fmt.Sprint(cerr), "balance_reads_failed": reads, "index": idx}
	if reads == 0 {
		ev.Inconclusive("c03 read-fault: the connect did not read the balance")
		return
	}
	whitelisted := 0
	for _, e := range w.EventsSince(stamp) {
		if e.Method == "whitelist" && strings.EqualFold(e.Arg, client.NodeID) {
			whitelisted++
		}
	}
	_, _, isLow := parseLowBalance(cerr)
	switch {
	case below && cerr == nil:
		ev.Violate("connect:below-min-admitted-while-balance-read-fails:"+method, detail)
	case below && whitelisted > 0:
		detail["whitelist_calls"] = whitelisted
		ev.Violate("connect:below-min-whitelisted-while-balance-read-fails:"+method, detail)
	case !below && isLow:
		ev.Violate("connect:refused-for-balance-at-min-while-balance-read-fails:"+method, detail)
	}
	// the store recovers: the same client is now judged on its real balance
	var cresp pool.ConnectResponse
	cerr2 := w.Signed(cc.AgentSide, client, client.NodeID, "vipnode_connect", &cresp, vlib.ConnectReq(false, "geth", "", ""))
	cur, _, isLow2 := parseLowBalance(cerr2)
	detail["err_after_recovery"] = fmt.Sprint(cerr2)
	switch {
	case below && !isLow2:
		ev.Violate("connect:not-refused-below-min", detail)
	case below && cur.Cmp(tb) != 0:
		ev.Violate("connect:wrong-current-balance", detail)
	case !below && cerr2 != nil:
		ev.Violate("connect:refused-at-or-above-min", detail)
	}
}

// c04CallerGone (C04): the caller's context is already over, or ends while the
// request is being handled (an HTTP caller that hung up, a caller-side
// timeout). A request that was not signed by the identity it names is refused
// and not carried out all the same; a correctly signed one is not refused by
// the verification step.
func c04CallerGone(ev *vlib.Evidence, driver string, idx int) {
	lw, err := authWorld(driver, idx)
	if err != nil {
		ev.Inconclusive(fmt.Sprintf("c04 caller-gone setup: %v", err))
		return
	}
	w := lw.w
	defer w.Close()
	r := vlib.Rand("C04-gone-"+driver, idx)
	attacker := vlib.NewIdentity("c04goneattacker", idx)
	universe := append(append([]string{}, lw.universe...), attacker.NodeID)
	accounts := append(append([]string{}, lw.accounts...), attacker.Wallet)
	// something to withdraw
	w.RawStore.AddAccountNode(store.Account(lw.wallets[0].Wallet), store.NodeID(lw.hosts[0].NodeID))
	w.RawStore.AddAccountBalance(store.Account(lw.wallets[0].Wallet), mustBig("1000000000000000000"))
	w.RawStore.AddAccountNode(store.Account(lw.wallets[1].Wallet), store.NodeID(lw.hosts[1].NodeID))
	w.RawStore.AddAccountBalance(store.Account(lw.wallets[1].Wallet), mustBig("1000000000000000000"))
	// the refused requests first, the correctly signed ones afterwards: reverse calls
	// a correctly signed request sets off may still be arriving when its caller is gone
	for _, pass := range [][]string{{"wrong-key", "garbage", "bitflip"}, {"valid"}} {
		for _, ep := range signedEndpoints {
			var victim *vlib.Identity
			identity := ""
			switch {
			case strings.HasPrefix(ep.Method, "pool_"):
				victim = lw.wallets[r.Intn(2)]
				identity = victim.Wallet
			case ep.Method == "vipnode_host":
				victim = lw.hosts[r.Intn(2)]
				identity = victim.NodeID
			default:
				victim = lw.clients[r.Intn(2)]
				identity = victim.NodeID
			}
			args := ep.Args(r, identity)
			if ep.Method == "pool_addNode" {
				args = []interface{}{attacker.NodeID}
			}
			for _, kind := range pass {
				nonce := w.NextNonce(identity)
				var sig string
				switch kind {
				case "wrong-key":
					sig = vlib.RefSign(attacker.Key, ep.Method, identity, nonce, args...)
				case "garbage":
					sig = vlib.Pick(r, "", "AAAA", "0x1234", strings.Repeat("ab", 65))
				case "bitflip":
					sb, _ := vlib.RefSignBytes(victim.Key, ep.Method, identity, nonce, args...)
					sb[r.Intn(64)] ^= 0x04
					sig = vlib.EncodeSig(identity, sb)
				default:
					sig = vlib.RefSign(victim.Key, ep.Method, identity, nonce, args...)
				}
				params := append([]interface{}{sig, identity, nonce}, args...)
				mode := vlib.Pick(r, "already-over", "already-over", "ends-during-the-request")
				ctx, cancel := context.WithCancel(context.Background())
				if mode == "already-over" {
					cancel()
				} else {
					d := time.Duration(r.Intn(300)) * time.Microsecond
					go func() { time.Sleep(d); cancel() }()
				}
				before := w.Digest(universe, accounts)
				settlesBefore := len(w.SettleLog())
				stamp := w.Tick()
				var raw json.RawMessage
				cerr := func() (err error) {
					defer func() {
						if p := recover(); p != nil {
							err = fmt.Errorf("panic: %v", p)
						}
					}()
					return w.Local.Call(ctx, &raw, ep.Method, params...)
				}()
				cancel()
				ev.Case(fmt.Sprintf("caller-gone/%s/%s/%s/%s", driver, ep.Method, kind, mode), kind != "valid")
				ev.Count("requests-whose-caller-was-gone", 1)
				detail := map[string]interface{}{"driver": driver, "endpoint": ep.Method, "kind": kind, "caller": mode, "err": fmt.Sprint(cerr), "index": idx}
				refused := cerr != nil && strings.Contains(cerr.Error(), "failed to verify signature")
				if kind == "valid" {
					if refused {
						ev.Violate("valid-request-refused:"+ep.Method+":caller-gone", detail)
					}
					continue
				}
				after := w.Digest(universe, accounts)
				settles := len(w.SettleLog()) - settlesBefore
				reverse := len(w.EventsSince(stamp))
				switch {
				case !refused:
					ev.Violate(fmt.Sprintf("not-refused:%s:%s:caller-gone", ep.Method, kind), detail)
				case before != after || settles != 0 || reverse != 0:
					detail["diff"] = diffLines(before, after)
					detail["settlements"] = settles
					detail["reverse_calls"] = reverse
					ev.Violate(fmt.Sprintf("carried-out-although-refused:%s:%s:caller-gone", ep.Method, kind), detail)
				}
			}
		}
	}
}

// c05NonceStoreFaults (C05): the store fails to record the nonce of a
// correctly signed request. Whatever the pool answers to that submission, the
// captured request is honoured at most once over the submission and its
// replays once the store works again.
func c05NonceStoreFaults(ev *vlib.Evidence, driver string, idx int) {
	lw, err := authWorld(driver, idx)
	if err != nil || lw.chaos == nil {
		return // C04 reports refused reference-signed sessions
	}
	w := lw.w
	defer w.Close()
	r := vlib.Rand("C05-noncefault-"+driver, idx)
	for _, ep := range signedEndpoints {
		var key *vlib.Identity
		identity := ""
		switch {
		case strings.HasPrefix(ep.Method, "pool_"):
			key = lw.wallets[r.Intn(2)]
			identity = key.Wallet
		case ep.Method == "vipnode_host":
			key = lw.hosts[r.Intn(2)]
			identity = key.NodeID
		default:
			key = lw.clients[r.Intn(2)]
			identity = key.NodeID
		}
		args := ep.Args(r, identity)
		n := w.NextNonce(identity)
		params := append([]interface{}{vlib.RefSign(key.Key, ep.Method, identity, n, args...), identity, n}, args...)
		var svc jsonrpc2.Service = w.Local
		if c := lw.conns[identity]; c != nil && r.Intn(2) == 0 {
			svc = c.AgentSide
		}
		// how many of the nonce-store calls of the first submission fail
		failFirst := 1 + r.Intn(2)
		lw.chaos.ResetCalls()
		lw.chaos.Fail = func(op string, k int) bool { return op == "CheckAndSaveNonce" && k <= failFirst }
		outs := []callOutcome{guardedCall(svc, ep.Method, params...)}
		failed := lw.chaos.Calls("CheckAndSaveNonce")
		lw.chaos.Fail = nil
		for k := 0; k < 2; k++ {
			outs = append(outs, guardedCall(svc, ep.Method, params...))
		}
		honoured := 0
		errs := []string{}
		for _, o := range outs {
			if o.Accepted && o.Panic == "" {
				honoured++
			}
			errs = append(errs, fmt.Sprint(o.Err))
		}
		ev.Case(fmt.Sprintf("nonce-store-fault/%s/%s/%d", driver, ep.Method, idx), failed > 0)
		ev.Count("submissions-while-nonce-store-faults", 1)
		if honoured > 1 {
			ev.Violate("nonce-store-fault:"+driver+":request-honoured-more-than-once:"+ep.Method, map[string]interface{}{"times_honoured": honoured, "answers": errs, "nonce_store_calls_failed": failed, "index": idx})
		}
	}
}

// c04SameIdentityContention (C04): many correctly signed fresh requests of one
// identity are verified at the same moment (a reconnecting agent with
// requests in flight, a retry racing the first attempt). The only reason the
// verification step may refuse one of them is that a higher nonce of that
// identity got in first; the request with the highest nonce of all is
// therefore always accepted.
func c04SameIdentityContention(ev *vlib.Evidence, driver string, idx int) {
	lw, err := authWorld(driver, idx)
	if err != nil {
		ev.Inconclusive(fmt.Sprintf("c04 contention setup: %v", err))
		return
	}
	w := lw.w
	defer w.Close()
	r := vlib.Rand("C04-contention-"+driver, idx)
	method := vlib.Pick(r, "pool_addNode", "vipnode_connect", "vipnode_update")
	key, identity := lw.clients[0], lw.clients[0].NodeID
	var args []interface{}
	switch method {
	case "pool_addNode":
		key, identity = lw.wallets[0], lw.wallets[0].Wallet
		args = []interface{}{lw.hosts[0].NodeID}
	case "vipnode_connect":
		args = []interface{}{vlib.ConnectReq(false, "geth", "", "")}
	default:
		args = []interface{}{pool.UpdateRequest{}}
	}
	const G, per = 16, 12
	base := w.NextNonce(identity)
	type res struct {
		nonce int64
		err   error
	}
	results := make([][]res, G)
	var wg sync.WaitGroup
	start := make(chan struct{})
	for g := 0; g < G; g++ {
		wg.Add(1)
		go func(g int) {
			defer wg.Done()
			<-start
			for k := 0; k < per; k++ {
				n := base + int64(k*G+g+1)
				out := guardedCall(w.Local, method, append([]interface{}{vlib.RefSign(key.Key, method, identity, n, args...), identity, n}, args...)...)
				var e error
				if out.Verify {
					e = out.Err
				}
				if out.Panic != "" {
					e = fmt.Errorf("panic: %s", out.Panic)
				}
				results[g] = append(results[g], res{n, e})
			}
		}(g)
	}
	close(start)
	wg.Wait()
	highest := base + int64((per-1)*G+G)
	accepted, refused := 0, 0
	ev.Case(fmt.Sprintf("same-identity-contention/%s/%s/%d", driver, method, idx), true)
	for g := range results {
		for _, x := range results[g] {
			if x.err == nil {
				accepted++
				continue
			}
			refused++
			detail := map[string]interface{}{"driver": driver, "endpoint": method, "nonce_offset": x.nonce - base, "highest_offset": highest - base, "err": x.err.Error(), "index": idx}
			switch {
			case x.nonce == highest:
				ev.Violate("valid-request-refused:"+method+":highest-nonce-under-contention", detail)
			case !strings.Contains(x.err.Error(), store.ErrInvalidNonce.Error()):
				ev.Violate("valid-request-refused:"+method+":not-for-its-nonce-under-contention", detail)
			}
		}
	}
	ev.Count("contended-valid-requests", int64(accepted+refused))
	ev.Count("contended-valid-requests-overtaken", int64(refused))
}

// c06ReplayAfterContention (C06): several valid requests of one identity are
// in flight at once (transaction conflicts on its nonce record in the
// persistent store); afterwards each of them is replayed. Every replay is a
// stale request: it must be refused and leave no trace.
func c06ReplayAfterContention(ev *vlib.Evidence, driver string, idx int) {
	lw, err := authWorld(driver, idx)
	if err != nil {
		return
	}
	w := lw.w
	defer w.Close()
	r := vlib.Rand("C06-contention-"+driver, idx)
	method := vlib.Pick(r, "vipnode_update", "pool_addNode", "vipnode_connect")
	key, identity := lw.clients[0], lw.clients[0].NodeID
	var args []interface{}
	switch method {
	case "pool_addNode":
		key, identity = lw.wallets[0], lw.wallets[0].Wallet
		args = []interface{}{lw.hosts[0].NodeID}
	case "vipnode_connect":
		args = []interface{}{vlib.ConnectReq(false, "geth", "", "")}
	default:
		args = []interface{}{pool.UpdateRequest{}}
	}
	attacker := vlib.NewIdentity("c06attacker", idx)
	universe := append(append([]string{}, lw.universe...), attacker.NodeID)
	rounds := 15
	for round := 0; round < rounds; round++ {
		const G = 4
		base := w.NextNonce(identity)
		params := make([][]interface{}, G)
		for g := 0; g < G; g++ {
			n := base + int64(g+1)
			params[g] = append([]interface{}{vlib.RefSign(key.Key, method, identity, n, args...), identity, n}, args...)
		}
		var wg sync.WaitGroup
		start := make(chan struct{})
		for g := 0; g < G; g++ {
			wg.Add(1)
			go func(g int) {
				defer wg.Done()
				<-start
				guardedCall(w.Local, method, params[g]...)
			}(g)
		}
		close(start)
		wg.Wait()
		before := w.Digest(universe, lw.accounts)
		for g := 0; g < G; g++ {
			out := guardedCall(w.Local, method, params[g]...)
			ev.Count("replays-after-contention", 1)
			if !out.Verify || out.Panic != "" {
				ev.Violate(fmt.Sprintf("not-refused:%s:replay-after-concurrent-requests", method), map[string]interface{}{"driver": driver, "round": round, "nonce_offset": g + 1, "in_flight_together": G, "err": fmt.Sprint(out.Err), "panic": out.Panic, "index": idx})
				return
			}
		}
		if after := w.Digest(universe, lw.accounts); after != before {
			ev.Violate(fmt.Sprintf("refused-request-left-trace:%s:replay-after-concurrent-requests", method), map[string]interface{}{"driver": driver, "round": round, "diff": diffLines(before, after), "index": idx})
			return
		}
	}
	ev.Case(fmt.Sprintf("replay-after-contention/%s/%s/%d", driver, method, idx), true)
}

// c08PeersReadFails (C08): the pool cannot read the requester's peer list
// while it answers a peer request. Whatever it answers, a host the requester
// already peers with is neither returned nor told to whitelist it again.
func c08PeersReadFails(ev *vlib.Evidence, driver string, idx int) {
	r := vlib.Rand("C08-readfault-"+driver, idx)
	var chaos *vlib.Chaos
	w, err := vlib.NewWorld(vlib.WorldOptions{Driver: driver,
		WrapStore: func(s store.Store) store.Store { chaos = vlib.NewChaos(s, int64(idx)); return chaos }})
	if err != nil {
		panic(err)
	}
	defer w.Close()
	nh := 1 + r.Intn(5)
	hosts := []*vlib.Identity{}
	for i := 0; i < nh; i++ {
		h := vlib.NewIdentity("c08fhost", i)
		if _, err := w.ConnectHost(h, "geth", fmt.Sprintf("192.0.2.%d:30303", i+1)); err != nil {
			ev.Inconclusive(fmt.Sprintf("c08 read-fault setup: %v", err))
			return
		}
		hosts = append(hosts, h)
	}
	requester := vlib.NewIdentity("c08freq", idx%5)
	rc, err := w.ConnectClient(requester, "geth", "192.0.2.200:30303")
	if err != nil {
		ev.Inconclusive(fmt.Sprintf("c08 read-fault setup: %v", err))
		return
	}
	peered := map[string]bool{}
	infos := []ethnode.PeerInfo{}
	for i, h := range hosts {
		if i == 0 || r.Intn(2) == 0 {
			peered[h.NodeID] = true
			infos = append(infos, ethnode.PeerInfo{ID: h.NodeID})
		}
	}
	if _, err := w.Update(rc.AgentSide, requester, infos, 1); err != nil {
		ev.Inconclusive(fmt.Sprintf("c08 read-fault setup: %v", err))
		return
	}
	method := vlib.Pick(r, "vipnode_peer", "vipnode_peer", "vipnode_client")
	var arg interface{} = pool.PeerRequest{Num: nh, Kind: vlib.Pick(r, "", "geth")}
	if method == "vipnode_client" {
		arg = pool.ClientRequest{NumHosts: nh, Kind: "geth"}
	}
	ask := func() (callOutcome, []store.Node, map[string]int) {
		stamp := w.Tick()
		n := w.NextNonce(requester.NodeID)
		out := guardedCall(rc.AgentSide, method, vlib.RefSign(requester.Key, method, requester.NodeID, n, arg), requester.NodeID, n, arg)
		wl := map[string]int{}
		for _, e := range w.EventsSince(stamp) {
			if e.Method == "whitelist" && strings.EqualFold(e.Arg, requester.NodeID) {
				wl[e.Host]++
			}
		}
		return out, c08Result(out), wl
	}
	failOp := vlib.Pick(r, "NodePeers", "NodePeers", "NodePeers+ActiveHosts")
	chaos.ResetCalls()
	chaos.Fail = func(op string, n int) bool {
		return op == "NodePeers" || (failOp != "NodePeers" && op == "ActiveHosts" && n == 1)
	}
	out, got, wl := ask()
	failedReads := chaos.Calls("NodePeers")
	chaos.Fail = nil
	ev.Case(fmt.Sprintf("peers-read-fails/%s/%s/hosts=%d/peered=%d/%s", driver, method, nh, len(peered), failOp), failedReads > 0)
	ev.Count("peer-requests-while-peer-list-unreadable", 1)
	detail := map[string]interface{}{"driver": driver, "method": method, "hosts": nh, "already_peered": len(peered), "failing": failOp, "err": fmt.Sprint(out.Err), "index": idx}
	if out.Panic != "" {
		detail["panic"] = out.Panic
		ev.Violate("panic:peers-read-fails", detail)
		return
	}
	for _, n := range got {
		if peered[string(n.ID)] {
			ev.Violate("returned-already-peered-host:peers-read-fails", detail)
			return
		}
	}
	for h := range wl {
		if peered[h] {
			ev.Violate("already-peered-host-told-to-whitelist:peers-read-fails", detail)
			return
		}
	}
	// the store recovers: exactly the other hosts
	out, got, _ = ask()
	want := nh - len(peered)
	for _, n := range got {
		if peered[string(n.ID)] {
			ev.Violate("returned-already-peered-host", detail)
			return
		}
	}
	if len(got) > want {
		detail["err_after_recovery"] = fmt.Sprint(out.Err)
		detail["returned"], detail["eligible"] = len(got), want
		ev.Violate("more-hosts-than-eligible-after-recovery:peers-read-fails", detail)
	}
}

// c09SlowHostStaysRegistered (C09): a host is slow to answer a whitelist
// instruction, or the request that set it off is given up while the
// instruction is in flight. Nothing closed: the host is still counted, and it
// is instructed again by the next peer request.
func c09SlowHostStaysRegistered(ev *vlib.Evidence, driver string, idx int) {
	r := vlib.Rand("C09-slow-"+driver, idx)
	w, err := vlib.NewWorld(vlib.WorldOptions{Driver: driver})
	if err != nil {
		panic(err)
	}
	defer w.Close()
	nh := 1 + r.Intn(3)
	hosts := []*vlib.Identity{}
	conns := []*vlib.Conn{}
	for i := 0; i < nh; i++ {
		h := vlib.NewIdentity("c09slowhost", i)
		c, err := w.ConnectHost(h, "geth", fmt.Sprintf("192.0.2.%d:30303", i+1))
		if err != nil {
			ev.Inconclusive(fmt.Sprintf("c09 slow-host setup: %v", err))
			return
		}
		hosts, conns = append(hosts, h), append(conns, c)
	}
	slow := r.Intn(nh)
	mode := vlib.Pick(r, "request-given-up", "request-given-up", "host-error-reply")
	delay := time.Duration(300+r.Intn(300)) * time.Millisecond
	if mode == "host-error-reply" {
		conns[slow].Rec.SetBehaviour(vlib.BehError, 0)
	} else {
		conns[slow].Rec.SetBehaviour(vlib.BehDelay, delay)
	}
	client := vlib.NewIdentity("c09slowclient", idx%5)
	if _, err := w.ConnectClient(client, "geth", "192.0.2.200:30303"); err != nil {
		ev.Inconclusive(fmt.Sprintf("c09 slow-host setup: %v", err))
		return
	}
	arg := pool.PeerRequest{Num: nh, Kind: "geth"}
	n := w.NextNonce(client.NodeID)
	ctx, cancel := context.WithTimeout(context.Background(), time.Duration(40+r.Intn(80))*time.Millisecond)
	var raw json.RawMessage
	ferr := w.Local.Call(ctx, &raw, "vipnode_peer", vlib.RefSign(client.Key, "vipnode_peer", client.NodeID, n, arg), client.NodeID, n, arg)
	cancel()
	time.Sleep(delay + 100*time.Millisecond) // the slow answer has arrived by now, nothing is in flight
	ev.Case(fmt.Sprintf("slow-host/%s/hosts=%d/%s", driver, nh, mode), true)
	ev.Count("peer-requests-with-a-slow-or-failing-host", 1)
	detail := map[string]interface{}{"driver": driver, "hosts": nh, "mode": mode, "first_request": fmt.Sprint(ferr), "index": idx}
	if got := w.Pool.NumRemotes(); got != nh {
		detail["counted"], detail["open_registered_connections"] = got, nh
		ev.Violate("count-of-connected-hosts-wrong:after-slow-whitelist", detail)
		return
	}
	conns[slow].Rec.SetBehaviour(vlib.BehAck, 0)
	// a second client (not yet peered with anyone): every host is instructed and returned
	client2 := vlib.NewIdentity("c09slowclient2", idx%5)
	if _, err := w.ConnectClient(client2, "geth", "192.0.2.201:30303"); err != nil {
		ev.Inconclusive(fmt.Sprintf("c09 slow-host setup: %v", err))
		return
	}
	stamp := w.Tick()
	n2 := w.NextNonce(client2.NodeID)
	out := guardedCall(w.Local, "vipnode_peer", vlib.RefSign(client2.Key, "vipnode_peer", client2.NodeID, n2, arg), client2.NodeID, n2, arg)
	instructed := false
	for _, e := range w.EventsSince(stamp) {
		if e.Method == "whitelist" && e.Host == hosts[slow].NodeID {
			instructed = true
		}
	}
	if !instructed {
		detail["second_request"] = fmt.Sprint(out.Err)
		ev.Violate("open-host-not-instructed:after-slow-whitelist", detail)
	}
}

// c10InactiveRace (C10): keep-alives of one client that lists a host whose
// check-ins have stopped run concurrently with each other and with writes to
// the host's record (transaction conflicts on the persistent store). Every
// answer must be one a one-at-a-time ordering could give: the expired peers
// it names are distinct and were named in the request.
func c10InactiveRace(ev *vlib.Evidence, driver string, s store.Store, idx int) {
	r := vlib.Rand("C10-inactive-"+driver, idx)
	client := store.NodeID(fmt.Sprintf("ir-client-%d", idx))
	nh := 1 + r.Intn(3)
	hosts := []string{}
	stale := time.Now().Add(-time.Hour)
	for i := 0; i < nh; i++ {
		h := store.NodeID(fmt.Sprintf("ir-host-%d-%d", idx, i))
		s.SetNode(store.Node{ID: h, IsHost: true, Kind: "geth", LastSeen: stale})
		hosts = append(hosts, string(h))
	}
	s.SetNode(store.Node{ID: client, LastSeen: time.Now()})
	var wg sync.WaitGroup
	stop := make(chan struct{})
	wg.Add(1)
	go func() {
		defer wg.Done()
		for k := 0; ; k++ {
			select {
			case <-stop:
				return
			default:
			}
			s.SetNode(store.Node{ID: store.NodeID(hosts[k%nh]), IsHost: true, Kind: "geth", LastSeen: stale, NodeVersion: fmt.Sprint(k)})
		}
	}()
	type bad struct {
		Answer []string
		Why    string
	}
	var mu sync.Mutex
	var first *bad
	answers := 0
	var uwg sync.WaitGroup
	for g := 0; g < 6; g++ {
		uwg.Add(1)
		go func(g int) {
			defer uwg.Done()
			for k := 0; k < 12; k++ {
				inactive, err := s.UpdateNodePeers(client, hosts, uint64(k))
				if err != nil {
					continue
				}
				seen := map[string]bool{}
				why := ""
				names := []string{}
				for _, n := range inactive {
					id := string(n)
					names = append(names, id)
					if seen[id] {
						why = "names a peer twice"
					}
					seen[id] = true
					known := false
					for _, h := range hosts {
						known = known || h == id
					}
					if !known {
						why = "names a peer that was not reported"
					}
				}
				mu.Lock()
				answers++
				if why != "" && first == nil {
					first = &bad{names, why}
				}
				mu.Unlock()
			}
		}(g)
	}
	uwg.Wait()
	close(stop)
	wg.Wait()
	ev.Case(fmt.Sprintf("inactive-race %s idx=%d hosts=%d", driver, idx, nh), true)
	ev.Count("inactive-race-answers", int64(answers))
	if first != nil {
		ev.Defer("inactive-race:"+driver+":answer-no-serial-order-gives", map[string]interface{}{"answer": first.Answer, "why": first.Why, "reported_peers": hosts})
	}
}

// c10UpdatesWhileCreditsFail (C10): clients update concurrently against
// shared hosts while some of the host credits cannot be written. No charge may
// be made for a credit that was not written: at quiescence the balances still
// add up to zero, as they would after the same requests one at a time.
func c10UpdatesWhileCreditsFail(ev *vlib.Evidence, driver string, idx int) {
	r := vlib.Rand("C10-creditfault-"+driver, idx)
	var chaos *vlib.Chaos
	w, err := vlib.NewWorld(vlib.WorldOptions{Driver: driver, Price: big.NewInt(1000), Interval: time.Minute,
		WrapStore: func(s store.Store) store.Store { chaos = vlib.NewChaos(s, int64(idx)); return chaos }})
	if err != nil {
		panic(err)
	}
	defer w.Close()
	nh, nc := 2+r.Intn(2), 3+r.Intn(6)
	ids := []string{}
	infos := []ethnode.PeerInfo{}
	for i := 0; i < nh; i++ {
		h := vlib.NewIdentity("c10fhost", i)
		if _, err := w.ConnectHost(h, "geth", fmt.Sprintf("192.0.2.%d:1", i+1)); err != nil {
			ev.Inconclusive(fmt.Sprintf("c10 credit-fault setup: %v", err))
			return
		}
		ids = append(ids, h.NodeID)
		infos = append(infos, ethnode.PeerInfo{ID: h.NodeID})
	}
	clients := []*vlib.Identity{}
	for i := 0; i < nc; i++ {
		c := vlib.NewIdentity("c10fclient", i)
		var resp pool.ConnectResponse
		if err := w.Signed(w.Local, c, c.NodeID, "vipnode_connect", &resp, vlib.ConnectReq(false, "geth", "", "")); err != nil {
			ev.Inconclusive(fmt.Sprintf("c10 credit-fault setup: %v", err))
			return
		}
		clients = append(clients, c)
		ids = append(ids, c.NodeID)
	}
	w.Clock.Set(time.Now().Add(30 * time.Minute))
	every := 2 + r.Intn(3)
	var failedCredits int64
	chaos.FailCall = func(op, key, arg string, n int) bool {
		// only credits (positive amounts) fail: the charge and a refund go through
		if op == "AddNodeBalance" && !strings.HasPrefix(arg, "-") && n%every == 0 {
			atomic.AddInt64(&failedCredits, 1)
			return true
		}
		return false
	}
	var wg sync.WaitGroup
	rounds := 2 + r.Intn(3)
	for _, c := range clients {
		wg.Add(1)
		go func(c *vlib.Identity) {
			defer wg.Done()
			for k := 0; k < rounds; k++ {
				w.Update(w.Local, c, infos, uint64(k))
			}
		}(c)
	}
	wg.Wait()
	chaos.FailCall = nil
	sum := new(big.Int)
	for _, id := range ids {
		b, err := w.RawStore.GetNodeBalance(store.NodeID(id))
		if err != nil {
			continue
		}
		sum.Add(sum, &b.Credit)
	}
	ev.Case(fmt.Sprintf("updates-while-credits-fail %s idx=%d clients=%d hosts=%d", driver, idx, nc, nh), failedCredits > 0)
	ev.Count("host-credits-failed-during-concurrent-updates", failedCredits)
	if sum.Sign() != 0 {
		ev.Defer("pool:"+driver+":charged-for-credit-that-was-not-written", map[string]interface{}{"sum_of_balances": sum.String(), "failed_credits": failedCredits, "clients": nc, "hosts": nh, "updates_per_client": rounds})
	}
}

// c11PeerRecordUnreadable (C11): the stored record of a reported peer cannot
// be read (a damaged value) at a keep-alive of its observer, after the peer
// itself kept checking in. A peer that keeps checking in and keeps being
// reported is never declared invalid: the keep-alive may fail, but it may not
// name the peer, and the peer is still tracked once the record is readable.
func c11PeerRecordUnreadable(ev *vlib.Evidence, idx int) {
	dir, err := os.MkdirTemp("", "verif-c11-unreadable-")
	if err != nil {
		ev.Inconclusive("tempdir")
		return
	}
	defer os.RemoveAll(dir)
	open := func() store.Store {
		s, err := badger.Open(vlib.BadgerDiskOptions(dir))
		if err != nil {
			return nil
		}
		return s
	}
	s := open()
	if s == nil {
		ev.Inconclusive("open")
		return
	}
	a := store.NodeID(fmt.Sprintf("c11u-observer-%d", idx))
	b := store.NodeID(fmt.Sprintf("c11u-peer-%d", idx))
	other := store.NodeID(fmt.Sprintf("c11u-other-%d", idx))
	margin := 1500 * time.Millisecond
	t0 := time.Now()
	s.SetNode(store.Node{ID: a, LastSeen: t0})
	s.SetNode(store.Node{ID: other, IsHost: true, LastSeen: t0})
	s.SetNode(store.Node{ID: b, IsHost: true, LastSeen: t0.Add(-store.ExpireInterval + margin)})
	if inactive, err := s.UpdateNodePeers(a, []string{string(b), string(other)}, 1); err != nil || len(inactive) != 0 || time.Since(t0) > margin/2 {
		s.Close()
		ev.Inconclusive("c11 unreadable-record: first keep-alive too slow or refused")
		return
	}
	time.Sleep(margin + 500*time.Millisecond)
	// the peer checks in itself
	if _, err := s.UpdateNodePeers(b, nil, 2); err != nil {
		s.Close()
		ev.Inconclusive("c11 unreadable-record: peer check-in failed")
		return
	}
	s.Close()
	key := []byte(fmt.Sprintf("vip:node:%s", b))
	var saved []byte
	raw := func(fn func(txn *badgerdb.Txn) error) bool {
		db, err := badgerdb.Open(vlib.BadgerDiskOptions(dir))
		if err != nil {
			return false
		}
		defer db.Close()
		return db.Update(fn) == nil
	}
	if !raw(func(txn *badgerdb.Txn) error {
		item, err := txn.Get(key)
		if err != nil {
			return err
		}
		if saved, err = item.ValueCopy(nil); err != nil {
			return err
		}
		return txn.Set(key, []byte{0xff, 0x00, 0xff})
	}) {
		ev.Inconclusive("c11 unreadable-record: could not damage the record")
		return
	}
	if s = open(); s == nil {
		ev.Inconclusive("reopen")
		return
	}
	inactive, uerr := s.UpdateNodePeers(a, []string{string(b), string(other)}, 3)
	s.Close()
	ev.Case(fmt.Sprintf("peer-record-unreadable idx=%d", idx), true)
	ev.Count("keep-alives-with-an-unreadable-peer-record", 1)
	detail := map[string]interface{}{"keep_alive_error": fmt.Sprint(uerr), "declared_invalid": fmt.Sprint(inactive), "index": idx}
	for _, n := range inactive {
		if n == b && uerr == nil {
			ev.Violate("unreadable-record:live-reported-peer-declared-invalid", detail)
			return
		}
	}
	if !raw(func(txn *badgerdb.Txn) error { return txn.Set(key, saved) }) {
		ev.Inconclusive("c11 unreadable-record: could not restore the record")
		return
	}
	if s = open(); s == nil {
		ev.Inconclusive("reopen")
		return
	}
	defer s.Close()
	peers, perr := s.NodePeers(a)
	tracked := false
	for _, p := range peers {
		tracked = tracked || p.ID == b
	}
	if time.Since(t0) > 60*time.Second {
		ev.Inconclusive("c11 unreadable-record: the scenario took so long that check-ins may have expired on their own")
		return
	}
	inactive2, uerr2 := s.UpdateNodePeers(a, []string{string(b), string(other)}, 4)
	detail["tracked_after_restore"], detail["peers_error"] = tracked, fmt.Sprint(perr)
	detail["next_keep_alive"] = fmt.Sprintf("invalid=%v err=%v", inactive2, uerr2)
	switch {
	case perr == nil && !tracked:
		ev.Violate("unreadable-record:live-reported-peer-no-longer-tracked", detail)
	case uerr2 == nil && len(inactive2) != 0:
		ev.Violate("unreadable-record:live-reported-peer-declared-invalid-later", detail)
	}
}

// c12LinkUnderLoad (C12): a node that holds trial credit is linked to a wallet
// while its own keep-alives and registrations are in flight and a dashboard
// keeps reading the statistics. On either driver the trial credit moves to
// the wallet exactly once, and every statistics reading adds up to the credit
// that exists (a reading never counts the credit on both sides of the link).
func c12LinkUnderLoad(ev *vlib.Evidence, idx int) {
	r := vlib.Rand("C12-link-load", idx)
	trial := big.NewInt(int64(100 + r.Intn(100000)))
	nodes := 8 + r.Intn(8)
	outcome := map[string]string{}
	for _, driver := range vlib.Drivers() {
		s, cleanup, err := vlib.OpenStore(driver)
		if err != nil {
			panic(err)
		}
		want := new(big.Int).Mul(trial, big.NewInt(int64(nodes)))
		ids := []store.NodeID{}
		for k := 0; k < nodes; k++ {
			id := store.NodeID(fmt.Sprintf("c12l-node-%d-%d", idx, k))
			s.SetNode(store.Node{ID: id, LastSeen: time.Now()})
			s.AddNodeBalance(id, trial)
			ids = append(ids, id)
		}
		stop := make(chan struct{})
		var bg sync.WaitGroup
		var badReading string
		var readings int64
		bg.Add(1)
		go func() {
			defer bg.Done()
			for {
				select {
				case <-stop:
					return
				default:
				}
				st, err := s.Stats()
				if err != nil {
					continue
				}
				readings++
				if st.TotalCredit.Cmp(want) != 0 && badReading == "" {
					badReading = fmt.Sprintf("total_credit=%s num_trial_balances=%d", &st.TotalCredit, st.NumTrialBalances)
				}
			}
		}()
		for g := 0; g < 3; g++ {
			bg.Add(1)
			go func(g int) {
				defer bg.Done()
				for k := 0; ; k++ {
					select {
					case <-stop:
						return
					default:
					}
					id := ids[k%nodes]
					if g == 0 {
						s.SetNode(store.Node{ID: id, LastSeen: time.Now(), NodeVersion: fmt.Sprint(k)})
					} else {
						s.UpdateNodePeers(id, nil, uint64(k))
					}
				}
			}(g)
		}
		linkErrs := 0
		for k, id := range ids {
			// every node gets a wallet of its own that has no balance record yet
			if err := s.AddAccountNode(store.Account(fmt.Sprintf("0xc12lWallet%d_%d", idx, k)), id); err != nil {
				linkErrs++
			}
		}
		close(stop)
		bg.Wait()
		wrong := []string{}
		for k, id := range ids {
			b, err := s.GetAccountBalance(store.Account(fmt.Sprintf("0xc12lWallet%d_%d", idx, k)))
			nb, nerr := s.GetNodeBalance(id)
			if err != nil || nerr != nil || b.Credit.Cmp(trial) != 0 || nb.Credit.Cmp(trial) != 0 {
				wrong = append(wrong, fmt.Sprintf("node %d: wallet credit %s (err %v), node balance %s (err %v), want %s", k, &b.Credit, err, &nb.Credit, nerr, trial))
			}
		}
		st, _ := s.Stats()
		cleanup()
		ev.Count("link-under-load-statistics-readings:"+driver, readings)
		outcome[driver] = fmt.Sprintf("link_errors=%d wrong=%d total=%s trial_balances=%d", linkErrs, len(wrong), &st.TotalCredit, st.NumTrialBalances)
		detail := map[string]interface{}{"driver": driver, "nodes": nodes, "trial_credit": trial.String(), "index": idx}
		switch {
		case len(wrong) > 0:
			detail["wrong"] = wrong
			ev.Violate("link-under-load:"+driver+":trial-credit-not-migrated-exactly-once", detail)
		case st.TotalCredit.Cmp(want) != 0 || st.NumTrialBalances != 0:
			detail["stats"] = outcome[driver]
			ev.Violate("link-under-load:"+driver+":statistics-differ-from-true-sums", detail)
		case badReading != "":
			detail["reading"], detail["true_total"] = badReading, want.String()
			ev.Violate("link-under-load:"+driver+":statistics-reading-differs-from-true-sum", detail)
		}
	}
	ev.Case(fmt.Sprintf("link-under-load idx=%d nodes=%d", idx, nodes), true)
	if outcome[vlib.DriverMemory] != outcome[vlib.DriverBadgerMem] {
		ev.Violate("link-under-load:drivers-differ", outcome)
	}
}

// replyFailCodec fails chosen reply writes on the serving side (a transient
// write error: nothing reaches the wire), everything else passes through.
type replyFailCodec struct {
	jsonrpc2.Codec
	mu      sync.Mutex
	failIDs map[string]int // "*" -> reply writes still to fail
	failed  int
}

func (c *replyFailCodec) WriteMessage(m *jsonrpc2.Message) error {
	if m != nil && m.Response != nil && m.Request == nil {
		c.mu.Lock()
		left := c.failIDs["*"]
		if left > 0 {
			c.failIDs["*"] = left - 1
			c.failed++
		}
		c.mu.Unlock()
		if left > 0 {
			return fmt.Errorf("write tcp: i/o timeout (injected)")
		}
	}
	return c.Codec.WriteMessage(m)
}

// c14ReplyWriteFails (C14): writing the reply of an incoming request fails on
// the serving side. The request was handled: it is not handled again, and
// other calls on the connection keep getting their own replies.
func c14ReplyWriteFails(ev *vlib.Evidence, idx int) {
	r := vlib.Rand("C14-replywrite", idx)
	c1, c2 := net.Pipe()
	fc := &replyFailCodec{Codec: jsonrpc2.IOCodec(c2), failIDs: map[string]int{}}
	p := newC14Pair(jsonrpc2.IOCodec(c1), fc, 0, 0)
	defer c1.Close()
	defer c2.Close()
	// calls are made one after the other; before every k-th one the codec is armed to fail the next reply write(s)
	victimEvery := 2 + r.Intn(3)
	calls := 6 + r.Intn(10)
	type one struct {
		token string
		err   error
		rep   EchoReply
	}
	outs := make([]one, calls)
	lost := map[string]bool{}
	for k := 0; k < calls; k++ {
		token := fmt.Sprintf("rw%d-%d", idx, k)
		outs[k].token = token
		victim := k%victimEvery == 0
		ctx, cancel := context.WithTimeout(context.Background(), 20*time.Second)
		if victim {
			lost[token] = true
			cancel()
			ctx, cancel = context.WithTimeout(context.Background(), time.Duration(150+r.Intn(150))*time.Millisecond)
			armNextReply(fc, 1+r.Intn(2))
		}
		outs[k].err = p.a.Call(ctx, &outs[k].rep, "echo_echo", token, 0)
		cancel()
		if victim {
			time.Sleep(20 * time.Millisecond) // a repeated handling, if any, has happened by now
			armNextReply(fc, 0)
		}
	}
	fc.mu.Lock()
	failedWrites := fc.failed
	fc.mu.Unlock()
	ev.Case(fmt.Sprintf("reply-write-fails idx=%d calls=%d every=%d", idx, calls, victimEvery), failedWrites > 0)
	ev.Count("reply-writes-failed-on-the-serving-side", int64(failedWrites))
	for _, o := range outs {
		n := p.sb.count(o.token)
		detail := map[string]interface{}{"token": o.token, "handled_times": n, "reply_write_failed": lost[o.token], "err": fmt.Sprint(o.err), "index": idx}
		switch {
		case n > 1:
			ev.Violate("request-handled-more-than-once:reply-write-failed", detail)
			return
		case n == 0 && !lost[o.token]:
			ev.Violate("request-not-handled:reply-write-fails-scenario", detail)
			return
		case !lost[o.token] && (o.err != nil || o.rep.Token != o.token):
			detail["reply_token"] = o.rep.Token
			ev.Violate("call-did-not-get-its-own-reply:after-failed-reply-write", detail)
			return
		case lost[o.token] && o.err == nil && o.rep.Token != o.token:
			detail["reply_token"] = o.rep.Token
			ev.Violate("wrong-reply-delivered:after-failed-reply-write", detail)
			return
		}
	}
}

// armNextReply makes the next n reply writes fail, whatever their id.
func armNextReply(c *replyFailCodec, n int) {
	c.mu.Lock()
	c.failIDs = map[string]int{"*": n}
	c.mu.Unlock()
}

// c15StatusWhileDependenciesFail (C15): the dashboard service is asked for
// the pool status while the things it reads fail in turn (store statistics,
// host list, peer lists, the Ethereum node's total-deposit lookup), with the
// cache expiring between requests. Every request gets a well-formed reply
// (its own id, a result or an error) and nothing panics.
func c15StatusWhileDependenciesFail(ev *vlib.Evidence, driver string, idx int) {
	r := vlib.Rand("C15-statusfault-"+driver, idx)
	lw, err := authWorld(driver, idx)
	if err != nil || lw.chaos == nil {
		ev.Inconclusive(fmt.Sprintf("c15 status-fault setup: %v", err))
		return
	}
	defer lw.w.Close()
	var depositFails int32
	st := &status.PoolStatus{Store: lw.chaos, TimeStarted: time.Now(), Version: "verif", CacheDuration: time.Millisecond,
		GetTotalDeposit: func(ctx context.Context) (*big.Int, error) {
			if atomic.LoadInt32(&depositFails) != 0 {
				return nil, fmt.Errorf("Post \"http://localhost:8545\": dial tcp 127.0.0.1:8545: connect: connection refused")
			}
			return big.NewInt(12345), nil
		}}
	srv := &jsonrpc2.Server{}
	if err := srv.Register("pool_", st); err != nil {
		panic(err)
	}
	steps := 6 + r.Intn(10)
	trace := []string{}
	for k := 0; k < steps; k++ {
		what := vlib.Pick(r, "ok", "ok", "deposit-lookup", "deposit-lookup", "Stats", "ActiveHosts", "NodePeers")
		if k == 0 && r.Intn(2) == 0 {
			what = "ok" // something is cached before the first failure
		}
		atomic.StoreInt32(&depositFails, 0)
		lw.chaos.Fail = nil
		switch what {
		case "ok":
		case "deposit-lookup":
			atomic.StoreInt32(&depositFails, 1)
		default:
			op := what
			lw.chaos.Fail = func(o string, n int) bool { return o == op }
		}
		time.Sleep(2 * time.Millisecond) // the cached reply has expired
		id := fmt.Sprintf("%d", 1000*idx+k)
		req := &jsonrpc2.Message{ID: json.RawMessage(id), Version: "2.0", Request: &jsonrpc2.Request{Method: "pool_status"}}
		var resp *jsonrpc2.Message
		panicked := ""
		func() {
			defer func() {
				if p := recover(); p != nil {
					panicked = fmt.Sprint(p)
				}
			}()
			resp = srv.Handle(context.Background(), req)
		}()
		trace = append(trace, what)
		ev.Count("status-requests-while-dependencies-fail", 1)
		detail := map[string]interface{}{"driver": driver, "failing": what, "requests_so_far": trace, "index": idx}
		switch {
		case panicked != "":
			detail["panic"] = panicked
			ev.Violate("panic:pool_status:"+what+"-fails", detail)
			lw.chaos.Fail = nil
			return
		case resp == nil || string(resp.ID) != id || resp.Response == nil || (resp.Response.Error == nil && len(resp.Response.Result) == 0):
			detail["reply"] = fmt.Sprint(resp)
			ev.Violate("malformed-reply:pool_status:"+what+"-fails", detail)
			lw.chaos.Fail = nil
			return
		}
		if _, err := json.Marshal(resp); err != nil {
			detail["marshal_error"] = err.Error()
			ev.Violate("unencodable-reply:pool_status:"+what+"-fails", detail)
			lw.chaos.Fail = nil
			return
		}
	}
	lw.chaos.Fail = nil
	ev.Case(fmt.Sprintf("status-while-dependencies-fail/%s/%s", driver, strings.Join(trace, ",")), true)
}

// codedError is an error that carries an RPC error code of its own, like the
// errors go-ethereum's rpc client returns for an Ethereum node's error replies.
type codedError struct {
	code int
	msg  string
}

func (e *codedError) Error() string  { return e.msg }
func (e *codedError) ErrorCode() int { return e.code }

// FailingService has registered methods whose work fails underneath them.
type FailingService struct {
	ToyService
}

// Relay fails with the error reply of a nested JSON-RPC call, handed on unwrapped.
func (f *FailingService) Relay(code int) error {
	f.hit("Relay")
	return &jsonrpc2.ErrResponse{Code: code, Message: "method not found: admin_addTrustedPeer"}
}

// Node fails with a coded error of the Ethereum node's RPC client.
func (f *FailingService) Node(ctx context.Context, code int) (string, error) {
	f.hit("Node")
	return "", &codedError{code, "the method admin_addTrustedPeer does not exist/is not available"}
}

// HalfBrokenService cannot be registered: one of its methods has a signature
// the dispatcher does not support.
type HalfBrokenService struct {
	ToyService
}

func (h *HalfBrokenService) Aaa() string           { h.hit("Aaa"); return "a" }
func (h *HalfBrokenService) Drain(s string) error  { h.hit("Drain"); return nil }
func (h *HalfBrokenService) Zzz() (string, int)    { h.hit("Zzz"); return "z", 1 }
func (h *HalfBrokenService) Zzzz() (int, int, int) { h.hit("Zzzz"); return 1, 2, 3 }

// c16FailurePaths (C16): (a) a registered method, called with exactly its
// declared parameters, runs and fails with an error that carries an RPC code
// of its own: the caller is not told the name does not exist, nor that the
// parameters were invalid (which promises the method was not run); (b) a
// registration that is reported as failed exposes nothing.
func c16FailurePaths(ev *vlib.Evidence) {
	fs := &FailingService{}
	srv := &jsonrpc2.Server{}
	if err := srv.Register("f_", fs, "relay", "node"); err != nil {
		panic(err)
	}
	ln, err := net.Listen("tcp", "127.0.0.1:0")
	if err != nil {
		panic(err)
	}
	hsrv := &jsonrpc2.HTTPServer{}
	if err := hsrv.Server.Register("f_", fs, "relay", "node"); err != nil {
		panic(err)
	}
	hs := &http.Server{Handler: hsrv}
	go hs.Serve(ln)
	defer hs.Close()
	c1, c2 := net.Pipe()
	defer c1.Close()
	defer c2.Close()
	serving := &jsonrpc2.Remote{Codec: jsonrpc2.IOCodec(c2), Server: srv, Client: &jsonrpc2.Client{}}
	calling := &jsonrpc2.Remote{Codec: jsonrpc2.IOCodec(c1), Server: &jsonrpc2.Server{}, Client: &jsonrpc2.Client{}}
	go serving.Serve()
	go calling.Serve()
	remoteCaller := func(method, params string) (int, string) {
		var args []interface{}
		json.Unmarshal([]byte(params), &args)
		ctx, cancel := context.WithTimeout(context.Background(), vlib.CallTimeout)
		defer cancel()
		var raw json.RawMessage
		err := calling.Call(ctx, &raw, method, args...)
		if err == nil {
			return 0, ""
		}
		return errCode(err), err.Error()
	}
	callers := map[string]rawCaller{"handle": serverRawCaller(srv), "http": httpRawCaller("http://" + ln.Addr().String() + "/"), "remote": remoteCaller}
	for tname, call := range callers {
		for _, m := range []string{"Relay", "Node"} {
			for _, code := range []int{jsonrpc2.ErrCodeMethodNotFound, jsonrpc2.ErrCodeInvalidParams, -32600, -32700, -32603, -32000, 3} {
				before := fs.count(m)
				got, msg := call("f_"+strings.ToLower(m), fmt.Sprintf("[%d]", code))
				ran := fs.count(m) - before
				ev.Case(fmt.Sprintf("failing-method/%s/%s/code=%d", tname, m, code), true)
				ev.Count("calls-of-registered-methods-that-fail-with-a-coded-error", 1)
				detail := map[string]interface{}{"transport": tname, "method": "f_" + strings.ToLower(m), "error_code_of_the_failure": code, "answer_code": got, "answer": msg, "times_run": ran}
				switch {
				case ran != 1:
					ev.Violate("registered-method-with-declared-params-not-run-once:"+m, detail)
				case got == jsonrpc2.ErrCodeMethodNotFound:
					ev.Violate("registered-name-answered-method-not-found:"+m, detail)
				case got == jsonrpc2.ErrCodeInvalidParams:
					ev.Violate("invalid-params-answer-although-method-ran:"+m, detail)
				case got == 0:
					ev.Violate("failure-answered-as-success:"+m, detail)
				}
			}
		}
	}
	// (c) allow-lists that are as long as (or longer than) the receiver's method set, with stale,
	// duplicate or wrongly-cased entries: still exactly the listed names that exist
	for _, allow := range [][]string{
		{"nope"},
		{"disconnect", "numRemotes"},
		{""},
		{"Alpha"},
		{"alpha", "beta", "gamma", "delta", "nope"},
		{"alpha", "alpha", "beta", "gamma", "delta"},
		{"alpha", "beta", "gamma", "delta", "HelperReset"},
		{"alpha", "beta", "gamma", "delta", "nope1", "nope2", "nope3"},
		{"gamma", "gamma", "gamma", "gamma", "gamma", "gamma"},
	} {
		toy := &ToyService{}
		s3 := &jsonrpc2.Server{}
		if err := s3.Register("al_", toy, allow...); err != nil {
			continue
		}
		listed := map[string]bool{}
		for _, a := range allow {
			listed[a] = true
		}
		call := serverRawCaller(s3)
		for _, m := range []string{"alpha", "beta", "gamma", "delta", "helperReset"} {
			code, msg := call("al_"+m, "[]")
			ev.Case(fmt.Sprintf("long-allow-list/%v/%s", allow, m), true)
			ev.Count("name-probes:long-allow-list", 1)
			if !listed[m] && code != jsonrpc2.ErrCodeMethodNotFound {
				ev.Violate("unlisted-name-callable:allow-list-as-long-as-method-set:"+m, map[string]interface{}{"allow_list": allow, "name": "al_" + m, "code": code, "err": msg})
			}
			if listed[m] && code == jsonrpc2.ErrCodeMethodNotFound {
				ev.Violate("listed-name-not-found:allow-list-as-long-as-method-set:"+m, map[string]interface{}{"allow_list": allow, "name": "al_" + m, "err": msg})
			}
		}
		if toy.count("HelperReset") > 0 {
			ev.Violate("helper-method-ran:allow-list-as-long-as-method-set", map[string]interface{}{"allow_list": allow})
		}
	}
	// (d) a wrongly typed member inside an object or list parameter is a wrongly typed parameter
	{
		toy := &ToyService{}
		s4 := &jsonrpc2.Server{}
		if err := s4.Register("in_", toy, "alpha", "delta"); err != nil {
			panic(err)
		}
		hs4 := &jsonrpc2.HTTPServer{}
		hs4.Server.Register("in_", toy, "alpha", "delta")
		ln4, err := net.Listen("tcp", "127.0.0.1:0")
		if err != nil {
			panic(err)
		}
		srv4 := &http.Server{Handler: hs4}
		go srv4.Serve(ln4)
		defer srv4.Close()
		st, cleanup, serr := vlib.OpenStore(vlib.DriverMemory)
		if serr != nil {
			panic(serr)
		}
		defer cleanup()
		ps := &jsonrpc2.Server{}
		ps.Register("vipnode_", pool.New(st, nil), "connect", "disconnect", "ping", "update", "peer", "client", "host")
		id := vlib.NewIdentity("c16inner", 0)
		for _, pr := range []struct{ target, method, params, ran string }{
			{"toy", "in_alpha", `["x",7,{"a":"s","b":"notanint"}]`, "Alpha"},
			{"toy", "in_alpha", `["x",7,{"a":5,"b":2}]`, "Alpha"},
			{"toy", "in_alpha", `["x",7,{"a":"s","b":2.5}]`, "Alpha"},
			{"toy", "in_alpha", `["x",7,{"a":["s"],"b":2}]`, "Alpha"},
			{"toy", "in_delta", `[{"a":"s","b":true},["x"]]`, "Delta"},
			{"toy", "in_delta", `[{"a":"s","b":2},[1]]`, "Delta"},
			{"toy", "in_delta", `[{"a":"s","b":2},["x",{"y":1}]]`, "Delta"},
			{"pool", "vipnode_update", fmt.Sprintf(`["sig",%q,1,{"block_number":"7"}]`, id.NodeID), ""},
			{"pool", "vipnode_update", fmt.Sprintf(`["sig",%q,1,{"peers":[1,2]}]`, id.NodeID), ""},
			{"pool", "vipnode_update", fmt.Sprintf(`["sig",%q,1,{"peers_info":[{"id":5}]}]`, id.NodeID), ""},
			{"pool", "vipnode_connect", fmt.Sprintf(`["sig",%q,1,{"payout":7}]`, id.NodeID), ""},
			{"pool", "vipnode_connect", fmt.Sprintf(`["sig",%q,1,{"node_info":{"network":"one"}}]`, id.NodeID), ""},
			{"pool", "vipnode_connect", fmt.Sprintf(`["sig",%q,1,{"node_uri":["enode://x"]}]`, id.NodeID), ""},
			{"pool", "vipnode_peer", fmt.Sprintf(`["sig",%q,1,{"num":"3"}]`, id.NodeID), ""},
			{"pool", "vipnode_host", fmt.Sprintf(`["sig",%q,1,{"kind":{"x":1}}]`, id.NodeID), ""},
		} {
			callers := map[string]rawCaller{"handle": serverRawCaller(s4)}
			if pr.target == "pool" {
				callers = map[string]rawCaller{"handle": serverRawCaller(ps)}
			} else {
				callers["http"] = httpRawCaller("http://" + ln4.Addr().String() + "/")
			}
			for tname, call := range callers {
				var before int64
				if pr.ran != "" {
					before = toy.count(pr.ran)
				}
				code, msg := call(pr.method, pr.params)
				ev.Case(fmt.Sprintf("inner-type/%s/%s/%s/%s", pr.target, tname, pr.method, pr.params), true)
				ev.Count("arity-probes:wrongly-typed-member", 1)
				detail := map[string]interface{}{"target": pr.target, "transport": tname, "method": pr.method, "params": pr.params, "code": code, "err": msg}
				if pr.ran != "" && toy.count(pr.ran) != before {
					ev.Violate("method-ran-with-invalid-params:"+pr.target+":"+pr.method+":wrongly-typed-member", detail)
				} else if code != jsonrpc2.ErrCodeInvalidParams {
					ev.Violate(fmt.Sprintf("wrong-error-code:%s:%s:wrongly-typed-member:code=%d", pr.target, pr.method, code), detail)
				}
			}
		}
	}
	// (b) failed registrations
	for _, allow := range [][]string{nil, {"aaa", "drain"}, {"aaa", "drain", "zzz", "zzzz"}} {
		hb := &HalfBrokenService{}
		s2 := &jsonrpc2.Server{}
		// a service that registers fine is there too
		ok := &ToyService{}
		if err := s2.Register("ok_", ok, "gamma"); err != nil {
			panic(err)
		}
		rerr := s2.Register("admin_", hb, allow...)
		ev.Case(fmt.Sprintf("failed-registration/allow=%v/err=%v", allow, rerr != nil), rerr != nil)
		ev.Count("registrations-reported-as-failed", 1)
		if rerr == nil {
			continue // accepted: the ordinary grid covers what it exposes
		}
		call := serverRawCaller(s2)
		for _, n := range []string{"admin_aaa", "admin_drain", "admin_zzz", "admin_zzzz", "admin_hit", "admin_count"} {
			params := "[]"
			if n == "admin_drain" {
				params = `["0xabc"]`
			}
			code, msg := call(n, params)
			ev.Count("name-probes:failed-registration", 1)
			if code != jsonrpc2.ErrCodeMethodNotFound {
				ev.Violate("name-callable-after-failed-registration:"+n, map[string]interface{}{"allow_list": allow, "registration_error": rerr.Error(), "code": code, "err": msg})
			}
		}
		if n := hb.count("Aaa") + hb.count("Drain") + hb.count("Zzz") + hb.count("Zzzz"); n > 0 {
			ev.Violate("method-ran-after-failed-registration", map[string]interface{}{"allow_list": allow, "times": n})
		}
		if code, msg := call("ok_gamma", "[]"); code != 0 {
			ev.Violate("registered-name-not-found:after-another-registration-failed", map[string]interface{}{"code": code, "err": msg})
		}
	}
}

// timeoutErr is what a connection returns when a read deadline passes: the
// connection is fine, the reader may simply read again.
type timeoutErr struct{}

func (timeoutErr) Error() string   { return "read tcp: i/o timeout (injected)" }
func (timeoutErr) Timeout() bool   { return true }
func (timeoutErr) Temporary() bool { return true }

// deadlineReader delivers a byte string in PRNG-sized pieces and, between
// pieces, now and then reports a passed read deadline instead of data.
type deadlineReader struct {
	data     []byte
	r        *rand.Rand
	maxPiece int
	every    int
	reads    int
	timeouts int
}

func (d *deadlineReader) Read(p []byte) (int, error) {
	d.reads++
	if len(d.data) == 0 {
		return 0, io.EOF
	}
	if d.reads > 1 && d.r.Intn(d.every) == 0 {
		d.timeouts++
		return 0, timeoutErr{}
	}
	n := 1 + d.r.Intn(d.maxPiece)
	if n > len(d.data) {
		n = len(d.data)
	}
	if n > len(p) {
		n = len(p)
	}
	copy(p, d.data[:n])
	d.data = d.data[n:]
	return n, nil
}

// c17ReadDeadlines (C17): the reader of a stream codec polls with a read
// deadline, so reads fail with a timeout in the middle of messages that arrive
// in pieces, and the reader reads again. Every message written is still read
// exactly once, unmodified, in order.
func c17ReadDeadlines(ev *vlib.Evidence, idx int) {
	r := vlib.Rand("C17-deadline", idx)
	n := 1 + r.Intn(10)
	maxPiece := vlib.Pick(r, 1, 7, 64, 1000, 5000)
	maxSize := 40 * maxPiece // a reader that starts over after each timeout re-parses what it has: keep that bounded
	if maxSize > 20000 {
		maxSize = 20000
	}
	var wire bytes.Buffer
	wc := jsonrpc2.IOCodec(rwcT{strings.NewReader(""), &wire, io.NopCloser(nil)})
	written := []string{}
	for i := 0; i < n; i++ {
		m := genMessage(r, 0, i, maxSize)
		wc.WriteMessage(m)
		written = append(written, canon(m))
	}
	dr := &deadlineReader{data: wire.Bytes(), r: r, maxPiece: maxPiece, every: vlib.Pick(r, 2, 3, 8, 50)}
	rc := jsonrpc2.IOCodec(rwcT{dr, io.Discard, io.NopCloser(nil)})
	kept := []*jsonrpc2.Message{}
	var rerr error
	for attempts := 0; len(kept) < n && attempts < 10000000; attempts++ {
		m, err := rc.ReadMessage()
		if err != nil {
			if _, ok := err.(timeoutErr); ok {
				continue // the deadline passed: read again
			}
			rerr = err
			break
		}
		kept = append(kept, m)
	}
	read := []string{}
	for _, m := range kept {
		read = append(read, canon(m))
	}
	desc := fmt.Sprintf("stream read-deadlines messages=%d max-piece=%d timeout-every=%d timeouts=%d", n, dr.maxPiece, dr.every, dr.timeouts)
	ev.Case(desc+fmt.Sprint(idx), dr.timeouts > 0)
	ev.Count("messages:stream-with-read-deadlines", int64(len(read)))
	ev.Count("read-deadlines-passed-mid-stream", int64(dr.timeouts))
	if p := compareSeq(written, read); p != "" || rerr != nil {
		ev.Violate("stream:"+classifyC17(p, rerr)+":read-deadline-mid-message", map[string]interface{}{"case": desc, "index": idx, "problem": p, "err": fmt.Sprint(rerr)})
	}
}

// DeliverService counts what the HTTP server side handled.
type DeliverService struct {
	mu     sync.Mutex
	counts map[string]int
}

func (d *DeliverService) Deliver(token string) (string, error) {
	d.mu.Lock()
	d.counts[token]++
	d.mu.Unlock()
	return token, nil
}

// c17HTTPReplyLost (C17): over HTTP, the reply of a message is lost after the
// server has read and handled it (the connection drops, or the reply is slower
// than the client's own timeout). One message written is still read by the
// other side once, not twice.
func c17HTTPReplyLost(ev *vlib.Evidence, idx int) {
	r := vlib.Rand("C17-http-replylost", idx)
	ds := &DeliverService{counts: map[string]int{}}
	inner := &jsonrpc2.HTTPServer{}
	if err := inner.Server.RegisterMethod("deliver", ds, "Deliver"); err != nil {
		panic(err)
	}
	var mu sync.Mutex
	lose := map[string]string{} // token -> how the reply is lost
	reads := map[string]int{}   // token -> requests carrying it that reached the server
	handler := http.HandlerFunc(func(w http.ResponseWriter, req *http.Request) {
		body, _ := io.ReadAll(req.Body)
		how := ""
		mu.Lock()
		for tok, h := range lose {
			if bytes.Contains(body, []byte(`"`+tok+`"`)) {
				reads[tok]++
				if reads[tok] == 1 {
					how = h
				}
			}
		}
		mu.Unlock()
		req.Body = io.NopCloser(bytes.NewReader(body))
		switch how {
		case "":
			inner.ServeHTTP(w, req)
		case "connection-dropped":
			inner.ServeHTTP(httptest.NewRecorder(), req) // read and handled ...
			if hj, ok := w.(http.Hijacker); ok {
				if c, _, err := hj.Hijack(); err == nil {
					c.Close() // ... and the reply never makes it
				}
			}
		case "reply-slower-than-client-timeout":
			inner.ServeHTTP(httptest.NewRecorder(), req)
			time.Sleep(600 * time.Millisecond)
			inner.ServeHTTP(w, httptest.NewRequest("POST", "/", strings.NewReader(`{"jsonrpc":"2.0","id":0,"method":"nope"}`)))
		}
	})
	ln, err := net.Listen("tcp", "127.0.0.1:0")
	if err != nil {
		panic(err)
	}
	hs := &http.Server{Handler: handler}
	go hs.Serve(ln)
	defer hs.Close()
	svc := &jsonrpc2.HTTPService{Endpoint: "http://" + ln.Addr().String() + "/"}
	n := 4 + r.Intn(8)
	lost := 0
	for k := 0; k < n; k++ {
		tok := fmt.Sprintf("hl%d-%d", idx, k)
		how := ""
		if k > 0 && r.Intn(3) == 0 {
			how = vlib.Pick(r, "connection-dropped", "connection-dropped", "reply-slower-than-client-timeout")
			lost++
		}
		mu.Lock()
		lose[tok] = how
		mu.Unlock()
		ctx, cancel := context.WithTimeout(context.Background(), 20*time.Second)
		var got string
		svc.HTTPClient.Timeout = 30 * time.Second
		if how == "reply-slower-than-client-timeout" {
			svc.HTTPClient.Timeout = 150 * time.Millisecond // the server holds this reply back for much longer
		}
		cerr := svc.Call(ctx, &got, "deliver", tok)
		cancel()
		if how != "" {
			// the call has failed on the client side; the server may still be busy with the message
			for spins := 0; spins < 5000; spins++ {
				ds.mu.Lock()
				h := ds.counts[tok]
				ds.mu.Unlock()
				if h > 0 {
					break
				}
				time.Sleep(time.Millisecond)
			}
			time.Sleep(50 * time.Millisecond) // a second delivery, if any, has arrived by now
		}
		ds.mu.Lock()
		handled := ds.counts[tok]
		ds.mu.Unlock()
		mu.Lock()
		seen := reads[tok]
		mu.Unlock()
		if how != "" && (seen == 0 || handled == 0) {
			ev.Inconclusive("c17 http reply-lost: the server never got to the message within 5 s")
			return
		}
		ev.Count("messages:http-with-lost-replies", 1)
		detail := map[string]interface{}{"message": k, "reply": map[string]string{"": "delivered"}[how] + how, "call_error": fmt.Sprint(cerr), "read_by_server": seen, "handled": handled, "index": idx}
		switch {
		case seen > 1 || handled > 1:
			ev.Violate("http:message-read-more-than-once:reply-"+map[bool]string{true: "lost", false: "delivered"}[how != ""], detail)
			return
		case seen == 0 || handled == 0:
			ev.Violate("http:message-lost:reply-lost-scenario", detail)
			return
		case how == "" && (cerr != nil || got != tok):
			detail["got"] = got
			ev.Violate("http:message-corrupted:after-lost-reply", detail)
			return
		}
	}
	ev.Case(fmt.Sprintf("http reply-lost messages=%d lost=%d idx=%d", n, lost, idx), lost > 0)
}

// c19AdvertisedOK reports whether what the pool stores for a host is an
// address under the host's own id at one of the given host:ports.
func c19AdvertisedOK(uri string, id string, hostports ...string) (string, bool) {
	u, err := url.Parse(uri)
	if err != nil || u.Scheme != "enode" || u.User == nil {
		return fmt.Sprintf("is not an enode address (parse error %v)", err), false
	}
	if !strings.EqualFold(u.User.Username(), id) {
		return "carries another id", false
	}
	for _, hp := range hostports {
		if u.Host == hp {
			return "", true
		}
	}
	return fmt.Sprintf("host:port %q is none of %v", u.Host, hostports), false
}

// c19RegistrationStoreFaults (C19): a host that is already registered
// registers again from another address while store operations fail in the
// middle of that registration. Whatever the outcome, what the pool has stored
// for the host and hands to clients is an address under the host's own id at
// an address it registered from; after a registration that succeeded, the new one.
func c19RegistrationStoreFaults(ev *vlib.Evidence, driver string, idx int) {
	r := vlib.Rand("C19-storefault-"+driver, idx)
	var chaos *vlib.Chaos
	w, err := vlib.NewWorld(vlib.WorldOptions{Driver: driver, Price: big.NewInt(1000), Interval: time.Minute,
		WrapStore: func(s store.Store) store.Store { chaos = vlib.NewChaos(s, int64(idx)); return chaos }})
	if err != nil {
		panic(err)
	}
	defer w.Close()
	host := vlib.NewIdentity("c19fhost", idx%9)
	first := fmt.Sprintf("10.0.%d.1", idx%200)
	second := fmt.Sprintf("10.0.%d.2", idx%200)
	if _, err := w.ConnectHost(host, "geth", first+":51000"); err != nil {
		ev.Inconclusive(fmt.Sprintf("c19 store-fault setup: %v", err))
		return
	}
	op := vlib.Pick(r, "SetNode", "SetNode", "SetNode", "GetNodeBalance", "GetNode")
	nth := 1 + r.Intn(3)
	chaos.ResetCalls()
	chaos.Fail = func(o string, n int) bool { return o == op && n == nth }
	_, rerr := w.ConnectHost(host, "geth", second+":52000")
	hit := chaos.Calls(op) >= nth
	chaos.Fail = nil
	ev.Case(fmt.Sprintf("registration-store-fault/%s/%s#%d/refused=%v", driver, op, nth, rerr != nil), hit)
	ev.Count("re-registrations-with-a-failing-store-call", 1)
	detail := map[string]interface{}{"driver": driver, "failing": fmt.Sprintf("%s call #%d", op, nth), "fault_reached": hit, "registration_error": fmt.Sprint(rerr), "index": idx}
	allowed := []string{first + ":30303", second + ":30303"}
	if rerr == nil {
		allowed = allowed[1:]
	}
	n, gerr := w.RawStore.GetNode(store.NodeID(host.NodeID))
	if gerr == nil && n.IsHost {
		if why, ok := c19AdvertisedOK(n.URI, host.NodeID, allowed...); !ok {
			detail["stored_uri"], detail["why"] = n.URI, why
			ev.Violate("stored-address-wrong:after-registration-with-store-fault", detail)
			return
		}
	}
	// what a client is handed
	client := vlib.NewIdentity("c19fclient", idx%5)
	cc, err := w.ConnectClient(client, "geth", "10.9.9.9:40000")
	if err != nil {
		return
	}
	arg := pool.PeerRequest{Num: 3, Kind: "geth"}
	nn := w.NextNonce(client.NodeID)
	out := guardedCall(cc.AgentSide, "vipnode_peer", vlib.RefSign(client.Key, "vipnode_peer", client.NodeID, nn, arg), client.NodeID, nn, arg)
	for _, h := range c08Result(out) {
		if string(h.ID) != host.NodeID {
			continue
		}
		if why, ok := c19AdvertisedOK(h.URI, host.NodeID, allowed...); !ok {
			detail["handed_out_uri"], detail["why"] = h.URI, why
			ev.Violate("handed-out-address-wrong:after-registration-with-store-fault", detail)
			return
		}
	}
}

// c19ReRegistrationDuringKeepalives (C19): a host's keep-alives are in flight
// on its old connection while it registers again from a new address. Once a
// registration has succeeded and the keep-alives in flight have finished, the
// pool advertises the host at the address of that registration.
func c19ReRegistrationDuringKeepalives(ev *vlib.Evidence, driver string, idx int) {
	w, err := vlib.NewWorld(vlib.WorldOptions{Driver: driver})
	if err != nil {
		panic(err)
	}
	defer w.Close()
	host := vlib.NewIdentity("c19khost", idx%9)
	c0, err := w.ConnectHost(host, "geth", "10.1.0.1:51000")
	if err != nil {
		ev.Inconclusive(fmt.Sprintf("c19 keep-alive race setup: %v", err))
		return
	}
	stop := make(chan struct{})
	done := make(chan struct{})
	var keepalives int64
	go func() {
		defer close(done)
		for k := 0; ; k++ {
			select {
			case <-stop:
				return
			default:
			}
			w.Update(c0.AgentSide, host, nil, uint64(k))
			atomic.AddInt64(&keepalives, 1)
		}
	}()
	rounds := 25
	ev.Case(fmt.Sprintf("re-registration-during-keep-alives/%s/%d", driver, idx), true)
	for k := 1; k <= rounds; k++ {
		addr := fmt.Sprintf("10.1.%d.%d", idx%200, k+1)
		c, rerr := w.ConnectHost(host, "geth", addr+":52000")
		if rerr != nil {
			continue
		}
		// let the keep-alive that was in flight during the registration finish, and one more
		seen := atomic.LoadInt64(&keepalives)
		for spins := 0; atomic.LoadInt64(&keepalives) < seen+2 && spins < 2000; spins++ {
			time.Sleep(time.Millisecond)
		}
		n, gerr := w.RawStore.GetNode(store.NodeID(host.NodeID))
		ev.Count("re-registrations-during-keep-alives", 1)
		if gerr == nil {
			if why, ok := c19AdvertisedOK(n.URI, host.NodeID, addr+":30303"); !ok {
				close(stop)
				<-done
				ev.Violate("stored-address-is-not-the-latest-registration:keep-alives-in-flight", map[string]interface{}{"driver": driver, "registration": k, "registered_from": addr, "stored_uri": n.URI, "why": why, "index": idx})
				return
			}
		}
		_ = c
	}
	close(stop)
	<-done
}

// c08RepeatedRequests (C08): the same requester asks for peers twice within a
// keep-alive interval without having peered with what it was given, and in
// between the population changes: a host starts failing its whitelist calls,
// another re-registers as a light client on its open connection. Every host
// of the second reply is a full-node host that acknowledged a whitelist
// instruction issued for that second request.
func c08RepeatedRequests(ev *vlib.Evidence, driver string, idx int) {
	r := vlib.Rand("C08-repeat-"+driver, idx)
	w, err := vlib.NewWorld(vlib.WorldOptions{Driver: driver})
	if err != nil {
		panic(err)
	}
	defer w.Close()
	nh := 2 + r.Intn(4)
	hosts := []*vlib.Identity{}
	conns := []*vlib.Conn{}
	for i := 0; i < nh; i++ {
		h := vlib.NewIdentity("c08rhost", i)
		c, err := w.ConnectHost(h, "geth", fmt.Sprintf("192.0.2.%d:30303", i+1))
		if err != nil {
			ev.Inconclusive(fmt.Sprintf("c08 repeated-request setup: %v", err))
			return
		}
		hosts, conns = append(hosts, h), append(conns, c)
	}
	requester := vlib.NewIdentity("c08rreq", idx%5)
	rc, err := w.ConnectClient(requester, "geth", "192.0.2.200:30303")
	if err != nil {
		ev.Inconclusive(fmt.Sprintf("c08 repeated-request setup: %v", err))
		return
	}
	arg := pool.PeerRequest{Num: nh, Kind: "geth"}
	ask := func() (callOutcome, []store.Node, map[string]bool) {
		stamp := w.Tick()
		n := w.NextNonce(requester.NodeID)
		out := guardedCall(rc.AgentSide, "vipnode_peer", vlib.RefSign(requester.Key, "vipnode_peer", requester.NodeID, n, arg), requester.NodeID, n, arg)
		acked := map[string]bool{}
		for _, e := range w.EventsSince(stamp) {
			if e.Method == "whitelist" && e.Acked && strings.EqualFold(e.Arg, requester.NodeID) {
				acked[e.Host] = true
			}
		}
		return out, c08Result(out), acked
	}
	_, first, _ := ask()
	// the population changes
	failing := r.Intn(nh)
	conns[failing].Rec.SetBehaviour(vlib.BehError, 0)
	demoted := -1
	if nh > 2 && r.Intn(2) == 0 {
		demoted = (failing + 1) % nh
		var resp pool.ConnectResponse
		if err := w.Signed(conns[demoted].AgentSide, hosts[demoted], hosts[demoted].NodeID, "vipnode_connect", &resp, vlib.ConnectReq(false, "geth", "", "")); err != nil {
			demoted = -1
		}
	}
	out, second, acked := ask()
	ev.Case(fmt.Sprintf("repeated-request/%s/hosts=%d/first=%d/demoted=%v", driver, nh, len(first), demoted >= 0), len(first) > 0)
	ev.Count("repeated-peer-requests", 1)
	detail := map[string]interface{}{"driver": driver, "hosts": nh, "first_reply": len(first), "second_reply": len(second), "err": fmt.Sprint(out.Err), "index": idx}
	for _, n := range second {
		id := string(n.ID)
		switch {
		case id == hosts[failing].NodeID:
			ev.Violate("returned-host-that-failed-its-whitelist-call:repeated-request", detail)
			return
		case demoted >= 0 && id == hosts[demoted].NodeID:
			ev.Violate("returned-node-that-is-no-longer-a-host:repeated-request", detail)
			return
		case !acked[id]:
			ev.Violate("returned-host-without-acknowledgement-for-this-request:repeated-request", detail)
			return
		}
	}
	if len(second) > nh {
		ev.Violate("more-hosts-than-requested:repeated-request", detail)
	}
}

// c03ReconnectAfterBalanceChange (C03): a client's spendable balance changes
// between two of its connects by other means than its own keep-alives (the
// wallet is spent by another node, withdrawn, topped up). Every connect is
// judged on the balance at that moment.
func c03ReconnectAfterBalanceChange(ev *vlib.Evidence, driver string, idx int) {
	r := vlib.Rand("C03-reconnect-"+driver, idx)
	min := mustBig(vlib.Pick(r, "1", "1000000", "0", "-1000"))
	w, err := vlib.NewWorld(vlib.WorldOptions{Driver: driver, Price: big.NewInt(1), Interval: time.Nanosecond, MinBalance: min, Deposits: true})
	if err != nil {
		panic(err)
	}
	defer w.Close()
	client := vlib.NewIdentity("c03rclient", idx%13)
	w.RawStore.SetNode(store.Node{ID: store.NodeID(client.NodeID), IsHost: false, LastSeen: time.Now()})
	linked := r.Intn(3) != 0
	wallet := "0xReconnectWallet"
	cc := w.Dial(client, "192.0.2.99:7")
	trace := []string{}
	steps := 3 + r.Intn(4)
	below := r.Intn(2) == 0
	for k := 0; k < steps; k++ {
		tb := new(big.Int).Set(min)
		if below {
			tb.Sub(tb, big.NewInt(int64(1+r.Intn(5))))
		} else {
			tb.Add(tb, big.NewInt(int64(r.Intn(5))))
		}
		how := setSpendable(w, r, client.NodeID, wallet, linked, tb)
		svc := cc.AgentSide
		if r.Intn(3) == 0 {
			cc = w.Dial(client, fmt.Sprintf("192.0.2.%d:7", 100+k)) // comes back on a new connection
			svc = cc.AgentSide
		}
		var cresp pool.ConnectResponse
		cerr := w.Signed(svc, client, client.NodeID, "vipnode_connect", &cresp, vlib.ConnectReq(false, "geth", "", ""))
		cur, _, isLow := parseLowBalance(cerr)
		trace = append(trace, fmt.Sprintf("balance=%s(%s) below=%v -> %v", tb, how, below, cerr))
		ev.Count("connects-after-balance-changed-by-other-means", 1)
		detail := map[string]interface{}{"driver": driver, "min": min.String(), "balance": tb.String(), "connect_number": k + 1, "trace": trace, "index": idx}
		switch {
		case below && !isLow:
			ev.Violate("connect:not-refused-below-min:after-balance-changed-since-earlier-connect", detail)
			return
		case below && cur.Cmp(tb) != 0:
			ev.Violate("connect:wrong-current-balance:after-balance-changed-since-earlier-connect", detail)
			return
		case !below && cerr != nil:
			ev.Violate("connect:refused-at-or-above-min:after-balance-changed-since-earlier-connect", detail)
			return
		}
		if r.Intn(3) != 0 {
			below = !below
		}
	}
	ev.Case(fmt.Sprintf("reconnect-after-balance-change/%s/%s", driver, strings.Join(trace, ";")), true)
}
