package checks

import (
	"fmt"
	"math/big"
	"net"
	"net/http"
	"os"
	"os/exec"
	"path/filepath"
	"sort"
	"strings"
	"sync"
	"testing"
	"time"

	"github.com/anishathalye/porcupine"
	"github.com/vipnode/vipnode/v2/ethnode"
	"github.com/vipnode/vipnode/v2/jsonrpc2"
	"github.com/vipnode/vipnode/v2/pool"
	"github.com/vipnode/vipnode/v2/pool/status"
	"github.com/vipnode/vipnode/v2/pool/store"
	"github.com/vipnode/vipnode/v2/pool/store/badger"
	"verifharness/vlib"
)

func init() { childModes["c10work"] = c10Child }

// ---- monitor 2: store linearizability ---------------------------------------

type stIn struct {
	Op  string
	Key string
	Arg string
}

// storeModel: per key; balances are counters, nonces high-water marks, nodes registers.
var storeModel = porcupine.Model{
	Partition: func(h []porcupine.Operation) [][]porcupine.Operation {
		m := map[string][]porcupine.Operation{}
		keys := []string{}
		for _, op := range h {
			k := op.Input.(stIn).Key
			if _, ok := m[k]; !ok {
				keys = append(keys, k)
			}
			m[k] = append(m[k], op)
		}
		sort.Strings(keys)
		out := [][]porcupine.Operation{}
		for _, k := range keys {
			out = append(out, m[k])
		}
		return out
	},
	Init: func() interface{} { return "0" },
	Step: func(st, in, out interface{}) (bool, interface{}) {
		s, i, o := st.(string), in.(stIn), out.(string)
		switch i.Op {
		case "add":
			if o != "ok" {
				return true, s // failed operations must have had no effect
			}
			return true, new(big.Int).Add(mustBig(s), mustBig(i.Arg)).String()
		case "get":
			if !strings.HasPrefix(o, "ok") {
				return true, s
			}
			return o == "ok credit="+s, s
		case "nonce":
			hw := mustBig(s)
			n := mustBig(i.Arg)
			if o == "ok" {
				return n.Cmp(hw) > 0, n.String()
			}
			if o == "ErrInvalidNonce" {
				return n.Cmp(hw) <= 0, s
			}
			return true, s
		case "set":
			if o != "ok" {
				return true, s
			}
			return true, i.Arg
		case "getblock":
			if !strings.HasPrefix(o, "ok") {
				return true, s
			}
			return o == "ok block="+s, s
		}
		return false, s
	},
	DescribeOperation: func(in, out interface{}) string { return fmt.Sprintf("%+v -> %v", in, out) },
}

func c10StoreHistory(ev *vlib.Evidence, driver string, s store.Store, idx int) {
	r := vlib.Rand("C10-store-"+driver, idx)
	pfx := fmt.Sprintf("h%d-", idx)
	nkeys := 2 + r.Intn(3)
	nodes := []string{}
	for k := 0; k < nkeys; k++ {
		id := fmt.Sprintf("%sn%d", pfx, k)
		nodes = append(nodes, id)
		s.SetNode(store.Node{ID: store.NodeID(id), LastSeen: time.Now()})
	}
	goroutines := 6 + r.Intn(11)
	perG := 3 + r.Intn(4)
	var clock int64
	var cmu sync.Mutex
	tick := func() int64 { cmu.Lock(); clock++; v := clock; cmu.Unlock(); return v }
	var mu sync.Mutex
	history := []porcupine.Operation{}
	var wg sync.WaitGroup
	otherErrs := map[string]int{}
	for g := 0; g < goroutines; g++ {
		wg.Add(1)
		seed := r.Int63()
		go func(g int, seed int64) {
			defer wg.Done()
			rr := vlib.Rand(fmt.Sprintf("C10-g-%d", seed), g)
			for k := 0; k < perG; k++ {
				node := nodes[rr.Intn(len(nodes))]
				acct := pfx + "acct" + fmt.Sprint(rr.Intn(2))
				var in stIn
				var out string
				// unique delta: every add is a distinct power of two
				delta := new(big.Int).Lsh(big.NewInt(1), uint(g*perG+k))
				if rr.Intn(3) == 0 {
					delta.Neg(delta)
				}
				if rr.Intn(4) == 0 {
					time.Sleep(time.Duration(rr.Intn(200)) * time.Microsecond)
				}
				call := tick()
				switch rr.Intn(8) {
				case 0, 1:
					in = stIn{"add", "trial:" + node, delta.String()}
					out = vlib.ErrName(s.AddNodeBalance(store.NodeID(node), delta))
				case 2:
					in = stIn{"get", "trial:" + node, ""}
					b, err := s.GetNodeBalance(store.NodeID(node))
					out = vlib.ErrName(err)
					if err == nil {
						out = "ok credit=" + b.Credit.String()
					}
				case 3:
					in = stIn{"add", "acct:" + acct, delta.String()}
					out = vlib.ErrName(s.AddAccountBalance(store.Account(acct), delta))
				case 4:
					in = stIn{"get", "acct:" + acct, ""}
					b, err := s.GetAccountBalance(store.Account(acct))
					out = vlib.ErrName(err)
					if err == nil {
						out = "ok credit=" + b.Credit.String()
					}
				case 5:
					n := int64(1000 + rr.Intn(6))
					in = stIn{"nonce", "nonce:" + node, fmt.Sprint(time.Now().UnixNano()/1e9*1e9 + n)}
					nn := mustBig(in.Arg).Int64()
					out = vlib.ErrName(s.CheckAndSaveNonce(pfx+"id:"+node, nn))
				case 6:
					blk := uint64(g*1000 + k + 1)
					in = stIn{"set", "node:" + node, fmt.Sprint(blk)}
					out = vlib.ErrName(s.SetNode(store.Node{ID: store.NodeID(node), BlockNumber: blk, LastSeen: time.Now()}))
				default:
					in = stIn{"getblock", "node:" + node, ""}
					n, err := s.GetNode(store.NodeID(node))
					out = vlib.ErrName(err)
					if err == nil {
						out = fmt.Sprintf("ok block=%d", n.BlockNumber)
					}
				}
				ret := tick()
				mu.Lock()
				history = append(history, porcupine.Operation{ClientId: g, Input: in, Call: call, Output: out, Return: ret})
				if strings.HasPrefix(out, "err:") {
					otherErrs[out]++
				}
				mu.Unlock()
			}
		}(g, seed)
	}
	wg.Wait()
	overlaps := 0
	for i := range history {
		for j := i + 1; j < len(history); j++ {
			if history[i].Input.(stIn).Key == history[j].Input.(stIn).Key && history[i].Call <= history[j].Return && history[j].Call <= history[i].Return {
				overlaps++
			}
		}
	}
	desc := fmt.Sprintf("store-lin %s goroutines=%d ops=%d keys=%d", driver, goroutines, len(history), nkeys)
	ev.Count("store-ops", int64(len(history)))
	ev.Count("store-overlapping-pairs-same-key", int64(overlaps))
	for e, n := range otherErrs {
		ev.Defer("store:"+driver+":conflict-error", map[string]interface{}{"case": desc, "error": e, "count": n})
	}
	res, _ := porcupine.CheckOperationsVerbose(storeModel, history, 30*time.Second)
	if res == porcupine.Unknown {
		ev.Inconclusive("porcupine-timeout")
		return
	}
	if res == porcupine.Illegal {
		ops := []string{}
		for _, op := range history {
			ops = append(ops, fmt.Sprintf("[%d,%d] g%d %+v -> %v", op.Call, op.Return, op.ClientId, op.Input, op.Output))
		}
		sort.Strings(ops)
		ev.Defer("store:"+driver+":not-linearizable", map[string]interface{}{"case": desc, "history": ops})
	}
	ev.Case(desc+fmt.Sprint(idx), overlaps > 0)
	if idx == 0 {
		ev.Sample(map[string]interface{}{"monitor": "store-linearizability", "case": desc, "overlapping_pairs": overlaps})
	}
}

// ---- monitor 3: pool-level no-lost-update --------------------------------------

func c10PoolRound(ev *vlib.Evidence, driver, transport string, idx int) {
	r := vlib.Rand("C10-pool-"+driver+transport, idx)
	price := mustBig(vlib.Pick(r, "1000", "1000000000", "100000000000000000000"))
	w, err := vlib.NewWorld(vlib.WorldOptions{Driver: driver, Price: price, Interval: time.Minute, RealClock: idx%2 == 0})
	if err != nil {
		panic(err)
	}
	defer w.Close()
	nh := 1 + r.Intn(3)
	nc := 4 + r.Intn(12)
	hosts := []*vlib.Identity{}
	for i := 0; i < nh; i++ {
		h := vlib.NewIdentity("c10host", i)
		if _, err := w.ConnectHost(h, "geth", fmt.Sprintf("192.0.2.%d:1", i+1)); err != nil {
			panic(err)
		}
		hosts = append(hosts, h)
	}
	// transport
	var httpSrv *http.Server
	httpURL := ""
	if transport == "http" {
		ln, err := net.Listen("tcp", "127.0.0.1:0")
		if err != nil {
			panic(err)
		}
		hs := &jsonrpc2.HTTPServer{}
		hs.Server.Register("vipnode_", w.Pool, "connect", "update", "peer", "ping")
		// the dashboard service and the block-number provider, wired as pool.go does
		hs.Server.Register("pool_", &status.PoolStatus{Store: w.Store, TimeStarted: time.Now(), Version: "verif", CacheDuration: time.Millisecond})
		w.Pool.BlockNumberProvider = func(network ethnode.NetworkID) (uint64, error) {
			st, err := w.Pool.Store.Stats()
			if err != nil {
				return 0, err
			}
			return st.LatestBlockNumber, nil
		}
		httpSrv = &http.Server{Handler: hs}
		go httpSrv.Serve(ln)
		defer httpSrv.Close()
		httpURL = "http://" + ln.Addr().String() + "/"
	}
	type cl struct {
		id      *vlib.Identity
		svc     jsonrpc2.Service
		peers   []ethnode.PeerInfo
		np      int
		replies []*big.Int
		errs    []string
	}
	clients := []*cl{}
	for i := 0; i < nc; i++ {
		c := &cl{id: vlib.NewIdentity("c10client", i)}
		switch transport {
		case "local":
			c.svc = w.Local
		case "remote":
			c.svc = w.Dial(c.id, "192.0.2.99:1").AgentSide
		case "tcp":
			ln, err := net.Listen("tcp", "127.0.0.1:0")
			if err != nil {
				panic(err)
			}
			acc := make(chan net.Conn, 1)
			go func() { cn, _ := ln.Accept(); acc <- cn }()
			c1, err := net.Dial("tcp", ln.Addr().String())
			if err != nil {
				panic(err)
			}
			c2 := <-acc
			ln.Close()
			ps := &jsonrpc2.Remote{Codec: jsonrpc2.IOCodec(c2), Server: w.Server, Client: &jsonrpc2.Client{}}
			as := &jsonrpc2.Remote{Codec: jsonrpc2.IOCodec(c1), Server: &jsonrpc2.Server{}, Client: &jsonrpc2.Client{}}
			go ps.Serve()
			go as.Serve()
			defer c1.Close()
			defer c2.Close()
			c.svc = as
		case "http":
			c.svc = &jsonrpc2.HTTPService{Endpoint: httpURL}
		}
		var resp pool.ConnectResponse
		if err := w.Signed(c.svc, c.id, c.id.NodeID, "vipnode_connect", &resp, vlib.ConnectReq(false, "geth", "", "")); err != nil {
			ev.Defer("pool:connect-failed:"+transport, map[string]interface{}{"err": err.Error()})
			return
		}
		// fixed peer set per client
		for _, h := range hosts {
			if r.Intn(3) != 0 {
				c.peers = append(c.peers, ethnode.PeerInfo{ID: h.NodeID})
			}
		}
		if len(c.peers) == 0 {
			c.peers = append(c.peers, ethnode.PeerInfo{ID: hosts[0].NodeID})
		}
		c.np = len(c.peers)
		clients = append(clients, c)
	}
	if !w.Opts.RealClock {
		w.Clock.Set(time.Now().Add(30 * time.Minute))
	}
	rounds := 2 + r.Intn(4)
	var wg sync.WaitGroup
	if transport == "http" {
		// dashboards poll the status while agents update
		stopStatus := make(chan struct{})
		defer close(stopStatus)
		for g := 0; g < 2; g++ {
			go func() {
				svc := &jsonrpc2.HTTPService{Endpoint: httpURL}
				for {
					select {
					case <-stopStatus:
						return
					default:
					}
					var resp status.StatusResponse
					w.Raw(svc, "pool_status", &resp)
				}
			}()
		}
	}
	for _, c := range clients {
		wg.Add(1)
		go func(c *cl) {
			defer wg.Done()
			for k := 0; k < rounds; k++ {
				resp, err := w.Update(c.svc, c.id, c.peers, uint64(k))
				if err != nil {
					c.errs = append(c.errs, err.Error())
					continue
				}
				if resp.Balance == nil {
					c.errs = append(c.errs, "reply without balance")
					continue
				}
				c.replies = append(c.replies, new(big.Int).Set(&resp.Balance.Credit))
			}
		}(c)
	}
	wg.Wait()
	desc := fmt.Sprintf("pool-nlu %s/%s hosts=%d clients=%d rounds=%d realclock=%v", driver, transport, nh, nc, rounds, w.Opts.RealClock)
	// accounting
	hostWant := map[string]*big.Int{}
	for _, h := range hosts {
		hostWant[h.NodeID] = new(big.Int)
	}
	acked := 0
	for _, c := range clients {
		for _, e := range c.errs {
			key := "pool:" + driver + ":update-error:" + transport
			if strings.Contains(e, "Conflict") {
				key = "pool:" + driver + ":conflict-error:vipnode_update"
			}
			ev.Defer(key, map[string]interface{}{"case": desc, "error": e})
		}
		prev := new(big.Int)
		for _, bal := range c.replies {
			charge := new(big.Int).Sub(prev, bal)
			prev = bal
			acked++
			if charge.Sign() < 0 {
				ev.Defer("pool:"+driver+":balance-went-up", map[string]interface{}{"case": desc, "client": c.id.Name})
			}
			per := new(big.Int)
			rem := new(big.Int)
			per.QuoRem(charge, big.NewInt(int64(c.np)), rem)
			if rem.Sign() != 0 {
				ev.Defer("pool:"+driver+":charge-not-multiple-of-peers", map[string]interface{}{"case": desc, "client": c.id.Name, "charge": charge.String(), "peers": c.np})
			}
			for _, p := range c.peers {
				hostWant[p.ID].Add(hostWant[p.ID], per)
			}
		}
		if len(c.errs) == 0 && len(c.replies) > 0 {
			stored := creditOf(w.RawStore, c.id.NodeID)
			if stored.Cmp(c.replies[len(c.replies)-1]) != 0 {
				ev.Defer("pool:"+driver+":client-balance-differs-from-last-acknowledged", map[string]interface{}{"case": desc, "client": c.id.Name, "stored": stored.String(), "last_reply": c.replies[len(c.replies)-1].String()})
			}
		}
	}
	allOK := true
	for _, c := range clients {
		if len(c.errs) > 0 {
			allOK = false
		}
	}
	if allOK {
		for _, h := range hosts {
			got := creditOf(w.RawStore, h.NodeID)
			if got.Cmp(hostWant[h.NodeID]) != 0 {
				ev.Defer("pool:"+driver+":lost-update:host-credit", map[string]interface{}{"case": desc, "host": h.Name, "stored": got.String(), "sum_of_acknowledged_charges": hostWant[h.NodeID].String()})
			}
		}
	}
	total, _ := w.TotalCredit()
	if total.Sign() != 0 {
		ev.Defer("pool:"+driver+":not-zero-sum", map[string]interface{}{"case": desc, "total": total.String()})
	}
	// peer sets equal each node's last acknowledged report
	for _, c := range clients {
		ns, _ := w.RawStore.NodePeers(store.NodeID(c.id.NodeID))
		if len(ns) != c.np && len(c.replies) > 0 {
			ev.Defer("pool:"+driver+":peer-set-differs", map[string]interface{}{"case": desc, "client": c.id.Name, "stored": len(ns), "reported": c.np})
		}
	}
	ev.Count("pool-updates-acknowledged:"+transport, int64(acked))
	ev.Case(desc+fmt.Sprint(idx), acked > nc)
	if idx == 0 {
		ev.Sample(map[string]interface{}{"monitor": "pool-no-lost-update", "case": desc, "acknowledged_updates": acked})
	}
}

// ---- monitor 4: snapshot immutability ---------------------------------------

func hashBalance(b store.Balance) string {
	return fmt.Sprintf("%s|%s|%v|%s|%v", b.Account, b.Credit.String(), b.Credit.Bits(), b.Deposit.String(), b.Deposit.Bits())
}

func c10Snapshots(ev *vlib.Evidence, driver string, s store.Store, idx int, withReader bool) {
	r := vlib.Rand("C10-snap-"+driver, idx)
	pfx := fmt.Sprintf("s%d-", idx)
	node := store.NodeID(pfx + "n")
	acct := store.Account(pfx + "A")
	s.SetNode(store.Node{ID: node, LastSeen: time.Now(), BlockNumber: 5})
	peer := store.NodeID(pfx + "p")
	s.SetNode(store.Node{ID: peer, LastSeen: time.Now()})
	linked := r.Intn(2) == 0
	if linked {
		s.AddAccountNode(acct, node)
	}
	type snap struct {
		producer string
		hash     string
		rehash   func() string
	}
	snaps := []snap{}
	// a few adds so that the digit array has spare capacity, then snapshot, then more adds
	amounts := []string{"1", "3", "1000000000", "18446744073709551616", "5", "-2", "340282366920938463463374607431768211456", "7"}
	// concurrent readers keep re-reading the snapshots while writes go on (race detector)
	stop := make(chan struct{})
	var wg sync.WaitGroup
	var smu sync.Mutex
	for k := 0; k < 6+r.Intn(6); k++ {
		amt := mustBig(amounts[r.Intn(len(amounts))])
		s.AddNodeBalance(node, amt)
		if linked {
			s.AddAccountBalance(acct, amt)
		}
		b, err := s.GetNodeBalance(node)
		if err == nil {
			b := b
			smu.Lock()
			snaps = append(snaps, snap{"GetNodeBalance", hashBalance(b), func() string { return hashBalance(b) }})
			smu.Unlock()
		}
		if linked {
			ab, err := s.GetAccountBalance(acct)
			if err == nil {
				ab := ab
				smu.Lock()
				snaps = append(snaps, snap{"GetAccountBalance", hashBalance(ab), func() string { return hashBalance(ab) }})
				smu.Unlock()
			}
		}
		n, err := s.GetNode(node)
		if err == nil {
			h := fmt.Sprintf("%+v", *n)
			smu.Lock()
			snaps = append(snaps, snap{"GetNode", h, func() string { return fmt.Sprintf("%+v", *n) }})
			smu.Unlock()
		}
		st, err := s.Stats()
		if err == nil {
			h := fmt.Sprintf("%s|%v|%d", st.TotalCredit.String(), st.TotalCredit.Bits(), st.NumTrialBalances)
			smu.Lock()
			snaps = append(snaps, snap{"Stats", h, func() string {
				return fmt.Sprintf("%s|%v|%d", st.TotalCredit.String(), st.TotalCredit.Bits(), st.NumTrialBalances)
			}})
			smu.Unlock()
		}
		if k == 1 && withReader {
			wg.Add(1)
			go func() {
				defer wg.Done()
				for {
					select {
					case <-stop:
						return
					default:
					}
					smu.Lock()
					l := append([]snap(nil), snaps...)
					smu.Unlock()
					for _, sn := range l {
						_ = sn.rehash()
					}
					time.Sleep(20 * time.Microsecond)
				}
			}()
		}
		s.UpdateNodePeers(node, []string{string(peer)}, uint64(10+k))
		s.SetNode(store.Node{ID: peer, LastSeen: time.Now(), BlockNumber: uint64(k)})
		if linked && k%3 == 2 {
			// another node with a trial balance joins the wallet: its credit is migrated into the account
			extra := store.NodeID(fmt.Sprintf("%sx%d", pfx, k))
			s.SetNode(store.Node{ID: extra, LastSeen: time.Now()})
			s.AddNodeBalance(extra, mustBig(amounts[r.Intn(len(amounts))]))
			s.AddAccountNode(acct, extra)
		}
	}
	close(stop)
	wg.Wait()
	for _, sn := range snaps {
		if got := sn.rehash(); got != sn.hash {
			ev.Defer("snapshot-mutated:"+driver+":"+sn.producer, map[string]interface{}{"driver": driver, "producer": sn.producer, "at_handout": sn.hash, "later": got})
		}
	}
	ev.Count("snapshots-rechecked", int64(len(snaps)))
	ev.Case(fmt.Sprintf("snapshots %s linked=%v n=%d idx=%d", driver, linked, len(snaps), idx), len(snaps) > 4)
}

// c10LinkRace: credits to a node race with the node being linked to a wallet.
// No credit may be lost or left behind on the migrated trial balance.
func c10LinkRace(ev *vlib.Evidence, driver string, s store.Store, idx int) {
	r := vlib.Rand("C10-link-"+driver, idx)
	pfx := fmt.Sprintf("l%d-", idx)
	node := store.NodeID(pfx + "n")
	acct := store.Account(pfx + "A")
	s.SetNode(store.Node{ID: node, LastSeen: time.Now()})
	want := new(big.Int)
	if r.Intn(2) == 0 {
		s.AddNodeBalance(node, big.NewInt(1000))
		want.SetInt64(1000)
	}
	k := 3 + r.Intn(8)
	var wg sync.WaitGroup
	var mu sync.Mutex
	start := make(chan struct{})
	failed := 0
	for g := 0; g < k; g++ {
		wg.Add(1)
		go func(g int) {
			defer wg.Done()
			<-start
			d := new(big.Int).Lsh(big.NewInt(1), uint(12+g))
			if err := s.AddNodeBalance(node, d); err == nil {
				mu.Lock()
				want.Add(want, d)
				mu.Unlock()
			} else {
				mu.Lock()
				failed++
				mu.Unlock()
			}
		}(g)
	}
	wg.Add(1)
	go func() {
		defer wg.Done()
		<-start
		if r.Intn(3) == 0 {
			time.Sleep(time.Duration(r.Intn(200)) * time.Microsecond)
		}
		s.AddAccountNode(acct, node)
	}()
	close(start)
	wg.Wait()
	nb, _ := s.GetNodeBalance(node)
	ab, _ := s.GetAccountBalance(acct)
	desc := fmt.Sprintf("link-race %s adders=%d failed=%d", driver, k, failed)
	ev.Case(desc+fmt.Sprint(idx), true)
	ev.Count("link-race-rounds", 1)
	if nb.Account != acct || nb.Credit.Cmp(want) != 0 || ab.Credit.Cmp(want) != 0 {
		ev.Defer("link-race:"+driver+":credit-lost-or-left-on-trial-balance", map[string]interface{}{"case": desc, "sum_of_acknowledged_credits": want.String(), "node_balance": vlib.CanonBalance(nb, nil), "account_balance": vlib.CanonBalance(ab, nil)})
	}
}

// c10NodeRace: a node re-registers (SetNode) while its own keep-alives
// (UpdateNodePeers) are in flight. A keep-alive only touches LastSeen and the
// block number, so at quiescence the record must carry the last registration.
func c10NodeRace(ev *vlib.Evidence, driver string, s store.Store, idx int) {
	r := vlib.Rand("C10-node-"+driver, idx)
	id := store.NodeID(fmt.Sprintf("nr%d", idx))
	first := store.Node{ID: id, IsHost: true, Kind: "geth", URI: "enode://x@1.2.3.4:1", NodeVersion: "v1", LastSeen: time.Now()}
	vlib.SetPayout(&first, "0xP")
	s.SetNode(first)
	var wg sync.WaitGroup
	stop := make(chan struct{})
	for g := 0; g < 2; g++ {
		wg.Add(1)
		go func(g int) {
			defer wg.Done()
			for k := 0; ; k++ {
				select {
				case <-stop:
					return
				default:
				}
				s.UpdateNodePeers(id, nil, uint64(1000*g+k))
			}
		}(g)
	}
	var last store.Node
	for k := 0; k < 6+r.Intn(10); k++ {
		last = store.Node{ID: id, LastSeen: time.Now()}
		if k%2 == 0 {
			// fields going back to their zero values are the interesting direction
			last.IsHost, last.Kind, last.URI, last.NodeVersion = false, "", "", ""
			vlib.SetPayout(&last, "")
		} else {
			last.IsHost, last.Kind, last.URI, last.NodeVersion = true, "parity", "enode://y@5.6.7.8:2", "v2"
			vlib.SetPayout(&last, "0xQ")
		}
		s.SetNode(last)
		if r.Intn(2) == 0 {
			time.Sleep(time.Duration(r.Intn(100)) * time.Microsecond)
		}
	}
	close(stop)
	wg.Wait()
	got, err := s.GetNode(id)
	ev.Case(fmt.Sprintf("node-race %s idx=%d", driver, idx), true)
	ev.Count("node-race-rounds", 1)
	if err != nil || got.IsHost != last.IsHost || got.Kind != last.Kind || vlib.PayoutString(got) != vlib.PayoutString(&last) || got.URI != last.URI || got.NodeVersion != last.NodeVersion {
		g := "error: " + fmt.Sprint(err)
		if err == nil {
			g = vlib.NodeFields(*got)
		}
		ev.Defer("node-race:"+driver+":registration-reverted-by-keepalive", map[string]interface{}{"last_registration": vlib.NodeFields(last), "stored": g})
	}
}

// c10Child runs all concurrent workloads in a child process whose race
// detector log is parsed by the parent.
func c10Child() int {
	ev := vlib.NewEvidence("C10", "exploration", "")
	var dwg sync.WaitGroup
	for _, driver := range vlib.Drivers() {
		driver := driver
		dwg.Add(1)
		go func() {
			defer dwg.Done()
			s, cleanup, err := vlib.OpenStore(driver)
			if err != nil {
				panic(err)
			}
			for i := 0; i < vlib.Scale(60, 400); i++ {
				c10StoreHistory(ev, driver, s, i)
			}
			for i := 0; i < vlib.Scale(40, 200); i++ {
				c10Snapshots(ev, driver, s, i, true)
			}
			for i := 0; i < vlib.Scale(150, 800); i++ {
				c10LinkRace(ev, driver, s, i)
			}
			for i := 0; i < vlib.Scale(60, 300); i++ {
				c10NodeRace(ev, driver, s, i)
			}
			for i := 0; i < vlib.Scale(30, 200); i++ {
				c10InactiveRace(ev, driver, s, i)
			}
			c10HotKey(ev, driver, s, 48, 20)
			c10HotKey(ev, driver, s, 128, 12)
			cleanup()
			for _, tr := range []string{"local", "remote", "tcp", "http"} {
				for i := 0; i < vlib.Scale(6, 24); i++ {
					c10PoolRound(ev, driver, tr, i)
				}
			}
			for i := 0; i < vlib.Scale(10, 60); i++ {
				c10UpdatesWhileCreditsFail(ev, driver, i)
			}
			// other concurrent workloads of this harness, for the race detector
			for i := 0; i < vlib.Scale(6, 12); i++ {
				c01Concurrent(ev, driver, 1000+i)
				c05Concurrent(ev, driver, 1000+i)
				c07Concurrent(ev, driver, 1000+i)
				c09Racing(ev, driver, 1000+i)
			}
		}()
	}
	dwg.Wait()
	for i := 0; i < vlib.Scale(10, 30); i++ {
		c14Round(ev, "memnet", 1000+i)
	}
	if err := ev.Export(os.Getenv("VERIF_CHILD_OUT")); err != nil {
		fmt.Println("export failed:", err)
		return 3
	}
	return 0
}

func TestC10(t *testing.T) {
	ev := vlib.NewEvidence("C10", "exploration",
		"child process under the Go race detector (built with math_big_pure_go so big.Int digit writes are visible; reports collected with halt_on_error=0 and de-duplicated by the pair of innermost repository frames) running: (2) store histories of 6..16 goroutines on 2-4 keys (unique power-of-two balance deltas, reads, nonces, node registers) recorded at the API boundary and checked with porcupine per key, on both drivers; (3) pool rounds of 4..15 clients updating concurrently against shared hosts over Local, in-memory Remote, TCP Remote and HTTP, with per-host credit compared to the sum of individually acknowledged charges, zero-sum, client balance = last acknowledged reply, no conflict errors; (2c) registration races: SetNode racing the node's own keep-alives must win field by field; (2b) link races: credits to a node racing with AddAccountNode must all end up on the wallet; (4) snapshot immutability: values handed out by the stores are deep-hashed (incl. big.Int words) and re-hashed after later writes while a reader keeps re-reading them; plus the concurrent workloads of C01/C05/C07/C09/C14; non-trivial: overlapping same-key operations / more acknowledged updates than clients / >4 snapshots; distinct = case descriptors; (faults) concurrent keep-alives reporting expired peers under conflicts, concurrent updates while credit writes fail")
	ev.Assume("one production-clock world in two leaves payPerInterval's clock unset so the lazy initialisation is on the path")
	// sequential snapshot pass in this process (a mutated snapshot is reported
	// even if the concurrent readers of the child crash on it)
	for _, driver := range vlib.Drivers() {
		s, cleanup, err := vlib.OpenStore(driver)
		if err != nil {
			t.Fatal(err)
		}
		for i := 0; i < vlib.Scale(40, 150); i++ {
			c10Snapshots(ev, driver, s, 100000+i, false)
		}
		cleanup()
	}
	ev.RaiseDeferred()
	dir := os.Getenv("VERIF_BUILD_DIR")
	if dir == "" {
		dir = os.TempDir()
	}
	out := filepath.Join(dir, "c10child.json")
	racePrefix := filepath.Join(dir, "c10race")
	cmd := exec.Command(os.Args[0])
	cmd.Env = append(os.Environ(), "VERIF_CHILD=c10work", "VERIF_CHILD_OUT="+out, "GORACE=halt_on_error=0 log_path="+racePrefix)
	logf, _ := os.Create(filepath.Join(dir, "c10child.log"))
	cmd.Stdout, cmd.Stderr = logf, logf
	err := cmd.Run()
	logf.Close()
	if ierr := ev.Import(out); ierr != nil {
		body, _ := os.ReadFile(filepath.Join(dir, "c10child.log"))
		tail := string(body)
		if len(tail) > 3000 {
			tail = tail[len(tail)-3000:]
		}
		// a crash of the concurrent workload is itself a finding
		ev.Violate("workload-crashed", map[string]interface{}{"run_err": fmt.Sprint(err), "import_err": ierr.Error(), "log_tail": tail})
	}
	reports, total := vlib.ParseRaceLogs(racePrefix)
	ev.Note("race_reports_total", total)
	ev.Note("race_reports_distinct", len(reports))
	harnessOnly := 0
	for _, rep := range reports {
		if rep.Harness {
			harnessOnly++
			fmt.Printf("HARNESS-ERROR race inside the harness itself: %s\n", rep.Key)
			continue
		}
		ev.Violate(rep.Key, rep)
	}
	if harnessOnly > 0 {
		ev.MinNontrivial(1 << 30) // force inconclusive: the monitor raced with itself
	}
	for _, driver := range vlib.Drivers() {
		driver := driver
		parallelCases(vlib.Scale(6, 40), 3, func(i int) { contractSnapshots(ev, driver, i) })
	}
	// the same hot key on an on-disk store (slower commits, longer conflict windows)
	if dir, err := os.MkdirTemp("", "verif-c10hot-"); err == nil {
		if ds, err := badger.Open(vlib.BadgerDiskOptions(dir)); err == nil {
			c10HotKey(ev, "badger-disk", ds, 64, 15)
			c10HotKey(ev, "badger-disk", ds, 24, 30)
			ds.Close()
		}
		os.RemoveAll(dir)
	}
	finish(t, ev)
}
