package checks

import (
	"fmt"
	"strings"
	"testing"
	"time"

	"github.com/vipnode/vipnode/v2/ethnode"
	"github.com/vipnode/vipnode/v2/jsonrpc2"
	"github.com/vipnode/vipnode/v2/pool"
	"verifharness/vlib"
)

func TestC06(t *testing.T) {
	ev := vlib.NewEvidence("C06", "exploration",
		"a valid session (2 hosts, 2 clients, 2 wallets) is advanced to a random point; then one refused request (bit-flipped signature, other key, malformed signature, replay of an accepted request, nonce older than the freshness window) is injected against each of the 7 signed endpoints (keep-alives also signed in the deprecated {peers, block_number} form) naming a live victim identity with a nonce far above the victim's; the digest of all RPC-reachable pool state and of the calls seen by fake hosts must be unchanged, and the victim's next correctly signed request with a smaller-but-fresh nonce must pass verification; non-trivial = refused request injected into a session holding balances/peers; distinct = (endpoint, refusal kind, session point); (faults) replays of requests that were in flight together")
	kinds := []string{"bitflip", "wrong-key", "malformed", "replay", "too-old", "other-registered-identity-same-connection", "replay-under-other-spelling", "replay-while-nonce-store-faults", "accepted-signature-reused"}
	points := vlib.Scale(6, 60)
	for _, driver := range vlib.Drivers() {
		for pt := 0; pt < points; pt++ {
			for ei, ep := range signedEndpoints {
				for ki, kind := range kinds {
					r := vlib.Rand(fmt.Sprintf("C06-%s-%s-%s", driver, ep.Method, kind), pt)
					lw, err := authWorld(driver, pt)
					if err != nil {
						if strings.Contains(err.Error(), "failed to verify") {
							ev.Case("setup/"+driver, true)
							ev.Violate("valid-request-refused:session-setup", map[string]interface{}{"err": err.Error()})
							continue
						}
						t.Fatal(err)
					}
					w := lw.w
					// advance the session
					trace := []string{}
					infos := []ethnode.PeerInfo{{ID: lw.hosts[0].NodeID}, {ID: lw.hosts[1].NodeID}}
					for s := 0; s < r.Intn(5); s++ {
						c := lw.clients[r.Intn(2)]
						n, _ := w.RawStore.GetNode(storeID(c.NodeID))
						w.Clock.Set(n.LastSeen.Add(time.Duration(1+r.Intn(600)) * time.Second))
						_, err := w.Update(lw.conns[c.NodeID].AgentSide, c, infos[:1+r.Intn(2)], uint64(s))
						trace = append(trace, fmt.Sprintf("update %s -> %v", c.Name, err))
					}
					if r.Intn(2) == 0 {
						err := w.Signed(w.Local, lw.wallets[0], lw.wallets[0].Wallet, "pool_addNode", nil, lw.hosts[0].NodeID)
						trace = append(trace, fmt.Sprintf("addNode host0->wallet0 -> %v", err))
					}
					// victim
					var victim *vlib.Identity
					identity := ""
					walletNode := false
					universe2 := []string{}
					switch {
					case strings.HasPrefix(ep.Method, "pool_"):
						victim = lw.wallets[r.Intn(2)]
						identity = victim.Wallet
					case ep.Method == "vipnode_host":
						victim = lw.hosts[r.Intn(2)]
						identity = victim.NodeID
					default:
						victim = vlib.Pick(r, lw.clients[0], lw.clients[1], lw.hosts[0])
						identity = victim.NodeID
						if r.Intn(3) == 0 {
							// a node that goes by a wallet-style identity (verified EIP-191 style)
							victim = lw.wallets[1]
							identity = victim.Wallet
							walletNode = true
							var cresp pool.ConnectResponse
							if err := w.Signed(w.Local, victim, identity, "vipnode_connect", &cresp, vlib.ConnectReq(false, "geth", "", "")); err != nil {
								ev.Violate("setup:wallet-style-node-refused", map[string]interface{}{"err": err.Error()})
							}
							universe2 = append(universe2, identity)
						}
					}
					attacker := vlib.NewIdentity("c06attacker", pt)
					universe := append(append(append([]string{}, lw.universe...), attacker.NodeID), universe2...)
					accounts := append(append([]string{}, lw.accounts...), attacker.Wallet)
					// the victim's own last accepted nonce
					ownNonce := w.NextNonce(identity)
					var ownErr error
					if strings.HasPrefix(ep.Method, "pool_") {
						ownErr = w.SignedNonce(w.Local, victim, identity, "pool_addNode", ownNonce, nil, lw.clients[0].NodeID)
					} else {
						_, ownErr = func() (interface{}, error) {
							var resp pool.UpdateResponse
							var vs jsonrpc2.Service = w.Local
							if !walletNode {
								vs = lw.conns[victim.NodeID].AgentSide
							}
							e := w.SignedNonce(vs, victim, identity, "vipnode_update", ownNonce, &resp, pool.UpdateRequest{PeerInfo: infos[:1]})
							return nil, e
						}()
					}
					if ownErr != nil && strings.Contains(ownErr.Error(), "failed to verify") {
						ev.Violate("setup:own-request-refused", map[string]interface{}{"err": ownErr.Error(), "trace": trace})
						w.Close()
						continue
					}
					// refused request
					args := ep.Args(r, identity)
					// what the signature is made over: the parameters, or - for keep-alives of
					// older agents - the deprecated form {peers, block_number}, which the pool
					// still accepts and must treat like any other signed request
					signArgs := args
					format := ""
					if ep.Method == "vipnode_update" && r.Intn(2) == 0 {
						req := args[0].(pool.UpdateRequest)
						if len(req.Peers) == 0 {
							req.Peers = nil // an empty list is omitted on the wire and arrives as nil
						}
						args = []interface{}{req}
						signArgs = []interface{}{struct {
							Peers       []string `json:"peers"`
							BlockNumber uint64   `json:"block_number"`
						}{req.Peers, req.BlockNumber}}
						format = ":deprecated-format"
					}
					forgedNonce := ownNonce + int64(10*time.Minute)
					var params []interface{}
					switch kind {
					case "bitflip":
						sb, _ := vlib.RefSignBytes(victim.Key, ep.Method, identity, forgedNonce, signArgs...)
						sb[r.Intn(64)] ^= 0x10
						params = append([]interface{}{vlib.EncodeSig(identity, sb), identity, forgedNonce}, args...)
					case "wrong-key":
						params = append([]interface{}{vlib.RefSign(attacker.Key, ep.Method, identity, forgedNonce, signArgs...), identity, forgedNonce}, args...)
					case "malformed":
						params = append([]interface{}{vlib.Pick(r, "", "AAAA", "zz", "0x1234"), identity, forgedNonce}, args...)
					case "replay":
						// an accepted request, sent again unchanged
						n := w.NextNonce(identity)
						params = append([]interface{}{vlib.RefSign(victim.Key, ep.Method, identity, n, signArgs...), identity, n}, args...)
						first := guardedCall(w.Local, ep.Method, params...)
						if !first.Accepted {
							ev.Violate("setup:first-copy-refused:"+ep.Method, map[string]interface{}{"err": fmt.Sprint(first.Err), "panic": first.Panic})
						}
						ownNonce = n
						forgedNonce = n
					case "replay-under-other-spelling", "replay-while-nonce-store-faults":
						// an accepted request of the victim, captured and sent again
						n := w.NextNonce(identity)
						params = append([]interface{}{vlib.RefSign(victim.Key, ep.Method, identity, n, signArgs...), identity, n}, args...)
						first := guardedCall(w.Local, ep.Method, params...)
						if !first.Accepted {
							ev.Violate("setup:first-copy-refused:"+ep.Method, map[string]interface{}{"err": fmt.Sprint(first.Err), "panic": first.Panic})
						}
						ownNonce = n
						forgedNonce = n
						if kind == "replay-under-other-spelling" {
							sp := strings.ToUpper(identity)
							if len(identity) <= 42 {
								sp = strings.ToLower(identity)
							}
							params[1] = sp
						} else if lw.chaos != nil {
							// the nonce store is in trouble exactly when the replay arrives
							lw.chaos.ResetCalls()
							lw.chaos.Fail = func(op string, n int) bool { return op == "CheckAndSaveNonce" }
						}
					case "accepted-signature-reused":
						// the signature of an accepted request of the victim, attached to a request with a
						// much newer nonce (and freshly drawn parameters)
						n := w.NextNonce(identity)
						sig := vlib.RefSign(victim.Key, ep.Method, identity, n, signArgs...)
						first := guardedCall(w.Local, ep.Method, append([]interface{}{sig, identity, n}, args...)...)
						if !first.Accepted {
							ev.Violate("setup:first-copy-refused:"+ep.Method, map[string]interface{}{"err": fmt.Sprint(first.Err), "panic": first.Panic})
						}
						ownNonce = n
						forgedNonce = n + int64(10*time.Minute)
						args2 := args
						if format == "" && r.Intn(2) == 0 {
							args2 = ep.Args(r, identity)
						}
						params = append([]interface{}{sig, identity, forgedNonce}, args2...)
					case "too-old":
						old := time.Now().Add(-16 * time.Minute).UnixNano()
						params = append([]interface{}{vlib.RefSign(victim.Key, ep.Method, identity, old, signArgs...), identity, old}, args...)
						forgedNonce = old
					}
					var svc jsonrpc2.Service = w.Local
					if kind == "other-registered-identity-same-connection" {
						// a validly registered host names the victim on its own connection and signs with its own key
						forger := lw.hosts[1]
						if victim == forger {
							forger = lw.hosts[0]
						}
						if strings.HasPrefix(ep.Method, "pool_") {
							forger = lw.wallets[1]
							if victim == forger {
								forger = lw.wallets[0]
							}
						} else {
							svc = lw.conns[forger.NodeID].AgentSide
						}
						params = append([]interface{}{vlib.RefSign(forger.Key, ep.Method, identity, forgedNonce, signArgs...), identity, forgedNonce}, args...)
					}
					before := w.Digest(universe, accounts)
					out := guardedCall(svc, ep.Method, params...)
					if lw.chaos != nil {
						lw.chaos.Fail = nil
					}
					after := w.Digest(universe, accounts)
					ev.Case(fmt.Sprintf("%s/%s/%s%s/point%d", driver, ep.Method, kind, format, pt), true)
					ev.Count("refusals:"+kind+format, 1)
					detail := map[string]interface{}{"endpoint": ep.Method, "kind": kind + format, "driver": driver, "victim": victim.Name, "err": fmt.Sprint(out.Err), "panic": out.Panic, "trace": trace}
					switch {
					case out.Panic != "":
						ev.Violate(fmt.Sprintf("panic:%s:%s", ep.Method, kind), detail)
					case !out.Verify && !(kind == "replay-while-nonce-store-faults" && out.Err != nil && !out.Accepted):
						ev.Violate(fmt.Sprintf("not-refused:%s:%s%s", ep.Method, kind, format), detail)
					case before != after:
						detail["diff"] = diffLines(before, after)
						ev.Violate(fmt.Sprintf("refused-request-left-trace:%s:%s%s", ep.Method, kind, format), detail)
					}
					// the owner's next request: smaller than the forged nonce, but fresh
					if kind != "too-old" {
						next := ownNonce + 1 + int64(r.Intn(1000))
						if !strings.HasPrefix(kind, "replay") && next >= forgedNonce {
							next = ownNonce + 1
						}
						var nerr error
						if strings.HasPrefix(ep.Method, "pool_") {
							nerr = w.SignedNonce(w.Local, victim, identity, "pool_addNode", next, nil, lw.clients[1].NodeID)
						} else {
							var resp pool.UpdateResponse
							var vs jsonrpc2.Service = w.Local
							if !walletNode {
								vs = lw.conns[victim.NodeID].AgentSide
							}
							nerr = w.SignedNonce(vs, victim, identity, "vipnode_update", next, &resp, pool.UpdateRequest{PeerInfo: infos[:1]})
						}
						if nerr != nil && strings.Contains(nerr.Error(), "failed to verify") {
							detail["followup_err"] = nerr.Error()
							ev.Violate(fmt.Sprintf("nonce-consumed-by-refused-request:%s:%s%s", ep.Method, kind, format), detail)
						}
						ev.Count("followups-accepted", 1)
					}
					if pt == 0 && ei == 0 && ki < 2 {
						ev.Sample(map[string]interface{}{"endpoint": ep.Method, "kind": kind, "victim": victim.Name, "trace": trace, "refusal": fmt.Sprint(out.Err)})
					}
					w.Close()
				}
			}
		}
	}
	// a forged request naming an identity the pool has never heard from, then that
	// identity's very first own request: it must be accepted like any other
	for _, driver := range vlib.Drivers() {
		for i := 0; i < vlib.Scale(6, 60); i++ {
			lw, err := authWorld(driver, i)
			if err != nil {
				continue
			}
			w := lw.w
			for _, style := range []string{"node", "wallet"} {
				fresh := vlib.NewIdentity("c06fresh-"+style, i)
				attacker := vlib.NewIdentity("c06attacker", 1000+i)
				identity, method := fresh.NodeID, "vipnode_connect"
				var args []interface{} = []interface{}{vlib.ConnectReq(false, "geth", "", "")}
				if style == "wallet" {
					identity, method, args = fresh.Wallet, "pool_addNode", []interface{}{lw.clients[0].NodeID}
				}
				n := w.NextNonce(identity) + int64(time.Minute)
				forged := guardedCall(w.Local, method, append([]interface{}{vlib.RefSign(attacker.Key, method, identity, n, args...), identity, n}, args...)...)
				own := w.NextNonce(identity)
				first := guardedCall(w.Local, method, append([]interface{}{vlib.RefSign(fresh.Key, method, identity, own, args...), identity, own}, args...)...)
				ev.Case(fmt.Sprintf("%s/forged-before-first-own-request/%s/%d", driver, style, i), true)
				ev.Count("forged-before-first-own-request", 1)
				if !forged.Verify {
					ev.Violate("not-refused:"+method+":wrong-key-for-unknown-identity", map[string]interface{}{"style": style, "err": fmt.Sprint(forged.Err)})
				}
				if !first.Accepted || first.Panic != "" {
					ev.Violate("first-own-request-refused-after-forged-one:"+method, map[string]interface{}{"style": style, "err": fmt.Sprint(first.Err), "panic": first.Panic})
				}
			}
			w.Close()
		}
	}
	for _, driver := range vlib.Drivers() {
		c06ManyRefusals(ev, driver)
		driver := driver
		parallelCases(vlib.Scale(10, 200), 2, func(i int) { c06ReplayAfterContention(ev, driver, i) })
	}
	finish(t, ev)
}

func diffLines(a, b string) []string {
	la, lb := strings.Split(a, "\n"), strings.Split(b, "\n")
	out := []string{}
	for i := 0; i < len(la) || i < len(lb); i++ {
		x, y := "", ""
		if i < len(la) {
			x = la[i]
		}
		if i < len(lb) {
			y = lb[i]
		}
		if x != y {
			out = append(out, "- "+x, "+ "+y)
		}
	}
	return out
}
