package checks

import (
	"fmt"
	"math/big"
	"math/rand"
	"strings"
	"sync"
	"testing"
	"time"

	"github.com/vipnode/vipnode/v2/ethnode"
	"github.com/vipnode/vipnode/v2/pool"
	"github.com/vipnode/vipnode/v2/pool/store"
	"verifharness/vlib"
)

// ledgerWorld is a pool world with a population, used by C01/C03/C06/C10.
type ledgerWorld struct {
	w        *vlib.World
	chaos    *vlib.Chaos
	hosts    []*vlib.Identity
	clients  []*vlib.Identity
	wallets  []*vlib.Identity
	conns    map[string]*vlib.Conn
	universe []string
	accounts []string
	trace    []string
}

type ledgerOpts struct {
	driver     string
	price      *big.Int
	interval   time.Duration
	min        *big.Int
	nh, nc, nw int
	chaos      bool
	delays     bool
	seed       int64
	family     string
}

func newLedgerWorld(o ledgerOpts) (*ledgerWorld, error) {
	lw := &ledgerWorld{conns: map[string]*vlib.Conn{}}
	wo := vlib.WorldOptions{Driver: o.driver, Price: o.price, Interval: o.interval, MinBalance: o.min, Deposits: true, WithPayment: true}
	if o.chaos {
		wo.WrapStore = func(s store.Store) store.Store {
			lw.chaos = vlib.NewChaos(s, o.seed)
			lw.chaos.Delays = o.delays
			return lw.chaos
		}
	}
	w, err := vlib.NewWorld(wo)
	if err != nil {
		return nil, err
	}
	lw.w = w
	for i := 0; i < o.nh; i++ {
		lw.hosts = append(lw.hosts, vlib.NewIdentity(o.family+"host", i))
	}
	for i := 0; i < o.nc; i++ {
		lw.clients = append(lw.clients, vlib.NewIdentity(o.family+"client", i))
	}
	for i := 0; i < o.nw; i++ {
		lw.wallets = append(lw.wallets, vlib.NewIdentity(o.family+"wallet", i))
		lw.accounts = append(lw.accounts, lw.wallets[i].Wallet)
	}
	for _, h := range lw.hosts {
		lw.universe = append(lw.universe, h.NodeID)
	}
	for _, c := range lw.clients {
		lw.universe = append(lw.universe, c.NodeID)
	}
	return lw, nil
}

func (lw *ledgerWorld) note(format string, args ...interface{}) {
	lw.trace = append(lw.trace, fmt.Sprintf(format, args...))
}

func (lw *ledgerWorld) connect(id *vlib.Identity, host bool, addr string) error {
	var c *vlib.Conn
	var err error
	if host {
		c, err = lw.w.ConnectHost(id, "geth", addr)
	} else {
		c, err = lw.w.ConnectClient(id, "geth", addr)
	}
	if old, ok := lw.conns[id.NodeID]; ok && old != c {
		// keep the old transport open; C09 deals with close ordering
		_ = old
	}
	lw.conns[id.NodeID] = c
	return err
}

func (lw *ledgerWorld) allNodes() []*vlib.Identity {
	return append(append([]*vlib.Identity{}, lw.hosts...), lw.clients...)
}

// checkLedger compares Stats().TotalCredit and the independent per-account
// sum with the expected total.
func (lw *ledgerWorld) checkLedger(want *big.Int) (string, bool) {
	total, err := lw.w.TotalCredit()
	if err != nil {
		return "stats error: " + err.Error(), false
	}
	sum, err := lw.w.SumBalances(lw.universe, lw.accounts)
	if err != nil {
		return "sum error: " + err.Error(), false
	}
	if total.Cmp(want) != 0 || sum.Cmp(want) != 0 {
		return fmt.Sprintf("ledger total: Stats=%s per-account-sum=%s expected=%s", total, sum, want), false
	}
	return "", true
}

var c01Mins = []string{"", "", "-1000000", "0", "1", "1000000", "100000000000000000000"}

func randomPeers(r *rand.Rand, lw *ledgerWorld, self *vlib.Identity) ([]ethnode.PeerInfo, []string) {
	all := lw.allNodes()
	cnt := r.Intn(len(all) + 2)
	infos := []ethnode.PeerInfo{}
	names := []string{}
	for j := 0; j < cnt; j++ {
		switch r.Intn(12) {
		case 0:
			infos = append(infos, ethnode.PeerInfo{ID: vlib.NewIdentity("unknown", j).NodeID})
			names = append(names, "unknown")
		case 1:
			infos = append(infos, ethnode.PeerInfo{ID: self.NodeID})
			names = append(names, "self")
		default:
			p := all[r.Intn(len(all))]
			infos = append(infos, ethnode.PeerInfo{ID: p.NodeID})
			names = append(names, p.Name)
		}
	}
	return infos, names
}

// c01Sequential runs one random sequential history and checks the ledger
// after every operation. faults=true injects at most one failing store call
// per pool operation.
func c01Sequential(ev *vlib.Evidence, driver string, idx int, faults bool) {
	label := "C01-seq-"
	if faults {
		label = "C01-fault-"
	}
	r := vlib.Rand(label+driver, idx)
	o := ledgerOpts{driver: driver, price: mustBig(c02Prices[r.Intn(len(c02Prices))]), interval: c02Intervals[r.Intn(len(c02Intervals))],
		nh: 1 + r.Intn(4), nc: 1 + r.Intn(4), nw: r.Intn(4), chaos: faults, seed: int64(idx), family: "c01"}
	if m := c01Mins[r.Intn(len(c01Mins))]; m != "" {
		o.min = mustBig(m)
	}
	lw, err := newLedgerWorld(o)
	if err != nil {
		panic(err)
	}
	defer lw.w.Close()
	w := lw.w
	want := new(big.Int)
	moved := false
	lowBalance := 0
	connected := map[string]bool{}
	steps := 8 + r.Intn(33)
	minStr := "nil"
	if o.min != nil {
		minStr = o.min.String()
	}
	lw.note("config driver=%s price=%s interval=%s min=%s hosts=%d clients=%d wallets=%d", driver, o.price, o.interval, minStr, o.nh, o.nc, o.nw)
	// most nodes are connected before the random part starts
	for i, h := range lw.hosts {
		if r.Intn(4) != 0 {
			if err := lw.connect(h, true, fmt.Sprintf("192.0.2.%d:30000", i+1)); err == nil {
				connected[h.NodeID] = true
			}
		}
	}
	for _, c := range lw.clients {
		if r.Intn(4) != 0 {
			if err := lw.connect(c, false, "192.0.2.250:30000"); err == nil {
				connected[c.NodeID] = true
			}
		}
	}
	for s := 0; s < steps; s++ {
		var failOp string
		var failN int
		if faults && r.Intn(2) == 0 {
			failOp = vlib.Pick(r, "AddNodeBalance", "AddNodeBalance", "AddNodeBalance", "GetNodeBalance", "UpdateNodePeers", "NodePeers", "GetNode", "SetNode", "AddAccountNode", "CheckAndSaveNonce")
			failN = 1 + r.Intn(4)
		}
		if lw.chaos != nil {
			lw.chaos.ResetCalls()
			fo, fn := failOp, failN
			lw.chaos.Fail = func(op string, n int) bool { return op == fo && n == fn }
		}
		before, _ := w.TotalCredit()
		opname := ""
		var opErr error
		switch k := r.Intn(20); {
		case k < 3:
			h := lw.hosts[r.Intn(len(lw.hosts))]
			opname = "connect-host " + h.Name
			opErr = lw.connect(h, true, fmt.Sprintf("192.0.2.%d:30000", 1+r.Intn(200)))
			if opErr == nil {
				connected[h.NodeID] = true
			}
		case k < 6:
			c := lw.clients[r.Intn(len(lw.clients))]
			opname = "connect-client " + c.Name
			opErr = lw.connect(c, false, "192.0.2.250:30000")
			if opErr == nil {
				connected[c.NodeID] = true
			}
		case k < 14:
			all := lw.allNodes()
			n := all[r.Intn(len(all))]
			if r.Intn(3) != 0 {
				n = lw.clients[r.Intn(len(lw.clients))]
			}
			conn := lw.conns[n.NodeID]
			if conn == nil {
				opname = "update-unconnected " + n.Name
				c := w.Dial(n, "192.0.2.251:1")
				_, opErr = w.Update(c.AgentSide, n, nil, 1)
				c.CloseTransportOnly()
				break
			}
			infos, names := randomPeers(r, lw, n)
			elapsed := c02Elapsed(r, o.interval)
			if sn, err := w.RawStore.GetNode(store.NodeID(n.NodeID)); err == nil {
				w.Clock.Set(sn.LastSeen.Add(elapsed))
			}
			opname = fmt.Sprintf("update %s elapsed=%s peers=%v", n.Name, elapsed, names)
			_, opErr = w.Update(conn.AgentSide, n, infos, uint64(s))
			if opErr != nil && strings.Contains(opErr.Error(), "low balance") {
				lowBalance++
			}
		case k < 16:
			all := lw.allNodes()
			n := all[r.Intn(len(all))]
			conn := lw.conns[n.NodeID]
			if conn == nil {
				continue
			}
			num := r.Intn(5)
			opname = fmt.Sprintf("peer %s num=%d", n.Name, num)
			var resp pool.PeerResponse
			opErr = w.Signed(conn.AgentSide, n, n.NodeID, "vipnode_peer", &resp, pool.PeerRequest{Num: num})
		case k == 17 && len(lw.wallets) > 0:
			// withdrawal; sometimes a billed transfer lands on the wallet's node while the settlement is in flight
			wal := lw.wallets[r.Intn(len(lw.wallets))]
			bal, _ := w.RawStore.GetAccountBalance(store.Account(wal.Wallet))
			c0 := new(big.Int).Set(&bal.Credit)
			linked, _ := w.RawStore.GetAccountNodes(store.Account(wal.Wallet))
			inflight := ""
			w.SettleFn = nil
			if len(linked) > 0 && r.Intn(2) == 0 {
				amt := big.NewInt(int64(1 + r.Intn(1000000)))
				payer := lw.clients[r.Intn(len(lw.clients))]
				if _, err := w.RawStore.GetNode(store.NodeID(payer.NodeID)); err == nil {
					inflight = fmt.Sprintf(" [credit %s to a node of the wallet, paid by %s, while settling]", amt, payer.Name)
					w.SettleFn = func(e *vlib.SettleEvent) error {
						w.RawStore.AddNodeBalance(linked[0], amt)
						w.RawStore.AddNodeBalance(store.NodeID(payer.NodeID), new(big.Int).Neg(amt))
						return nil
					}
				}
			}
			opname = fmt.Sprintf("withdraw %s credit=%s%s", wal.Name, c0, inflight)
			opErr = w.Signed(w.Local, wal, wal.Wallet, "pool_withdraw", nil)
			w.SettleFn = nil
			if opErr == nil {
				// only a successful withdrawal changes the sum, and only by the credit it settled
				want.Sub(want, c0)
			}
		case k < 18 && len(lw.wallets) > 0:
			wal := lw.wallets[r.Intn(len(lw.wallets))]
			all := lw.allNodes()
			n := all[r.Intn(len(all))]
			opname = fmt.Sprintf("addNode %s -> %s", n.Name, wal.Name)
			opErr = w.Signed(w.Local, wal, wal.Wallet, "pool_addNode", nil, n.NodeID)
		case k < 19 && len(lw.wallets) > 0:
			// deposit change (on-chain), not part of the credit ledger
			wal := lw.wallets[r.Intn(len(lw.wallets))]
			dep := mustBig(c02Prices[r.Intn(len(c02Prices))])
			w.Deposits.SetDeposit(store.Account(wal.Wallet), dep)
			opname = fmt.Sprintf("deposit %s=%s", wal.Name, dep)
		default:
			// forged keep-alive: signed by another key
			c := lw.clients[r.Intn(len(lw.clients))]
			forger := lw.hosts[0]
			conn := lw.conns[forger.NodeID]
			if conn == nil {
				continue
			}
			opname = "forged-update " + c.Name
			var resp pool.UpdateResponse
			infos, _ := randomPeers(r, lw, c)
			opErr = w.Signed(conn.AgentSide, forger, c.NodeID, "vipnode_update", &resp, pool.UpdateRequest{PeerInfo: infos})
			if opErr == nil {
				ev.Violate("forged-update-accepted", map[string]interface{}{"trace": lw.trace})
			}
		}
		if vlib.IsWatchdog(opErr) {
			// the pool may still be working on this request: nothing can be concluded from the state now
			ev.Inconclusive("harness-watchdog")
			return
		}
		injected := ""
		if lw.chaos != nil && failOp != "" && lw.chaos.Calls(failOp) >= failN {
			injected = fmt.Sprintf(" [injected fault: %s call #%d]", failOp, failN)
			ev.Count("faults-injected:"+failOp, 1)
		}
		errs := "ok"
		if opErr != nil {
			errs = "error: " + opErr.Error()
			if len(errs) > 90 {
				errs = errs[:90]
			}
		}
		lw.note("%s -> %s%s", opname, errs, injected)
		ev.Count("ops:"+strings.Fields(opname)[0], 1)
		after, _ := w.TotalCredit()
		_ = before
		if msg, ok := lw.checkLedger(want); !ok {
			key := driver + ":" + strings.Fields(opname)[0]
			if injected != "" {
				key = "single-store-fault:" + failOp + ":" + strings.Fields(opname)[0]
			} else if opErr != nil && strings.Contains(opErr.Error(), "low balance") {
				key = driver + ":low-balance-cutoff"
			}
			ev.Violate(key, map[string]interface{}{"problem": msg, "index": idx, "trace": lw.trace})
			return
		}
		if bal := creditOf(w.RawStore, lw.clients[0].NodeID); bal.Sign() != 0 {
			moved = true
		}
		_ = after
	}
	if !moved {
		for _, n := range lw.allNodes() {
			if creditOf(w.RawStore, n.NodeID).Sign() != 0 {
				moved = true
			}
		}
	}
	ev.Case(label+driver+strings.Join(lw.trace, ";"), moved)
	ev.Count("low-balance-cutoffs", int64(lowBalance))
	if idx < 1 {
		ev.Sample(map[string]interface{}{"layer": label + driver, "trace": lw.trace})
	}
}

// c01Concurrent: many clients update concurrently against shared hosts while
// wallets are being linked; the ledger is checked at quiescence.
func c01Concurrent(ev *vlib.Evidence, driver string, idx int) {
	r := vlib.Rand("C01-conc-"+driver, idx)
	o := ledgerOpts{driver: driver, price: mustBig(c02Prices[r.Intn(len(c02Prices))]), interval: time.Minute,
		nh: 1 + r.Intn(3), nc: 4 + r.Intn(12), nw: 1 + r.Intn(3), chaos: true, delays: true, seed: int64(idx), family: "c01c"}
	lw, err := newLedgerWorld(o)
	if err != nil {
		panic(err)
	}
	defer lw.w.Close()
	w := lw.w
	for i, h := range lw.hosts {
		if err := lw.connect(h, true, fmt.Sprintf("192.0.2.%d:3", i+1)); err != nil {
			ev.Violate("concurrent:connect-failed", map[string]interface{}{"err": err.Error()})
			return
		}
	}
	for _, c := range lw.clients {
		if err := lw.connect(c, false, "192.0.2.222:3"); err != nil {
			ev.Violate("concurrent:connect-failed", map[string]interface{}{"err": err.Error()})
			return
		}
	}
	w.Clock.Set(time.Now().Add(time.Hour))
	infos := []ethnode.PeerInfo{}
	for _, h := range lw.hosts {
		infos = append(infos, ethnode.PeerInfo{ID: h.NodeID})
	}
	rounds := 2 + r.Intn(4)
	var wg sync.WaitGroup
	var mu sync.Mutex
	okUpdates, errUpdates := 0, 0
	errKinds := map[string]int{}
	for ci, c := range lw.clients {
		wg.Add(1)
		go func(ci int, c *vlib.Identity) {
			defer wg.Done()
			for k := 0; k < rounds; k++ {
				_, err := w.Update(lw.conns[c.NodeID].AgentSide, c, infos, uint64(k))
				mu.Lock()
				if err != nil {
					errUpdates++
					e := err.Error()
					if len(e) > 60 {
						e = e[:60]
					}
					errKinds[e]++
				} else {
					okUpdates++
				}
				mu.Unlock()
			}
		}(ci, c)
	}
	// hosts send their own keep-alives at the same time (they move nothing, but
	// they touch the same node records the billing writes to)
	for _, h := range lw.hosts {
		wg.Add(1)
		go func(h *vlib.Identity) {
			defer wg.Done()
			for k := 0; k < rounds; k++ {
				w.Update(lw.conns[h.NodeID].AgentSide, h, nil, uint64(k))
			}
		}(h)
	}
	// wallets withdraw while their nodes are being credited
	for _, wal := range lw.wallets {
		wg.Add(1)
		go func(wal *vlib.Identity) {
			defer wg.Done()
			for k := 0; k < 2; k++ {
				w.Signed(w.Local, wal, wal.Wallet, "pool_withdraw", nil)
			}
		}(wal)
	}
	// wallet linking in parallel
	for wi, wal := range lw.wallets {
		wg.Add(1)
		go func(wi int, wal *vlib.Identity) {
			defer wg.Done()
			rr := rand.New(rand.NewSource(int64(idx*31 + wi)))
			all := lw.allNodes()
			for k := 0; k < 3; k++ {
				n := all[rr.Intn(len(all))]
				w.Signed(w.Local, wal, wal.Wallet, "pool_addNode", nil, n.NodeID)
			}
		}(wi, wal)
	}
	wg.Wait()
	desc := fmt.Sprintf("conc %s price=%s hosts=%d clients=%d wallets=%d rounds=%d ok=%d err=%d", driver, o.price, o.nh, o.nc, o.nw, rounds, okUpdates, errUpdates)
	ev.Count("concurrent-updates-ok", int64(okUpdates))
	ev.Count("concurrent-updates-err", int64(errUpdates))
	// only successful withdrawals change the sum, and only by the credit they settled
	wantTotal := new(big.Int)
	settled := 0
	for _, se := range w.SettleLog() {
		if se.Err == "" {
			wantTotal.Sub(wantTotal, se.Amount) // no deposits in this phase: paid amount = settled credit
			settled++
		}
	}
	ev.Count("concurrent-withdrawals-settled", int64(settled))
	if msg, ok := lw.checkLedger(wantTotal); !ok {
		ev.Violate("concurrent:"+driver+":not-zero-sum", map[string]interface{}{"problem": msg, "case": desc, "errors": errKinds, "withdrawals_settled": settled})
	}
	ev.Case(desc, okUpdates > 0)
	if idx < 1 {
		ev.Sample(map[string]interface{}{"layer": "concurrent", "case": desc, "errors": errKinds})
	}
}

func TestC01(t *testing.T) {
	ev := vlib.NewEvidence("C01", "exploration",
		"(bin) the built pool binary with price/minimum/store given on its command line, a host and a light client paired and billed over 3-4 s of real time: the host holds exactly what the client lost and pool_status reports total credit 0; (a) random sequential pool histories (connect, reconnect, billed keep-alives with random peer reports and elapsed times, peer requests, pool_addNode linking, deposits, withdrawals incl. a billed transfer landing while the settlement is in flight, forged requests; min balance in {nil,-1e6,0,1,1e6,1e20}) with the ledger total checked two ways after every operation; (b) the same with at most one injected failing store call per pool operation; (c) concurrent client updates against shared hosts with concurrent wallet linking and injected delays, ledger checked at quiescence; non-trivial = credit actually moved; distinct = distinct traces")
	ev.Assume("fault discipline: at most one failing store call per pool operation (clause keys single-store-fault:*)")
	binDone := make(chan struct{})
	go func() {
		defer close(binDone)
		parallelCases(vlib.Scale(7, 70), 4, func(i int) { binEconomy(ev, "C01", i) })
	}()
	for _, driver := range vlib.Drivers() {
		driver := driver
		parallelCases(vlib.Scale(400, 3000), 8, func(i int) { c01Sequential(ev, driver, i, false) })
		parallelCases(vlib.Scale(300, 2400), 8, func(i int) { c01Sequential(ev, driver, i, true) })
		parallelCases(vlib.Scale(30, 300), 2, func(i int) { c01Concurrent(ev, driver, i) })
	}
	<-binDone
	for _, driver := range vlib.Drivers() {
		driver := driver
		parallelCases(vlib.Scale(12, 60), 4, func(i int) { contractEconomy(ev, "C01", driver, i) })
	}
	for _, driver := range vlib.Drivers() {
		c01ManyTrialNodes(ev, driver)
	}
	finish(t, ev)
}
