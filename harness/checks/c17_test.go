package checks

import (
	"context"
	"encoding/json"
	"fmt"
	"io"
	"math/rand"
	"net"
	"net/http"
	"strings"
	"sync"
	"testing"
	"time"

	gobwasws "github.com/gobwas/ws"
	"github.com/gorilla/websocket"
	"github.com/vipnode/vipnode/v2/jsonrpc2"
	"github.com/vipnode/vipnode/v2/jsonrpc2/ws/gobwas"
	"github.com/vipnode/vipnode/v2/jsonrpc2/ws/gorilla"
	"verifharness/vlib"
)

// genMessage builds request and reply messages of varied shape and size.
func genMessage(r *rand.Rand, writer, seq int, maxSize int) *jsonrpc2.Message {
	var id json.RawMessage
	switch r.Intn(4) {
	case 0:
		id = json.RawMessage(fmt.Sprintf("%d", writer*1000000+seq))
	case 1:
		id = json.RawMessage(fmt.Sprintf("%q", fmt.Sprintf("w%d-%d", writer, seq)))
	case 2:
		id = json.RawMessage(fmt.Sprintf("%d.5", writer*1000000+seq))
	default:
		id = json.RawMessage(fmt.Sprintf("%q", fmt.Sprintf("ид-%d-%d-✓", writer, seq)))
	}
	size := 0
	switch r.Intn(6) {
	case 0:
		size = 0
	case 1:
		size = r.Intn(64)
	case 2:
		size = 4000 + r.Intn(300) // around the 4 kB websocket write buffer
	case 3:
		size = r.Intn(20000)
	case 4:
		size = r.Intn(maxSize + 1)
	default:
		size = r.Intn(600)
	}
	var sb strings.Builder
	alphabet := []string{"a", "Z", "0", " ", "\\", "\"", "é", "✓", "日本", "\n", "{", "]", " ", "😀"}
	for sb.Len() < size {
		sb.WriteString(alphabet[r.Intn(len(alphabet))])
	}
	payload := map[string]interface{}{"w": writer, "seq": seq, "pad": sb.String(), "nested": []interface{}{1, "two", map[string]interface{}{"three": []int{3}}}}
	body, _ := json.Marshal(payload)
	msg := &jsonrpc2.Message{ID: id, Version: "2.0"}
	if r.Intn(2) == 0 {
		params, _ := json.Marshal([]interface{}{payload, seq, "x"})
		msg.Request = &jsonrpc2.Request{Method: fmt.Sprintf("svc_method%d", r.Intn(5)), Params: params}
	} else if r.Intn(4) == 0 {
		msg.Response = &jsonrpc2.Response{Error: &jsonrpc2.ErrResponse{Code: -32000 - r.Intn(10), Message: "err " + string([]rune(sb.String())[:min(len([]rune(sb.String())), 50)]), Data: body}}
	} else {
		msg.Response = &jsonrpc2.Response{Result: body}
	}
	return msg
}

func canon(m *jsonrpc2.Message) string {
	b, err := json.Marshal(m)
	if err != nil {
		return "marshal-error:" + err.Error()
	}
	return string(b)
}

// readAll reads n messages (or until error) from a codec with a logical stall guard.
func readAll(c jsonrpc2.Codec, n int) ([]string, error) {
	// the messages are retained as returned and only rendered after the whole
	// sequence was read: a message handed out must not change when later ones arrive
	kept := []*jsonrpc2.Message{}
	render := func() []string {
		out := make([]string, 0, len(kept))
		for _, m := range kept {
			out = append(out, canon(m))
		}
		return out
	}
	type res struct {
		m   *jsonrpc2.Message
		err error
	}
	for len(kept) < n {
		ch := make(chan res, 1)
		go func() { m, err := c.ReadMessage(); ch <- res{m, err} }()
		select {
		case r := <-ch:
			if r.err != nil {
				return render(), r.err
			}
			kept = append(kept, r.m)
		case <-time.After(20 * time.Second):
			return render(), fmt.Errorf("reader stalled after %d of %d messages", len(kept), n)
		}
	}
	return render(), nil
}

func compareSeq(written, read []string) string {
	for i := 0; i < len(written) || i < len(read); i++ {
		switch {
		case i >= len(read):
			return fmt.Sprintf("message %d of %d lost (read %d)", i, len(written), len(read))
		case i >= len(written):
			return fmt.Sprintf("extra message %d read", i)
		case written[i] != read[i]:
			for j := i + 1; j < len(written); j++ {
				if written[j] == read[i] {
					return fmt.Sprintf("message %d skipped or reordered (read message %d at position %d)", i, j, i)
				}
			}
			return fmt.Sprintf("message %d corrupted (len written %d, read %d)", i, len(written[i]), len(read[i]))
		}
	}
	return ""
}

type rwcT struct {
	io.Reader
	io.Writer
	io.Closer
}

// c17Stream: IOCodec over an in-memory byte stream with chunked reads.
func c17Stream(ev *vlib.Evidence, idx int) {
	r := vlib.Rand("C17-stream", idx)
	mode := vlib.ChunkMode(r.Intn(5))
	n := 1 + r.Intn(12)
	bs := vlib.NewByteStream(mode, r.Int63())
	wc := jsonrpc2.IOCodec(rwcT{strings.NewReader(""), bs, bs})
	rc := jsonrpc2.IOCodec(rwcT{bs, io.Discard, bs})
	written := []string{}
	preload := mode == vlib.ChunkAll || r.Intn(2) == 0 // everything in the pipe before the first read
	msgs := []*jsonrpc2.Message{}
	for i := 0; i < n; i++ {
		m := genMessage(r, 0, i, 200000)
		msgs = append(msgs, m)
		written = append(written, canon(m))
	}
	if preload {
		for _, m := range msgs {
			wc.WriteMessage(m)
		}
	} else {
		go func() {
			for _, m := range msgs {
				wc.WriteMessage(m)
			}
		}()
	}
	read, err := readAll(rc, n)
	desc := fmt.Sprintf("stream mode=%s messages=%d preload=%v", vlib.ChunkModeNames[mode], n, preload)
	ev.Case(desc+fmt.Sprint(idx), n > 1)
	ev.Count("messages:stream", int64(len(read)))
	if p := compareSeq(written, read); p != "" || err != nil {
		ev.Violate("stream:"+classifyC17(p, err)+":"+map[bool]string{true: "coalesced", false: "split"}[preload], map[string]interface{}{"case": desc, "index": idx, "problem": p, "err": fmt.Sprint(err), "reads": bs.Reads})
	}
	bs.Close()
	if idx == 0 {
		ev.Sample(map[string]interface{}{"case": desc, "first_message": written[0][:min(len(written[0]), 200)]})
	}
}

func classifyC17(p string, err error) string {
	switch {
	case strings.Contains(p, "lost"):
		return "message-lost"
	case strings.Contains(p, "corrupted"):
		return "message-corrupted"
	case strings.Contains(p, "reordered"):
		return "message-reordered"
	case strings.Contains(p, "extra"):
		return "message-duplicated"
	case err != nil:
		return "reader-error"
	}
	return "other"
}

// dialTCPPair returns two connected TCP conns; the reader side is chunked.
func dialTCPPair(mode vlib.ChunkMode, seed int64) (net.Conn, net.Conn) {
	ln, err := net.Listen("tcp", "127.0.0.1:0")
	if err != nil {
		panic(err)
	}
	defer ln.Close()
	acc := make(chan net.Conn, 1)
	go func() { c, _ := ln.Accept(); acc <- c }()
	c1, err := net.Dial("tcp", ln.Addr().String())
	if err != nil {
		panic(err)
	}
	return c1, vlib.NewChunkConn(<-acc, mode, seed)
}

// c17Writers: concurrent writers on one codec; the receiver checks integrity
// and per-writer order.
func c17Writers(ev *vlib.Evidence, transport string, idx int) {
	r := vlib.Rand("C17-writers-"+transport, idx)
	mode := vlib.ChunkMode(r.Intn(5))
	writers := 2 + r.Intn(15)
	per := 2 + r.Intn(8)
	var wc, rc jsonrpc2.Codec
	cleanup := func() {}
	switch transport {
	case "tcp":
		c1, c2 := dialTCPPair(mode, r.Int63())
		wc, rc = jsonrpc2.IOCodec(c1), jsonrpc2.IOCodec(c2)
		cleanup = func() { c1.Close(); c2.Close() }
	case "gorilla":
		var srv *http.Server
		wc, rc, srv = wsPair("gorilla", mode, r.Int63())
		cleanup = func() { wc.Close(); rc.Close(); srv.Close() }
	}
	defer cleanup()
	if wc == nil || rc == nil {
		ev.Inconclusive("ws-setup")
		return
	}
	want := map[string]bool{}
	var mu sync.Mutex
	var wg sync.WaitGroup
	for w := 0; w < writers; w++ {
		seed := r.Int63()
		wg.Add(1)
		go func(w int, seed int64) {
			defer wg.Done()
			defer func() {
				// the websocket library panics when it detects interleaved writers
				if p := recover(); p != nil {
					ev.Violate("concurrent-writers:"+transport+":panic", map[string]interface{}{"panic": fmt.Sprint(p), "writers": writers})
					wc.Close()
				}
			}()
			rr := rand.New(rand.NewSource(seed))
			for s := 0; s < per; s++ {
				m := genMessage(rr, w, s, 60000)
				mu.Lock()
				want[canon(m)] = true
				mu.Unlock()
				if err := wc.WriteMessage(m); err != nil {
					return
				}
			}
		}(w, seed)
	}
	read, err := readAll(rc, writers*per)
	wg.Wait()
	desc := fmt.Sprintf("writers transport=%s mode=%s writers=%d per=%d", transport, vlib.ChunkModeNames[mode], writers, per)
	ev.Case(desc+fmt.Sprint(idx), true)
	ev.Count("messages:writers-"+transport, int64(len(read)))
	problem := ""
	lastSeq := map[int]int{}
	seen := map[string]bool{}
	for _, raw := range read {
		if !want[raw] {
			problem = "a message was read that no writer wrote (interleaved or corrupted bytes)"
			break
		}
		if seen[raw] {
			problem = "message read twice"
			break
		}
		seen[raw] = true
		var w, s int
		if i := strings.Index(raw, `"seq":`); i >= 0 {
			fmt.Sscanf(raw[i:], `"seq":%d`, &s)
		}
		if i := strings.Index(raw, `"w":`); i >= 0 {
			fmt.Sscanf(raw[i:], `"w":%d`, &w)
		}
		if prev, ok := lastSeq[w]; ok && s <= prev {
			problem = fmt.Sprintf("writer %d: message %d read after %d", w, s, prev)
			break
		}
		lastSeq[w] = s
	}
	if problem == "" && (err != nil || len(read) != writers*per) {
		problem = fmt.Sprintf("read %d of %d messages: %v", len(read), writers*per, err)
	}
	if problem != "" {
		ev.Violate("concurrent-writers:"+transport, map[string]interface{}{"case": desc, "index": idx, "problem": problem})
	}
}

// wsPair dials a websocket connection through the repo's codec constructors;
// both directions read through chunking conns installed below the websocket
// layer. Returns (client codec, server codec, server).
func wsPair(lib string, mode vlib.ChunkMode, seed int64) (jsonrpc2.Codec, jsonrpc2.Codec, *http.Server) {
	ln, err := net.Listen("tcp", "127.0.0.1:0")
	if err != nil {
		panic(err)
	}
	serverCodec := make(chan jsonrpc2.Codec, 1)
	hold := make(chan struct{})
	mux := http.NewServeMux()
	mux.HandleFunc("/", func(w http.ResponseWriter, r *http.Request) {
		var c jsonrpc2.Codec
		var err error
		if lib == "gorilla" {
			c, err = (&gorilla.Upgrader{}).Upgrade(r, w, nil)
		} else {
			c, err = (&gobwas.Upgrader{}).Upgrade(r, w, nil)
		}
		if err != nil {
			serverCodec <- nil
			return
		}
		serverCodec <- c
		<-hold
	})
	srv := &http.Server{Handler: mux}
	go srv.Serve(&vlib.ChunkListener{Listener: ln, Mode: mode, Seed: seed})
	wsDialMu.Lock()
	dial := func(network, addr string) (net.Conn, error) {
		c, err := net.Dial(network, addr)
		if err != nil {
			return nil, err
		}
		return vlib.NewChunkConn(c, mode, seed+1), nil
	}
	websocket.DefaultDialer.NetDial = dial
	gobwasws.DefaultDialer.NetDial = func(ctx context.Context, network, addr string) (net.Conn, error) { return dial(network, addr) }
	var cc jsonrpc2.Codec
	url := "ws://" + ln.Addr().String() + "/"
	if lib == "gorilla" {
		cc, err = gorilla.WebSocketDial(context.Background(), url)
	} else {
		cc, err = gobwas.WebSocketDial(context.Background(), url)
	}
	wsDialMu.Unlock()
	if err != nil {
		srv.Close()
		return nil, nil, srv
	}
	sc := <-serverCodec
	srv.RegisterOnShutdown(func() {})
	go func() {
		time.Sleep(60 * time.Second)
		select {
		case <-hold:
		default:
			close(hold)
		}
	}()
	return cc, sc, srv
}

var wsDialMu sync.Mutex

// c17WS: sequences in both directions over a websocket codec pair.
func c17WS(ev *vlib.Evidence, lib string, idx int) {
	r := vlib.Rand("C17-ws-"+lib, idx)
	mode := vlib.ChunkMode(r.Intn(5))
	cc, sc, srv := wsPair(lib, mode, r.Int63())
	if cc == nil || sc == nil {
		ev.Inconclusive("ws-setup")
		return
	}
	defer func() { cc.Close(); sc.Close(); srv.Close() }()
	n := 1 + r.Intn(10)
	for dir := 0; dir < 2; dir++ {
		from, to, dname := cc, sc, "client->server"
		if dir == 1 {
			from, to, dname = sc, cc, "server->client"
		}
		written := []string{}
		msgs := []*jsonrpc2.Message{}
		for i := 0; i < n; i++ {
			m := genMessage(r, dir, i, 100000)
			msgs = append(msgs, m)
			written = append(written, canon(m))
		}
		werr := make(chan error, 1)
		go func() {
			for _, m := range msgs {
				if err := from.WriteMessage(m); err != nil {
					werr <- err
					return
				}
			}
			werr <- nil
		}()
		read, err := readAll(to, n)
		desc := fmt.Sprintf("ws lib=%s mode=%s dir=%s messages=%d", lib, vlib.ChunkModeNames[mode], dname, n)
		ev.Case(desc+fmt.Sprint(idx), n > 1)
		ev.Count("messages:ws-"+lib, int64(len(read)))
		if p := compareSeq(written, read); p != "" || err != nil {
			big := "small"
			for _, w := range written {
				if len(w) > 4000 {
					big = "over-4kB"
				}
			}
			ev.Violate(lib+":"+classifyC17(p, err)+":"+big, map[string]interface{}{"case": desc, "index": idx, "problem": p, "err": fmt.Sprint(err)})
			return
		}
	}
}

// C17Echo is the HTTP echo receiver.
type C17Echo struct{}

// Echo returns its argument.
func (C17Echo) Echo(ctx context.Context, v map[string]interface{}) (map[string]interface{}, error) {
	return v, nil
}

// c17HTTP: request/response pairs through the HTTP server and client with
// chunked reads on both sides.
func c17HTTP(ev *vlib.Evidence, idx int) {
	r := vlib.Rand("C17-http", idx)
	mode := vlib.ChunkMode(r.Intn(5))
	ln, err := net.Listen("tcp", "127.0.0.1:0")
	if err != nil {
		panic(err)
	}
	hs := &jsonrpc2.HTTPServer{}
	if err := hs.Server.Register("c17_", &C17Echo{}); err != nil {
		panic(err)
	}
	srv := &http.Server{Handler: hs}
	go srv.Serve(&vlib.ChunkListener{Listener: ln, Mode: mode, Seed: r.Int63()})
	defer srv.Close()
	seed := r.Int63()
	client := &jsonrpc2.HTTPService{Endpoint: "http://" + ln.Addr().String() + "/"}
	client.HTTPClient.Transport = &http.Transport{
		DialContext: func(ctx context.Context, network, addr string) (net.Conn, error) {
			c, err := net.Dial(network, addr)
			if err != nil {
				return nil, err
			}
			return vlib.NewChunkConn(c, mode, seed), nil
		},
	}
	n := 1 + r.Intn(6)
	for i := 0; i < n; i++ {
		m := genMessage(r, 0, i, 150000)
		var payload map[string]interface{}
		json.Unmarshal([]byte(canon(m)), &payload)
		var got map[string]interface{}
		ctx, cancel := context.WithTimeout(context.Background(), 30*time.Second)
		err := client.Call(ctx, &got, "c17_echo", payload)
		cancel()
		a, _ := json.Marshal(payload)
		b, _ := json.Marshal(got)
		desc := fmt.Sprintf("http mode=%s size=%d", vlib.ChunkModeNames[mode], len(a))
		ev.Case(desc+fmt.Sprint(idx, i), true)
		ev.Count("messages:http", 1)
		if err != nil || string(a) != string(b) {
			ev.Violate("http:roundtrip", map[string]interface{}{"case": desc, "index": idx, "err": fmt.Sprint(err), "sent_len": len(a), "got_len": len(b)})
			return
		}
	}
}

// c17HTTPExtra: request bodies sent without a Content-Length (chunked
// transfer encoding), and concurrent callers sharing one HTTPService.
func c17HTTPExtra(ev *vlib.Evidence, idx int) {
	r := vlib.Rand("C17-http-extra", idx)
	ln, err := net.Listen("tcp", "127.0.0.1:0")
	if err != nil {
		panic(err)
	}
	hs := &jsonrpc2.HTTPServer{}
	hs.Server.Register("c17_", &C17Echo{})
	srv := &http.Server{Handler: hs}
	go srv.Serve(ln)
	defer srv.Close()
	url := "http://" + ln.Addr().String() + "/"
	// (1) chunked request body
	m := genMessage(r, 0, idx, 50000)
	var payload map[string]interface{}
	json.Unmarshal([]byte(canon(m)), &payload)
	pj, _ := json.Marshal(payload)
	body := fmt.Sprintf(`{"jsonrpc":"2.0","id":7,"method":"c17_echo","params":[%s]}`, pj)
	req, _ := http.NewRequest(http.MethodPost, url, struct{ io.Reader }{strings.NewReader(body)}) // unknown length => chunked
	req.Header.Set("Content-Type", "application/json")
	resp, err := (&http.Client{Timeout: 30 * time.Second}).Do(req)
	ev.Case(fmt.Sprintf("http chunked-request size=%d idx=%d", len(body), idx), true)
	ev.Count("messages:http-chunked-request", 1)
	if err != nil {
		ev.Violate("http:chunked-request-failed", map[string]interface{}{"err": err.Error()})
	} else {
		rb, _ := io.ReadAll(resp.Body)
		resp.Body.Close()
		var rm struct {
			ID     json.RawMessage        `json:"id"`
			Result map[string]interface{} `json:"result"`
		}
		json.Unmarshal(rb, &rm)
		got, _ := json.Marshal(rm.Result)
		if string(rm.ID) != "7" || string(got) != string(pj) {
			ev.Violate("http:chunked-request-not-answered", map[string]interface{}{"status": resp.StatusCode, "reply_len": len(rb), "sent_len": len(body)})
		}
	}
	// (2) concurrent callers on one client service: each gets the echo of its own message
	client := &jsonrpc2.HTTPService{Endpoint: url}
	callers := 4 + r.Intn(12)
	var wg sync.WaitGroup
	var mu sync.Mutex
	wrong := 0
	firstProblem := ""
	for g := 0; g < callers; g++ {
		seed := r.Int63()
		wg.Add(1)
		go func(g int, seed int64) {
			defer wg.Done()
			rr := rand.New(rand.NewSource(seed))
			for k := 0; k < 4; k++ {
				mm := genMessage(rr, g, k, 120000)
				var pl, got map[string]interface{}
				json.Unmarshal([]byte(canon(mm)), &pl)
				pl["caller"] = fmt.Sprintf("g%d-k%d", g, k)
				ctx, cancel := context.WithTimeout(context.Background(), 60*time.Second)
				err := client.Call(ctx, &got, "c17_echo", pl)
				cancel()
				a, _ := json.Marshal(pl)
				b, _ := json.Marshal(got)
				if err != nil || string(a) != string(b) {
					mu.Lock()
					wrong++
					if firstProblem == "" {
						firstProblem = fmt.Sprintf("caller g%d-k%d: err=%v sent %d bytes, echo %d bytes, echo carries caller=%v", g, k, err, len(a), len(b), got["caller"])
					}
					mu.Unlock()
				}
			}
		}(g, seed)
	}
	wg.Wait()
	ev.Case(fmt.Sprintf("http concurrent-callers=%d idx=%d", callers, idx), true)
	ev.Count("messages:http-concurrent", int64(callers*4))
	if wrong > 0 {
		ev.Violate("http:concurrent-callers-got-foreign-or-broken-echo", map[string]interface{}{"callers": callers, "wrong": wrong, "first": firstProblem})
	}
}

func TestC17(t *testing.T) {
	ev := vlib.NewEvidence("C17", "exploration",
		"message sequences (requests, results, errors; ids of several JSON types; 0 B .. 200 kB; unicode, escapes, nesting; sizes around the 4 kB websocket buffer) written through each codec and read back through transports that deliver the same bytes as 1-byte reads, 1..7-byte pieces, random pieces, everything coalesced, or pieces with pauses: IOCodec over an in-memory byte stream, (bin) the built pool binary: POST bodies with and without Content-Length and in small pieces, and 48-96 requests pipelined on one WebSocket with replies of several kB; HTTP server/client over chunked loopback TCP (also request bodies without Content-Length and concurrent callers on one client service), gorilla and gobwas client<->server over loopback TCP with the chunking conn installed below the websocket layer (both directions); plus 2..16 concurrent writers on IOCodec/TCP and gorilla with integrity and per-writer order checked; non-trivial = more than one message in the sequence; distinct = (codec, chunk mode, sequence); (faults) read deadlines passing mid-message, HTTP replies lost after handling")
	ev.Assume("the concurrent-writer clause is asserted for the codecs the binaries use (stream/TCP, HTTP, gorilla), not for gobwas")
	parallelCases(vlib.Scale(300, 8000), 8, func(i int) { c17Stream(ev, i) })
	parallelCases(vlib.Scale(200, 6000), 8, func(i int) { c17ReadDeadlines(ev, i) })
	parallelCases(vlib.Scale(40, 1000), 8, func(i int) { c17HTTP(ev, i) })
	parallelCases(vlib.Scale(20, 400), 4, func(i int) { c17HTTPExtra(ev, i) })
	parallelCases(vlib.Scale(24, 400), 8, func(i int) { c17HTTPReplyLost(ev, i) })
	binDone := make(chan struct{})
	go func() { c17Binary(ev); close(binDone) }()
	parallelCases(vlib.Scale(60, 2000), 4, func(i int) { c17WS(ev, "gorilla", i) })
	parallelCases(vlib.Scale(60, 2000), 4, func(i int) { c17WS(ev, "gobwas", i) })
	parallelCases(vlib.Scale(40, 1000), 4, func(i int) { c17Writers(ev, "tcp", i) })
	parallelCases(vlib.Scale(30, 800), 4, func(i int) { c17Writers(ev, "gorilla", i) })
	<-binDone
	finish(t, ev)
}
