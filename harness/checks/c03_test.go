package checks

import (
	"fmt"
	"math/big"
	"regexp"
	"sort"
	"strings"
	"testing"
	"time"

	"github.com/vipnode/vipnode/v2/ethnode"
	"github.com/vipnode/vipnode/v2/pool"
	"github.com/vipnode/vipnode/v2/pool/store"
	"verifharness/vlib"
)

var c03Mins = []string{"nil", "-1000000", "-1", "0", "1", "1000000", "100000000000000000000"}
var lowBalRe = regexp.MustCompile(`low balance error: Current balance \((-?\d+)\) is less than the required minimum \((-?\d+)\)`)

// parseLowBalance extracts (current, minimum) from an RPC error message.
func parseLowBalance(err error) (cur, min *big.Int, ok bool) {
	if err == nil {
		return nil, nil, false
	}
	m := lowBalRe.FindStringSubmatch(err.Error())
	if m == nil {
		return nil, nil, false
	}
	return mustBig(m[1]), mustBig(m[2]), true
}

// setSpendable arranges deposit+credit = b for a node; linked selects a
// wallet-linked node (deposit/credit split) or a trial balance.
func setSpendable(w *vlib.World, r interface{ Intn(int) int }, nodeID string, wallet string, linked bool, b *big.Int) string {
	cur, _ := w.RawStore.GetNodeBalance(store.NodeID(nodeID))
	if !linked {
		delta := new(big.Int).Sub(b, &cur.Credit)
		w.RawStore.AddNodeBalance(store.NodeID(nodeID), delta)
		return fmt.Sprintf("trial credit=%s", b)
	}
	if cur.Account == "" {
		w.RawStore.AddAccountNode(store.Account(wallet), store.NodeID(nodeID))
		cur, _ = w.RawStore.GetNodeBalance(store.NodeID(nodeID))
	}
	// choose a deposit >= 0 and credit = b - deposit (possibly negative)
	var dep *big.Int
	switch r.Intn(4) {
	case 0:
		dep = new(big.Int)
	case 1:
		dep = big.NewInt(int64(1 + r.Intn(1000000)))
	case 2:
		dep = mustBig("100000000000000000000")
	default:
		dep = new(big.Int).Abs(b)
	}
	credit := new(big.Int).Sub(b, dep)
	delta := new(big.Int).Sub(credit, &cur.Credit)
	w.RawStore.AddAccountBalance(store.Account(wallet), delta)
	w.Deposits.SetDeposit(store.Account(wallet), dep)
	return fmt.Sprintf("deposit=%s credit=%s", dep, credit)
}

func spendable(w *vlib.World, nodeID string) *big.Int {
	b, err := w.Deposits.GetNodeBalance(store.NodeID(nodeID))
	if err != nil {
		return new(big.Int)
	}
	return new(big.Int).Add(&b.Credit, &b.Deposit)
}

func targetAround(r interface{ Intn(int) int }, m *big.Int) (*big.Int, string) {
	switch r.Intn(6) {
	case 0:
		return new(big.Int).Sub(m, big.NewInt(1)), "min-1"
	case 1:
		return new(big.Int).Set(m), "min"
	case 2:
		return new(big.Int).Add(m, big.NewInt(1)), "min+1"
	case 3:
		return new(big.Int).Sub(m, mustBig("1000000000000000000000")), "far-below"
	case 4:
		return new(big.Int).Add(m, mustBig("1000000000000000000000")), "far-above"
	default:
		return new(big.Int).Add(m, big.NewInt(int64(r.Intn(2001)-1000))), "near"
	}
}

func c03Case(ev *vlib.Evidence, driver string, idx int) {
	r := vlib.Rand("C03-"+driver, idx)
	minS := c03Mins[r.Intn(len(c03Mins))]
	var min *big.Int
	if minS != "nil" {
		min = mustBig(minS)
	}
	// price 1 per ns: the charge of one peer equals the elapsed nanoseconds
	w, err := vlib.NewWorld(vlib.WorldOptions{Driver: driver, Price: big.NewInt(1), Interval: time.Nanosecond, MinBalance: min, Deposits: true})
	if err != nil {
		panic(err)
	}
	defer w.Close()
	trace := []string{fmt.Sprintf("config driver=%s min=%s", driver, minS)}
	fail := func(key string, extra map[string]interface{}) {
		extra["trace"] = trace
		extra["index"] = idx
		ev.Violate(key, extra)
	}
	refMin := min
	if refMin == nil {
		refMin = new(big.Int)
	}
	// hosts: connect with arbitrary (low) balances: must never be refused
	nh := 1 + r.Intn(3)
	hosts := []*vlib.Identity{}
	hostConns := map[string]*vlib.Conn{}
	for i := 0; i < nh; i++ {
		h := vlib.NewIdentity("c03host", (idx+i)%11)
		hosts = append(hosts, h)
		// pre-register so a balance can exist before the connect
		w.RawStore.SetNode(store.Node{ID: store.NodeID(h.NodeID), IsHost: true, LastSeen: time.Now()})
		tb, cls := targetAround(r, refMin)
		how := setSpendable(w, r, h.NodeID, fmt.Sprintf("0xHostWallet%d", i), r.Intn(2) == 0, tb)
		c, err := w.ConnectHost(h, "geth", fmt.Sprintf("192.0.2.%d:7", i+1))
		trace = append(trace, fmt.Sprintf("connect host%d balance=%s(%s %s) -> %v", i, tb, cls, how, err))
		hostConns[h.NodeID] = c
		if err != nil {
			fail("host-refused-at-connect", map[string]interface{}{"err": err.Error(), "balance": tb.String()})
			return
		}
	}
	// client connect
	client := vlib.NewIdentity("c03client", idx%13)
	w.RawStore.SetNode(store.Node{ID: store.NodeID(client.NodeID), IsHost: false, LastSeen: time.Now()})
	linked := r.Intn(2) == 0
	wallet := "0xClientWallet"
	tb, cls := targetAround(r, refMin)
	how := setSpendable(w, r, client.NodeID, wallet, linked, tb)
	if got := spendable(w, client.NodeID); got.Cmp(tb) != 0 {
		if c := w.Deposits.Corrupted(); len(c) > 0 {
			fail("deposit-cache-modified-by-the-pool", map[string]interface{}{"deposits": c, "after": "host connects"})
			return
		}
		panic(fmt.Sprintf("harness: spendable %s != target %s", got, tb))
	}
	cc := w.Dial(client, "192.0.2.99:7")
	var cresp pool.ConnectResponse
	cerr := w.Signed(cc.AgentSide, client, client.NodeID, "vipnode_connect", &cresp, vlib.ConnectReq(false, "geth", "", ""))
	trace = append(trace, fmt.Sprintf("connect client balance=%s(%s %s) -> %v", tb, cls, how, cerr))
	wantRefuse := min != nil && tb.Cmp(min) < 0
	cur, _, isLow := parseLowBalance(cerr)
	ev.Case(fmt.Sprintf("connect min=%s class=%s linked=%v", minS, cls, linked), min != nil)
	ev.Count("connect-cases", 1)
	switch {
	case wantRefuse && !isLow:
		fail("connect:not-refused-below-min", map[string]interface{}{"balance": tb.String(), "min": minS, "err": fmt.Sprint(cerr)})
		return
	case !wantRefuse && cerr != nil:
		fail("connect:refused-at-or-above-min", map[string]interface{}{"balance": tb.String(), "min": minS, "err": cerr.Error()})
		return
	case wantRefuse && cur.Cmp(tb) != 0:
		fail("connect:wrong-current-balance", map[string]interface{}{"reported": cur.String(), "actual": tb.String()})
		return
	}
	if wantRefuse {
		ev.Count("connect-refusals", 1)
	}
	if c := w.Deposits.Corrupted(); len(c) > 0 {
		fail("deposit-cache-modified-by-the-pool", map[string]interface{}{"deposits": c, "after": "connect"})
		return
	}
	// sometimes a host earns into the client's own wallet, or the client reports itself as a peer:
	// its own account is then credited during its own keep-alive
	sharedHost := ""
	if linked && r.Intn(4) == 0 {
		sharedHost = hosts[0].NodeID
		w.RawStore.AddAccountNode(store.Account(wallet), store.NodeID(sharedHost))
		trace = append(trace, "host0 earns into the client's wallet")
	}
	selfPeer := r.Intn(8) == 0
	// keep-alives walking the balance around / across the threshold
	tracked := map[string]bool{}
	steps := 1 + r.Intn(5)
	for s := 0; s < steps; s++ {
		// choose reported hosts
		infos := []ethnode.PeerInfo{}
		for _, h := range hosts {
			if r.Intn(3) != 0 {
				infos = append(infos, ethnode.PeerInfo{ID: h.NodeID})
				tracked[h.NodeID] = true
			}
		}
		// occasionally a host's connection goes away before the update
		if r.Intn(6) == 0 {
			h := hosts[r.Intn(nh)]
			if c := hostConns[h.NodeID]; c != nil {
				c.Close()
				delete(hostConns, h.NodeID)
				trace = append(trace, "close host connection "+h.Name)
			}
		}
		if selfPeer {
			infos = append(infos, ethnode.PeerInfo{ID: client.NodeID})
			tracked[client.NodeID] = true
		}
		np := int64(len(tracked))
		// peers whose credit flows back into the client's own account
		back := int64(0)
		if sharedHost != "" && tracked[sharedHost] {
			back++
		}
		if tracked[client.NodeID] {
			back++
		}
		// charge size class relative to the minimum
		var perPeer int64
		switch r.Intn(5) {
		case 0:
			perPeer = 0
		case 1:
			perPeer = 1
		case 2:
			perPeer = int64(1 + r.Intn(1000))
		case 3:
			perPeer = 1000000 + int64(r.Intn(1000))
		default:
			perPeer = int64(time.Hour)
		}
		charge := new(big.Int).Mul(big.NewInt(perPeer), big.NewInt(np-back))
		after, cls := targetAround(r, refMin)
		beforeB := new(big.Int).Add(after, charge)
		how := setSpendable(w, r, client.NodeID, wallet, linked, beforeB)
		if c := w.Deposits.Corrupted(); len(c) > 0 {
			fail("deposit-cache-modified-by-the-pool", map[string]interface{}{"deposits": c})
			return
		}
		n0, err := w.RawStore.GetNode(store.NodeID(client.NodeID))
		if err != nil {
			panic(err)
		}
		w.Clock.Set(n0.LastSeen.Add(time.Duration(perPeer)))
		stamp := w.Tick()
		t0 := time.Now()
		_, uerr := w.Update(cc.AgentSide, client, infos, uint64(s))
		t1 := time.Now()
		got := spendable(w, client.NodeID)
		trace = append(trace, fmt.Sprintf("update tracked=%d charge=%s before=%s(%s) target-after=%s(%s) -> err=%v balance-after=%s", np, charge, beforeB, how, after, cls, uerr, got))
		billed := charge.Sign() > 0
		below := min != nil && after.Cmp(min) < 0
		cur, _, isLow := parseLowBalance(uerr)
		ev.Case(fmt.Sprintf("update min=%s class=%s perPeer=%d peers=%d linked=%v", minS, cls, perPeer, np, linked), min != nil && billed)
		ev.Count("update-cases", 1)
		if uerr != nil && !isLow {
			fail("update:unexpected-error", map[string]interface{}{"err": uerr.Error()})
			return
		}
		if perPeer > 0 && np > 0 {
			// the billed stretch ends where this keep-alive was received: it is never charged again
			if n1, err := w.RawStore.GetNode(store.NodeID(client.NodeID)); err == nil && (n1.LastSeen.Before(t0.Add(-time.Millisecond)) || n1.LastSeen.After(t1.Add(time.Millisecond))) {
				fail("update:billed-stretch-would-be-charged-again", map[string]interface{}{"last_seen_after_update": n1.LastSeen, "call_start": t0, "call_end": t1, "cut_off": uerr != nil})
				return
			}
		}
		if billed && got.Cmp(after) != 0 {
			fail("update:charge-not-applied", map[string]interface{}{"balance_after": got.String(), "expected": after.String(), "cut_off": isLow})
			return
		}
		if !below && isLow {
			fail("update:cut-off-at-or-above-min", map[string]interface{}{"balance_after": got.String(), "min": minS, "err": uerr.Error()})
			return
		}
		if billed && below && !isLow {
			fail("update:not-cut-off-below-min", map[string]interface{}{"balance_after": got.String(), "min": minS})
			return
		}
		if isLow {
			ev.Count("update-cutoffs", 1)
			if cur.Cmp(got) != 0 {
				fail("update:wrong-current-balance", map[string]interface{}{"reported": cur.String(), "actual": got.String()})
				return
			}
			// every connected host peering with the client must have been asked to disconnect it
			seen := map[string]bool{}
			wrongArg := ""
			for _, e := range w.EventsSince(stamp) {
				if e.Method == "disconnect" {
					if e.Arg != client.NodeID {
						wrongArg = e.Arg
					}
					seen[e.Host] = true
				}
			}
			if wrongArg != "" {
				fail("update:disconnect-wrong-id", map[string]interface{}{"arg": vlib.Short(wrongArg), "client": vlib.Short(client.NodeID)})
				return
			}
			missing := []string{}
			for h := range tracked {
				if hostConns[h] != nil && !seen[h] {
					missing = append(missing, vlib.Short(h))
				}
			}
			sort.Strings(missing)
			if len(missing) > 0 {
				fail("update:disconnect-not-sent", map[string]interface{}{"missing_hosts": missing})
				return
			}
			ev.Count("disconnect-fanouts-observed", int64(len(seen)))
		} else {
			for _, e := range w.EventsSince(stamp) {
				if e.Method == "disconnect" {
					fail("update:disconnect-without-cutoff", map[string]interface{}{"event": fmt.Sprintf("%+v", e)})
					return
				}
			}
		}
		if c := w.Deposits.Corrupted(); len(c) > 0 {
			fail("deposit-cache-modified-by-the-pool", map[string]interface{}{"deposits": c})
			return
		}
	}
	if c := w.Deposits.Corrupted(); len(c) > 0 {
		fail("deposit-cache-modified-by-the-pool", map[string]interface{}{"deposits": c})
		return
	}
	if idx < 2 {
		ev.Sample(map[string]interface{}{"driver": driver, "trace": trace})
	}
	_ = strings.Join
}

func TestC03(t *testing.T) {
	ev := vlib.NewEvidence("C03", "exploration",
		"(bin) the built pool binary with --contract.min-balance in {unset, off, 1, 1 gwei, 0, -1.5 s of billing, -1 ether}: refused at connect / cut off at a billed keep-alive exactly when below the minimum, error carries balance and minimum, host asked to disconnect; per case: a pool with minimum in {nil,-1e6,-1,0,1,1e6,1e20}; hosts connect with balances around the minimum (never refused); a client connects with spendable balance (all deposit/credit splits, linked or trial) in {min-1,min,min+1,far below,far above,near}; then 1-5 billed keep-alives whose charge (0,1,small,~1e6,1 hour of ns per peer) and post-charge balance class are chosen independently; oracle: refusal/cut-off iff balance-after-charge < min, reported balance = stored balance, disconnect fan-out to every connected host peering with the client; non-trivial = minimum configured (updates: and something billed); distinct = (min, class, charge class, peers, linked); (faults) below-minimum clients connecting while the balance read fails")
	binDone := make(chan struct{})
	go func() {
		defer close(binDone)
		parallelCases(vlib.Scale(7, 70), 4, func(i int) { binEconomy(ev, "C03", i) })
		parallelCases(vlib.Scale(6, 60), 3, func(i int) { binCutOffHangUp(ev, i) })
	}()
	for _, driver := range vlib.Drivers() {
		driver := driver
		parallelCases(vlib.Scale(1500, 9000), 8, func(i int) { c03Case(ev, driver, i) })
	}
	<-binDone
	for _, driver := range vlib.Drivers() {
		driver := driver
		parallelCases(vlib.Scale(12, 60), 4, func(i int) { contractEconomy(ev, "C03", driver, i) })
		parallelCases(vlib.Scale(60, 400), 4, func(i int) { c03BalanceReadFails(ev, driver, i) })
		parallelCases(vlib.Scale(100, 1000), 4, func(i int) { c03ReconnectAfterBalanceChange(ev, driver, i) })
	}
	for _, driver := range vlib.Drivers() {
		for _, nh := range []int{33, 40, 100} {
			c03ManyHostsCutOff(ev, driver, nh)
		}
	}
	finish(t, ev)
}
