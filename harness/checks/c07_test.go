package checks

import (
	"errors"
	"fmt"
	"math/big"
	"strings"
	"sync"
	"sync/atomic"
	"testing"
	"time"

	"github.com/anishathalye/porcupine"
	"github.com/vipnode/vipnode/v2/pool/store"
	"verifharness/vlib"
)

type feeCfg struct {
	Name string
	Fn   func(*big.Int) *big.Int // must not mutate its argument here; wrapped below
}

var c07Fees = []feeCfg{
	{"none", nil},
	{"const1000", func(a *big.Int) *big.Int { return new(big.Int).Sub(a, big.NewInt(1000)) }},
	{"1percent", func(a *big.Int) *big.Int {
		fee := new(big.Int).Quo(a, big.NewInt(100))
		return new(big.Int).Sub(a, fee)
	}},
}
var c07Mins = []string{"nil", "0", "5000", "1000000000000000000"}

type c07World struct {
	w      *vlib.World
	fee    feeCfg
	min    *big.Int
	wallet *vlib.Identity
	acct   store.Account
	node   store.NodeID
	trace  []string
	// per-goroutine settle amounts (the handler runs in the caller's goroutine over Local)
	paidMu sync.Mutex
	paidBy map[int64]*big.Int
}

func newC07World(driver string, fee feeCfg, minS string, walletIdx int) *c07World {
	w, err := vlib.NewWorld(vlib.WorldOptions{Driver: driver, Deposits: true, WithPayment: true})
	if err != nil {
		panic(err)
	}
	cw := &c07World{w: w, fee: fee, wallet: vlib.NewIdentity("c07wallet", walletIdx), paidBy: map[int64]*big.Int{}}
	cw.acct = store.Account(cw.wallet.Wallet)
	// a host node whose earnings go to this wallet
	cw.node = store.NodeID("c07node-" + cw.wallet.Name)
	w.RawStore.SetNode(store.Node{ID: cw.node, IsHost: true, LastSeen: time.Now()})
	w.RawStore.AddAccountNode(cw.acct, cw.node)
	if fee.Fn != nil {
		f := fee.Fn
		if walletIdx%2 == 0 {
			// production style: the configured fee function works in place
			w.Payment.WithdrawFee = func(a *big.Int) *big.Int { return a.Set(f(a)) }
		} else {
			// equally legal: a pure function returning a new amount
			w.Payment.WithdrawFee = func(a *big.Int) *big.Int { return f(new(big.Int).Set(a)) }
		}
	}
	if minS != "nil" {
		cw.min = mustBig(minS)
		w.Payment.WithdrawMin = cw.min
	}
	return cw
}

func (cw *c07World) balance() *big.Int {
	b, _ := cw.w.Deposits.GetAccountBalance(cw.acct)
	return new(big.Int).Add(&b.Credit, &b.Deposit)
}

func (cw *c07World) expectedPayout(bal *big.Int) *big.Int {
	if cw.fee.Fn == nil {
		return new(big.Int).Set(bal)
	}
	return cw.fee.Fn(new(big.Int).Set(bal))
}

func (cw *c07World) withdraw() error {
	return cw.w.Signed(cw.w.Local, cw.wallet, cw.wallet.Wallet, "pool_withdraw", nil)
}

func paidTotal(log []vlib.SettleEvent, acct store.Account) *big.Int {
	t := new(big.Int)
	for _, e := range log {
		if e.Err == "" && e.Account == acct {
			t.Add(t, e.Amount)
		}
	}
	return t
}

// c07Sequential: accrue / withdraw histories with settlement failing at a
// chosen attempt (failAt = 0: never).
func c07Sequential(ev *vlib.Evidence, driver string, idx int, failAt int) {
	r := vlib.Rand(fmt.Sprintf("C07-seq-%s-f%d", driver, failAt), idx)
	fee, minS0 := c07Fees[r.Intn(len(c07Fees))], c07Mins[r.Intn(len(c07Mins))]
	if fee.Name == "const1000" && (minS0 == "nil" || minS0 == "0") {
		minS0 = "5000" // a constant fee is only configured together with a minimum above it
	}
	cw := newC07World(driver, fee, minS0, idx%9)
	defer cw.w.Close()
	w := cw.w
	attempts := 0
	var duringSettle *big.Int // credited to the wallet's node while the settlement is in flight
	w.SettleFn = func(e *vlib.SettleEvent) error {
		attempts++
		if attempts == failAt {
			return errors.New("injected settlement failure")
		}
		if duringSettle != nil {
			w.RawStore.AddNodeBalance(cw.node, duringSettle)
		}
		return nil
	}
	minS := "nil"
	if cw.min != nil {
		minS = cw.min.String()
	}
	cw.trace = append(cw.trace, fmt.Sprintf("config driver=%s fee=%s min=%s settle-fails-at=%d", driver, cw.fee.Name, minS, failAt))
	owed := new(big.Int) // initial deposit + accrued credit
	fees := new(big.Int)
	if r.Intn(2) == 0 {
		d := mustBig(vlib.Pick(r, "1", "4999", "5000", "5001", "1000000000000000000", "123456789012345678901"))
		w.Deposits.SetDeposit(cw.acct, d)
		owed.Add(owed, d)
		cw.trace = append(cw.trace, "deposit "+d.String())
	}
	paidOK := 0
	for s := 0; s < 4+r.Intn(8); s++ {
		if r.Intn(5) < 2 {
			// accrue; balances around the minimum are reachable through the amounts
			amt := mustBig(vlib.Pick(r, "1", "999", "1000", "1001", "4999", "5000", "5001", "10000", "999999999999999999", "1000000000000000000", "1000000000000000001", "777777777777777777777"))
			w.RawStore.AddAccountBalance(cw.acct, amt)
			owed.Add(owed, amt)
			cw.trace = append(cw.trace, "accrue "+amt.String())
			continue
		}
		before := cw.balance()
		logBefore := len(w.SettleLog())
		attemptsBefore := attempts
		duringSettle = nil
		if r.Intn(4) == 0 {
			duringSettle = big.NewInt(int64(1 + r.Intn(100000)))
		}
		err := cw.withdraw()
		after := cw.balance()
		arrived := new(big.Int)
		if duringSettle != nil && len(w.SettleLog()) > logBefore {
			last := w.SettleLog()[len(w.SettleLog())-1]
			if last.Err == "" {
				arrived = duringSettle
				owed.Add(owed, arrived)
				cw.trace = append(cw.trace, "credit "+arrived.String()+" arrives while the settlement is in flight")
			}
		}
		log := w.SettleLog()[logBefore:]
		cw.trace = append(cw.trace, fmt.Sprintf("withdraw balance=%s -> err=%v settle-calls=%d balance-after=%s", before, err, len(log), after))
		detail := func() map[string]interface{} { return map[string]interface{}{"trace": cw.trace, "index": idx} }
		meetsMin := cw.min == nil || before.Cmp(cw.min) >= 0
		willFail := failAt != 0 && attemptsBefore+1 == failAt
		ev.Count("withdrawals", 1)
		switch {
		case !meetsMin:
			if err == nil || len(log) > 0 {
				ev.Violate("sequential:paid-below-minimum", detail())
				return
			}
			if after.Cmp(before) != 0 {
				ev.Violate("sequential:refused-withdrawal-changed-balance", detail())
				return
			}
			ev.Count("withdrawals-refused-below-min", 1)
		case willFail:
			if err == nil {
				ev.Violate("sequential:failed-settlement-reported-success", detail())
				return
			}
			if after.Cmp(before) != 0 {
				ev.Violate("sequential:failed-settlement-changed-balance", detail())
				return
			}
			ev.Count("settlement-failures-injected", 1)
		default:
			if err != nil {
				ev.Violate("sequential:eligible-withdrawal-failed", detail())
				return
			}
			if len(log) != 1 || log[0].Err != "" {
				ev.Violate("sequential:settle-call-count", detail())
				return
			}
			want := cw.expectedPayout(before)
			if log[0].Amount.Cmp(want) != 0 || log[0].Account != cw.acct {
				d := detail()
				d["paid"], d["expected"] = log[0].Amount.String(), want.String()
				ev.Violate("sequential:wrong-amount-paid", d)
				return
			}
			fees.Add(fees, new(big.Int).Sub(before, want))
			if after.Cmp(arrived) != 0 {
				d := detail()
				d["left_after_withdrawal"] = after.String()
				ev.Violate("sequential:balance-left-after-withdrawal", d)
				return
			}
			paidOK++
		}
		if c := w.Deposits.Corrupted(); len(c) > 0 {
			d := detail()
			d["deposits"] = c
			ev.Violate("sequential:deposit-cache-modified-by-the-pool", d)
			return
		}
		// conservation
		paid := paidTotal(w.SettleLog(), cw.acct)
		lhs := new(big.Int).Add(new(big.Int).Add(paid, fees), cw.balance())
		if lhs.Cmp(owed) != 0 {
			d := detail()
			d["paid"], d["fees"], d["remaining"], d["owed"] = paid.String(), fees.String(), cw.balance().String(), owed.String()
			ev.Violate("sequential:conservation", d)
			return
		}
	}
	ev.Case(strings.Join(cw.trace, ";"), paidOK > 0)
	if idx == 0 {
		ev.Sample(map[string]interface{}{"layer": "sequential", "trace": cw.trace})
	}
}

type wIn struct {
	Kind   string // "withdraw" | "accrue"
	Amount string
}
type wOut struct {
	Paid      string // "" when nothing was paid
	Refused   bool
	NotVerify bool // refused for another reason than authentication (e.g. below minimum)
}

func c07Model(cw *c07World) porcupine.Model {
	return porcupine.Model{
		Init: func() interface{} { return "0" },
		Step: func(st, in, out interface{}) (bool, interface{}) {
			bal := mustBig(st.(string))
			i, o := in.(wIn), out.(wOut)
			if i.Kind == "accrue" {
				return true, new(big.Int).Add(bal, mustBig(i.Amount)).String()
			}
			if i.Kind == "read" {
				return o.Paid == bal.String(), st
			}
			meets := cw.min == nil || bal.Cmp(cw.min) >= 0
			if o.Paid == "" {
				if o.Refused && !o.NotVerify {
					return true, st // refused at authentication (e.g. overtaken nonce): no effect
				}
				return !meets, st
			}
			if !meets {
				return false, st
			}
			return mustBig(o.Paid).Cmp(cw.expectedPayout(bal)) == 0, "0"
		},
		DescribeOperation: func(in, out interface{}) string { return fmt.Sprintf("%+v -> %+v", in, out) },
	}
}

// c07Concurrent: several withdrawals of one wallet race (settle handler
// sleeping keeps the window open), optionally with concurrent accrual.
func c07Concurrent(ev *vlib.Evidence, driver string, idx int) {
	r := vlib.Rand("C07-conc-"+driver, idx)
	fee, minS0 := c07Fees[r.Intn(len(c07Fees))], c07Mins[r.Intn(3)]
	if fee.Name == "const1000" {
		minS0 = "5000"
	}
	cw := newC07World(driver, fee, minS0, idx%9)
	defer cw.w.Close()
	w := cw.w
	hold := time.Duration(r.Intn(3)) * time.Millisecond
	w.SettleFn = func(e *vlib.SettleEvent) error {
		cw.paidMu.Lock()
		cw.paidBy[vlib.GoID()] = new(big.Int).Set(e.Amount)
		cw.paidMu.Unlock()
		time.Sleep(hold)
		return nil
	}
	initial := mustBig(vlib.Pick(r, "5000", "10000", "1000000000000000000", "31337000000000000000"))
	w.RawStore.AddAccountBalance(cw.acct, initial)
	owed := new(big.Int).Set(initial)
	k := 2 + r.Intn(7)
	accruers := r.Intn(4)
	var clock int64
	var mu sync.Mutex
	history := []porcupine.Operation{{ClientId: 0, Input: wIn{"accrue", initial.String()}, Call: 0, Output: wOut{}, Return: 0}}
	var wg sync.WaitGroup
	start := make(chan struct{})
	for g := 0; g < k; g++ {
		wg.Add(1)
		nonce := w.NextNonce(cw.wallet.Wallet)
		go func(g int) {
			defer wg.Done()
			<-start
			call := atomic.AddInt64(&clock, 1)
			err := w.SignedNonce(w.Local, cw.wallet, cw.wallet.Wallet, "pool_withdraw", nonce, nil)
			ret := atomic.AddInt64(&clock, 1)
			out := wOut{}
			cw.paidMu.Lock()
			if p, ok := cw.paidBy[vlib.GoID()]; ok && err == nil {
				out.Paid = p.String()
			}
			cw.paidMu.Unlock()
			if err != nil {
				out.Refused = true
				out.NotVerify = !strings.Contains(err.Error(), "failed to verify")
			}
			mu.Lock()
			history = append(history, porcupine.Operation{ClientId: g + 1, Input: wIn{Kind: "withdraw"}, Call: call, Output: out, Return: ret})
			mu.Unlock()
		}(g)
	}
	for a := 0; a < accruers; a++ {
		wg.Add(1)
		amt := big.NewInt(int64(1000 * (1 + r.Intn(50))))
		owed.Add(owed, amt)
		go func(a int, amt *big.Int) {
			defer wg.Done()
			<-start
			call := atomic.AddInt64(&clock, 1)
			if a%2 == 0 {
				w.RawStore.AddNodeBalance(cw.node, amt) // earnings of a node linked to the wallet
			} else {
				w.RawStore.AddAccountBalance(cw.acct, amt)
			}
			ret := atomic.AddInt64(&clock, 1)
			mu.Lock()
			history = append(history, porcupine.Operation{ClientId: 100 + a, Input: wIn{"accrue", amt.String()}, Call: call, Output: wOut{}, Return: ret})
			mu.Unlock()
		}(a, amt)
	}
	close(start)
	wg.Wait()
	// a final read closes the history: what is left must be what the model says
	history = append(history, porcupine.Operation{ClientId: 999, Input: wIn{Kind: "read"}, Call: atomic.AddInt64(&clock, 1), Output: wOut{Paid: cw.balance().String()}, Return: atomic.AddInt64(&clock, 1)})
	desc := fmt.Sprintf("conc %s fee=%s min=%v withdrawals=%d accruers=%d initial=%s hold=%s", driver, cw.fee.Name, cw.min, k, accruers, initial, hold)
	ev.Count("concurrent-withdrawals", int64(k))
	log := w.SettleLog()
	paid := paidTotal(log, cw.acct)
	// fees are owed - paid - remaining by definition; bound: what was paid plus what is left never exceeds what was owed
	over := new(big.Int).Add(paid, cw.balance())
	ops := []string{}
	for _, op := range history {
		ops = append(ops, fmt.Sprintf("[%d,%d] %+v -> %+v", op.Call, op.Return, op.Input, op.Output))
	}
	if over.Cmp(owed) > 0 {
		ev.Violate("concurrent:"+driver+":paid-more-than-owed", map[string]interface{}{"case": desc, "paid": paid.String(), "remaining": cw.balance().String(), "owed": owed.String(), "settle_calls": len(log), "history": ops})
	} else {
		res, _ := porcupine.CheckOperationsVerbose(c07Model(cw), history, 20*time.Second)
		if res == porcupine.Illegal {
			ev.Violate("concurrent:"+driver+":not-linearizable", map[string]interface{}{"case": desc, "history": ops})
		} else if res == porcupine.Unknown {
			ev.Inconclusive("porcupine-timeout")
			return
		}
	}
	ev.Case(desc, len(log) > 0)
	if idx == 0 {
		ev.Sample(map[string]interface{}{"layer": "concurrent", "case": desc, "history": ops})
	}
}

// c07SustainedAccrual: a wallet whose hosts keep earning (several goroutines
// crediting it without pause, so that the persistent driver's optimistic
// transactions conflict again and again) while it withdraws over and over.
// No fee, no minimum: at quiescence everything that was ever credited has
// either been paid or is still there - exactly.
func c07SustainedAccrual(ev *vlib.Evidence, driver string, idx int) {
	r := vlib.Rand("C07-sustained-"+driver, idx)
	cw := newC07World(driver, feeCfg{Name: "none"}, "nil", idx%9)
	defer cw.w.Close()
	w := cw.w
	creditors := 3 + r.Intn(4)
	withdrawals := 100 + r.Intn(100)
	var stop int32
	var wg sync.WaitGroup
	credited := make([]*big.Int, creditors)
	for c := 0; c < creditors; c++ {
		credited[c] = new(big.Int)
		wg.Add(1)
		go func(c int) {
			defer wg.Done()
			amt := big.NewInt(int64(1000 + c))
			for atomic.LoadInt32(&stop) == 0 {
				var err error
				if c%2 == 0 {
					err = w.RawStore.AddAccountBalance(cw.acct, amt)
				} else {
					err = w.RawStore.AddNodeBalance(cw.node, amt)
				}
				if err == nil {
					credited[c].Add(credited[c], amt)
				}
			}
		}(c)
	}
	refused := 0
	for k := 0; k < withdrawals; k++ {
		if err := cw.withdraw(); err != nil {
			refused++
		}
	}
	atomic.StoreInt32(&stop, 1)
	wg.Wait()
	owed := new(big.Int)
	for _, c := range credited {
		owed.Add(owed, c)
	}
	log := w.SettleLog()
	paid := paidTotal(log, cw.acct)
	remaining := cw.balance()
	desc := fmt.Sprintf("sustained %s creditors=%d withdrawals=%d idx=%d", driver, creditors, withdrawals, idx)
	ev.Case(desc, len(log) > 1)
	ev.Count("sustained-accrual-withdrawals", int64(len(log)))
	if new(big.Int).Add(paid, remaining).Cmp(owed) != 0 {
		ev.Violate("sustained:"+driver+":paid-plus-remaining-differs-from-credited", map[string]interface{}{"case": desc, "credited": owed.String(), "paid": paid.String(), "remaining": remaining.String(), "settlements": len(log), "refused": refused})
	}
}

func TestC07(t *testing.T) {
	ev := vlib.NewEvidence("C07", "fault_enumeration",
		"sequential accrue/withdraw histories on one wallet (fee in {none, constant, 1%}, minimum in {nil,0,5000,1e18}, balances around the minimum, optional deposit) with the settlement failing at attempt k for every k in 0..4 (0 = never); oracle per withdrawal: paid = balance - fee exactly once, nothing left to withdraw, refused/failed => nothing paid and balance unchanged, conservation paid+fees+remaining = deposit+accrued; concurrent: 2..8 racing withdrawals (+0..2 accruers) with the settle handler holding the window open, checked for paid+remaining <= owed and with porcupine against the sequential withdraw/accrue model; sustained: 3-6 goroutines crediting the wallet and its node without pause while it withdraws 100-200 times (no fee, no minimum): paid + remaining = credited exactly; non-trivial = at least one payment was made; distinct = distinct traces; (faults) withdrawal by a wallet whose deposit is time-locked (unreadable)")
	ev.Assume("the settle handler replaces the deposit with newBalance on success, as the contract does")
	for _, driver := range vlib.Drivers() {
		for failAt := 0; failAt <= 4; failAt++ {
			for i := 0; i < vlib.Scale(40, 800); i++ {
				c07Sequential(ev, driver, i, failAt)
			}
		}
		for i := 0; i < vlib.Scale(60, 1500); i++ {
			c07Concurrent(ev, driver, i)
		}
		for i := 0; i < vlib.Scale(3, 60); i++ {
			c07SustainedAccrual(ev, driver, i)
		}
	}
	for _, driver := range vlib.Drivers() {
		driver := driver
		parallelCases(vlib.Scale(12, 60), 4, func(i int) { contractEconomy(ev, "C07", driver, i) })
	}
	finish(t, ev)
}
