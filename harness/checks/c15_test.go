package checks

import (
	"bytes"
	"context"
	"encoding/json"
	"fmt"
	"github.com/ethereum/go-ethereum/rpc"
	"io"
	"math/rand"
	"net/http"
	"os"
	"path/filepath"
	"strings"
	"sync"
	"testing"
	"time"

	"github.com/gorilla/websocket"
	"github.com/vipnode/vipnode/v2/agent"
	"github.com/vipnode/vipnode/v2/ethnode"
	"github.com/vipnode/vipnode/v2/jsonrpc2"
	"github.com/vipnode/vipnode/v2/jsonrpc2/ws/gorilla"
	"github.com/vipnode/vipnode/v2/pool"
	"github.com/vipnode/vipnode/v2/pool/status"
	"github.com/vipnode/vipnode/v2/request"
	"verifharness/vlib"
)

var hostileStrings = []string{
	"", " ", "\x00", "\xff\xfe\xfd", "A", "AAAA", "0x", "0x1234", "enode://", "enode://@", "enode://a@b:c", "enode://%zz@:1", "://", "::::", "[::]", "[::1]:99999999",
	strings.Repeat("a", 127), strings.Repeat("a", 128), strings.Repeat("a", 129), strings.Repeat("é", 70), "enode://" + strings.Repeat("f", 128), "enode://" + strings.Repeat("f", 127) + "@h", "enode://" + strings.Repeat("f", 129),
	strings.Repeat("enode://", 40), "http://[fe80::1%25en0]:8080/", "‮\u0000", "null", "{}", "[]", "-1", "1e999", strings.Repeat("9", 400), "geth", "parity", "Geth/v1.9/linux", "Parity-Ethereum//v2", "pantheon/",
	strings.Repeat("x", 70000),
}

var hostileJSONLeaves = []string{`null`, `true`, `0`, `-1`, `1.5`, `1e400`, `9223372036854775807`, `-9223372036854775808`, `9223372036854775808`, `18446744073709551616`, `""`, `"x"`, `[]`, `{}`, `[[]]`, `{"a":{"a":{"a":1}}}`, `[1,"a",null]`, `"` + strings.Repeat("z", 5000) + `"`, `"\ud800"`, `"\u0000"`}

func pickS(r *rand.Rand) string { return hostileStrings[r.Intn(len(hostileStrings))] }

// c15Requests generates well-formed JSON-RPC request texts (the "hostile
// request" class): every registered method with wrong and right arities,
// hostile leaves, and correctly signed requests with hostile parameter values.
func c15Requests(r *rand.Rand, methods []string, signer *vlib.Identity, wallet *vlib.Identity, nonce func(string) int64, idv int) string {
	m := methods[r.Intn(len(methods))]
	id := fmt.Sprint(idv)
	switch r.Intn(10) {
	case 0:
		id = `"s` + fmt.Sprint(idv) + `"`
	case 1:
		id = fmt.Sprintf("%d.25", idv)
	}
	mk := func(params string) string {
		return fmt.Sprintf(`{"jsonrpc":"2.0","id":%s,"method":%q,"params":%s}`, id, m, params)
	}
	switch r.Intn(6) {
	case 0: // random arity, random leaves
		n := r.Intn(7)
		parts := []string{}
		for i := 0; i < n; i++ {
			parts = append(parts, hostileJSONLeaves[r.Intn(len(hostileJSONLeaves))])
		}
		return mk("[" + strings.Join(parts, ",") + "]")
	case 1: // params of the wrong JSON type / absent
		switch r.Intn(4) {
		case 0:
			return fmt.Sprintf(`{"jsonrpc":"2.0","id":%s,"method":%q}`, id, m)
		case 1:
			return mk(`{"sig":"x"}`)
		case 2:
			return mk(`"str"`)
		default:
			return mk(`null`)
		}
	case 2: // right shape, garbage signature, hostile identity
		sig, _ := json.Marshal(pickS(r))
		ident, _ := json.Marshal(pickS(r))
		return mk(fmt.Sprintf(`[%s,%s,%d,{}]`, sig, ident, r.Int63()))
	default: // correctly signed request with hostile parameter values
		var identity string
		var key *vlib.Identity
		var args []interface{}
		switch m {
		case "vipnode_connect":
			req := vlib.ConnectReq(r.Intn(2) == 0, pickS(r), pickS(r), pickS(r))
			if r.Intn(3) == 0 {
				// hostile only in where it is sent from: a perfectly valid registration, over whatever transport
				req = vlib.ConnectReq(true, "geth", "enode://"+signer.NodeID+"@198.51.100.5:30303", "")
			}
			req.VipnodeVersion = pickS(r)
			req.NodeInfo.Version = pickS(r)
			req.NodeInfo.Kind = ethnode.NodeKind(r.Intn(9) - 2)
			req.NodeInfo.Network = ethnode.NetworkID(r.Intn(100) - 50)
			identity, key, args = signer.NodeID, signer, []interface{}{req}
		case "vipnode_host":
			hr := pool.HostRequest{Kind: pickS(r), Payout: pickS(r), NodeURI: pickS(r)}
			if r.Intn(3) == 0 {
				hr = pool.HostRequest{Kind: "geth", NodeURI: "enode://" + signer.NodeID + "@198.51.100.6:30303"}
			}
			identity, key, args = signer.NodeID, signer, []interface{}{hr}
		case "vipnode_client":
			identity, key, args = signer.NodeID, signer, []interface{}{pool.ClientRequest{Kind: pickS(r), NumHosts: vlib.Pick(r, -1<<31, -1, 0, 1, 1<<30, 1<<62)}}
		case "vipnode_peer":
			pr := pool.PeerRequest{Kind: pickS(r), Num: vlib.Pick(r, -1<<62, -1<<31, -5, -1, 0, 1, 1<<30, 1<<62)}
			if r.Intn(3) == 0 {
				pr = pool.PeerRequest{Kind: "", Num: 3}
			}
			identity, key, args = signer.NodeID, signer, []interface{}{pr}
		case "vipnode_update":
			infos := []ethnode.PeerInfo{}
			for i := 0; i < r.Intn(5); i++ {
				pi := ethnode.PeerInfo{ID: pickS(r), Name: pickS(r), Enode: pickS(r), Caps: []string{pickS(r)}}
				pi.Network.RemoteAddress = pickS(r)
				if r.Intn(3) == 0 {
					pi.Protocols = map[string]json.RawMessage{pickS(r): json.RawMessage(hostileJSONLeaves[r.Intn(8)])}
				}
				infos = append(infos, pi)
			}
			identity, key, args = signer.NodeID, signer, []interface{}{pool.UpdateRequest{PeerInfo: infos, Peers: []string{pickS(r)}, BlockNumber: uint64(r.Int63())}}
		case "pool_addNode":
			identity, key, args = wallet.Wallet, wallet, []interface{}{pickS(r)}
		case "pool_withdraw":
			identity, key, args = wallet.Wallet, wallet, []interface{}{}
		case "pool_account":
			w, _ := json.Marshal(pickS(r))
			return mk("[" + string(w) + "]")
		default:
			return mk("[]")
		}
		n := nonce(identity)
		sig := vlib.RefSign(key.Key, m, identity, n, args...)
		all := append([]interface{}{sig, identity, n}, args...)
		b, _ := json.Marshal(all)
		return mk(string(b))
	}
}

// c15Garbage generates the byte-level / shape class (may cost the sender its connection).
func c15Garbage(r *rand.Rand) []byte {
	switch r.Intn(16) {
	case 0:
		b := make([]byte, r.Intn(200))
		r.Read(b)
		return b
	case 1:
		return []byte(`{`)
	case 2:
		return []byte(`[1,2,3]`)
	case 3:
		return []byte(`{"id":1}`)
	case 4:
		return []byte(`{"jsonrpc":"2.0"}`)
	case 5:
		return []byte(`null`)
	case 6:
		return []byte(`{"id":1,"method":"vipnode_ping"`)
	case 7:
		return []byte(strings.Repeat("[", 20000))
	case 8:
		return []byte(`{"jsonrpc":"2.0","id":{"a":[1]},"method":"vipnode_ping","params":[]}`)
	case 9:
		return []byte(`{"jsonrpc":"2.0","id":1,"method":5,"params":[]}`)
	case 10:
		return []byte(`{"jsonrpc":"2.0","id":1,"result":1}`) // unsolicited reply
	case 11:
		return []byte(`{"jsonrpc":"2.0","id":1}`) // reply without result or error
	case 12:
		return []byte(`{"jsonrpc":"2.0","id":null,"error":{"code":"x"}}`)
	case 13:
		return []byte(`{"jsonrpc":"2.0","id":1,"method":"vipnode_ping","result":1,"error":{"code":1,"message":"m"}}`)
	case 14:
		return []byte(`{"jsonrpc":"2.0","method":"vipnode_ping"}`) // notification
	default:
		return []byte(`"just a string"`)
	}
}

// checkReply verifies that a reply text is well formed and carries the id.
func checkReply(reqText string, reply []byte) string {
	var req, rep map[string]json.RawMessage
	if json.Unmarshal([]byte(reqText), &req) != nil {
		return ""
	}
	if err := json.Unmarshal(reply, &rep); err != nil {
		return "reply is not a JSON object: " + err.Error()
	}
	if string(rep["id"]) != string(req["id"]) {
		return fmt.Sprintf("reply id %s for request id %s", rep["id"], req["id"])
	}
	_, hasRes := rep["result"]
	_, hasErr := rep["error"]
	if !hasRes && !hasErr {
		return "reply has neither result nor error"
	}
	return ""
}

// ---- in-process part --------------------------------------------------------

func init() { childModes["c15inproc"] = c15InprocChild }

// c15InprocChild handles requests [start, n) in a child process: every input
// is appended to a log before it is handled, so a process-fatal error
// (out of memory, runtime throw) is attributed to its input by the parent.
func c15InprocChild() int {
	driver := os.Getenv("VERIF_C15_DRIVER")
	var start, n int
	fmt.Sscan(os.Getenv("VERIF_C15_START"), &start)
	fmt.Sscan(os.Getenv("VERIF_C15_N"), &n)
	ev := vlib.NewEvidence("C15", "exploration", "")
	c15InProcess(ev, driver, start, n)
	if err := ev.Export(os.Getenv("VERIF_CHILD_OUT")); err != nil {
		return 3
	}
	return 0
}

// c15InProcessSupervised runs the in-process part in restartable children.
func c15InProcessSupervised(ev *vlib.Evidence, driver string, n int) {
	dir := os.Getenv("VERIF_BUILD_DIR")
	if dir == "" {
		dir = os.TempDir()
	}
	start := 0
	for restarts := 0; start < n && restarts < 12; restarts++ {
		out := filepath.Join(dir, fmt.Sprintf("c15inproc-%s-%d.json", driver, restarts))
		inputs := filepath.Join(dir, fmt.Sprintf("c15inproc-%s-%d.inputs", driver, restarts))
		logp := filepath.Join(dir, fmt.Sprintf("c15inproc-%s-%d.log", driver, restarts))
		p, err := vlib.StartProc(logp, []string{"VERIF_CHILD=c15inproc", "VERIF_CHILD_OUT=" + out, "VERIF_C15_DRIVER=" + driver, fmt.Sprintf("VERIF_C15_START=%d", start), fmt.Sprintf("VERIF_C15_N=%d", n), "VERIF_C15_INPUTS=" + inputs, "GOMEMLIMIT=", "GORACE=halt_on_error=0"}, os.Args[0])
		if err != nil {
			ev.Inconclusive("inproc-child-start")
			return
		}
		// address space limit is not available portably: rely on the runtime's own fatal errors
		p.WaitExit(30 * time.Minute)
		p.Kill(true)
		if ierr := ev.Import(out); ierr == nil {
			return
		}
		// the child died: attribute to the last logged input
		body, _ := os.ReadFile(inputs)
		lines := strings.Split(strings.TrimSpace(string(body)), "\n")
		last := lines[len(lines)-1]
		var idx int
		fmt.Sscan(last, &idx)
		sig, excerpt := vlib.CrashSignature(logp)
		if sig == "" {
			sig = "child exited without result"
		}
		ev.Violate("inprocess-fatal:"+sig, map[string]interface{}{"driver": driver, "last_input": truncStr(last, 2000), "log": excerpt})
		ev.Count("inprocess-child-crashes", 1)
		start = idx + 1
	}
}

func c15InProcess(ev *vlib.Evidence, driver string, start, n int) {
	var inputLog *os.File
	if p := os.Getenv("VERIF_C15_INPUTS"); p != "" {
		inputLog, _ = os.OpenFile(p, os.O_CREATE|os.O_WRONLY|os.O_APPEND, 0o644)
		defer inputLog.Close()
	}
	lw, err := authWorld(driver, 0)
	if err != nil {
		panic(err)
	}
	defer lw.w.Close()
	w := lw.w
	st := &status.PoolStatus{Store: w.Store, TimeStarted: time.Now(), Version: "verif", CacheDuration: time.Minute}
	w.Server.Register("pool_", st)
	agentServer := &jsonrpc2.Server{}
	var svc agent.Service = &agent.Agent{EthNode: &vlib.FakeEth{ID: "x"}}
	agentServer.RegisterMethod("vipnode_whitelist", svc, "Whitelist")
	methods := []string{"vipnode_connect", "vipnode_update", "vipnode_peer", "vipnode_client", "vipnode_host", "vipnode_ping", "pool_account", "pool_addNode", "pool_withdraw", "pool_status", "vipnode_whitelist", "nope"}
	signer := lw.clients[0]
	for i := start; i < n; i++ {
		r := vlib.Rand("C15-inproc-"+driver, i)
		text := c15Requests(r, methods, signer, lw.wallets[0], w.NextNonce, i)
		if inputLog != nil {
			fmt.Fprintf(inputLog, "%d %s\n", i, strings.Replace(text, "\n", " ", -1))
		}
		var msg jsonrpc2.Message
		if err := json.Unmarshal([]byte(text), &msg); err != nil {
			continue
		}
		srv := w.Server
		if msg.Request != nil && msg.Request.Method == "vipnode_whitelist" {
			srv = agentServer
		}
		func() {
			defer func() {
				if p := recover(); p != nil {
					sig := fmt.Sprint(p)
					if len(sig) > 80 {
						sig = sig[:80]
					}
					method := ""
					if msg.Request != nil {
						method = msg.Request.Method
					}
					ev.Defer("inprocess-panic:"+method+":"+sig, map[string]interface{}{"input": vlib.Short(text) + "…", "full_input": truncStr(text, 1500), "panic": fmt.Sprint(p)})
				}
			}()
			resp := srv.Handle(context.Background(), &msg)
			out, _ := json.Marshal(resp)
			if p := checkReply(text, out); p != "" {
				ev.Defer("inprocess-malformed-reply", map[string]interface{}{"input": truncStr(text, 600), "reply": truncStr(string(out), 600), "problem": p})
			}
		}()
		method := ""
		if msg.Request != nil {
			method = msg.Request.Method
		}
		ev.Case(fmt.Sprintf("inproc/%s/%d/%d", method, len(text), i%50), true)
		ev.Count("inprocess-requests:"+driver, 1)
	}
}

func truncStr(s string, n int) string {
	if len(s) > n {
		return s[:n] + "…"
	}
	return s
}

func c15Parsers(ev *vlib.Evidence, n int) {
	guard := func(name, input string, fn func()) {
		defer func() {
			if p := recover(); p != nil {
				ev.Violate("parser-panic:"+name, map[string]interface{}{"input": truncStr(input, 300), "panic": fmt.Sprint(p)})
			}
		}()
		fn()
	}
	for i := 0; i < n; i++ {
		r := vlib.Rand("C15-parsers", i)
		s, s2, s3 := pickS(r), pickS(r), pickS(r)
		if r.Intn(3) == 0 {
			b := make([]byte, r.Intn(300))
			r.Read(b)
			s = string(b)
		}
		guard("ethnode.ParseNodeURI", s, func() {
			if u, err := ethnode.ParseNodeURI(s); err == nil {
				u.ID()
				u.RemoteAddress()
				u.RemoteHost()
			}
		})
		guard("ethnode.ParseUserAgent", s, func() { ethnode.ParseUserAgent(s, s2, s3) })
		guard("ethnode.PeerInfo", s, func() {
			pi := ethnode.PeerInfo{ID: s2, Enode: s}
			pi.Network.RemoteAddress = s3
			pi.EnodeID()
			pi.EnodeURI()
			pi.IsFullNode()
			ethnode.Peers{pi}.IDs()
			ethnode.Peers{pi}.URIs()
		})
		guard("ethnode.ParseNodeKind", s, func() { ethnode.ParseNodeKind(s); ethnode.ParseNetwork(s) })
		guard("request.Verify", s, func() {
			request.Verify(s, s2, s3, r.Int63(), s)
			request.Verify(s, "vipnode_connect", vlib.NewIdentity("p", 1).NodeID, 1)
			request.Verify(s, "pool_withdraw", vlib.NewIdentity("p", 1).Wallet, 1)
		})
		ev.Case(fmt.Sprintf("parsers/%d", i%200), true)
		ev.Count("parser-inputs", 5)
	}
}

// ---- child-process part ------------------------------------------------------

type poolChild struct {
	bin, dir, store, addr string
	p                     *vlib.Proc
	starts                int
	inputLog              *os.File
}

func (pc *poolChild) start() error {
	pc.addr = fmt.Sprintf("127.0.0.1:%d", vlib.FreePort())
	pc.starts++
	args := []string{"pool", "--store=" + pc.store, "--bind", pc.addr}
	if pc.store == "persist" {
		args = append(args, "--datadir", filepath.Join(pc.dir, fmt.Sprintf("data%d", pc.starts)))
	}
	p, err := vlib.StartProc(filepath.Join(pc.dir, fmt.Sprintf("pool-%s-%d.log", pc.store, pc.starts)), []string{"HOME=" + pc.dir, "GORACE=halt_on_error=0"}, pc.bin, args...)
	if err != nil {
		return err
	}
	pc.p = p
	if !p.WaitListening(pc.addr, 30*time.Second) {
		return fmt.Errorf("pool child did not start listening")
	}
	return nil
}

func (pc *poolChild) logInput(kind string, data []byte) {
	fmt.Fprintf(pc.inputLog, "%s %q\n", kind, truncStr(string(data), 4000))
}

func wsDial(addr string) (*websocket.Conn, error) {
	d := websocket.Dialer{HandshakeTimeout: 10 * time.Second}
	c, _, err := d.Dial("ws://"+addr+"/", nil)
	return c, err
}

// wsCanary sends vipnode_ping on c and waits for "pong".
func wsCanary(c *websocket.Conn, id int) error {
	c.SetWriteDeadline(time.Now().Add(10 * time.Second))
	if err := c.WriteMessage(websocket.TextMessage, []byte(fmt.Sprintf(`{"jsonrpc":"2.0","id":%d,"method":"vipnode_ping","params":[]}`, id))); err != nil {
		return err
	}
	deadline := time.Now().Add(20 * time.Second)
	for {
		c.SetReadDeadline(deadline)
		_, data, err := c.ReadMessage()
		if err != nil {
			return err
		}
		var m struct {
			ID     json.RawMessage `json:"id"`
			Result json.RawMessage `json:"result"`
		}
		if json.Unmarshal(data, &m) == nil && string(m.ID) == fmt.Sprint(id) {
			if string(m.Result) != `"pong"` {
				return fmt.Errorf("canary got %s", data)
			}
			return nil
		}
	}
}

func httpCanary(addr string) error {
	cl := &http.Client{Timeout: 20 * time.Second}
	resp, err := cl.Post("http://"+addr+"/", "application/json", strings.NewReader(`{"jsonrpc":"2.0","id":1,"method":"vipnode_ping","params":[]}`))
	if err != nil {
		return err
	}
	defer resp.Body.Close()
	b, _ := io.ReadAll(resp.Body)
	if !bytes.Contains(b, []byte(`"pong"`)) {
		return fmt.Errorf("http canary got %s", b)
	}
	return nil
}

// c15PoolSession feeds one pool child with hostile traffic in batches.
func c15PoolSession(ev *vlib.Evidence, bin, store string, session int, messages int) {
	dir, _ := os.MkdirTemp("", "verif-c15-")
	defer os.RemoveAll(dir)
	il, _ := os.Create(filepath.Join(dir, "inputs.log"))
	defer il.Close()
	pc := &poolChild{bin: bin, dir: dir, store: store, inputLog: il}
	if err := pc.start(); err != nil {
		fmt.Println("HARNESS-ERROR", err)
		ev.Inconclusive("pool-start")
		return
	}
	defer func() { pc.p.Kill(false) }()
	r := vlib.Rand("C15-session-"+store, session)
	methods := []string{"vipnode_connect", "vipnode_update", "vipnode_peer", "vipnode_client", "vipnode_host", "vipnode_ping", "pool_account", "pool_addNode", "pool_withdraw", "pool_status", "nope"}
	signer := vlib.NewIdentity("c15signer", session)
	wallet := vlib.NewIdentity("c15wallet", session)
	var nmu sync.Mutex
	nonces := map[string]int64{}
	nonce := func(id string) int64 {
		nmu.Lock()
		defer nmu.Unlock()
		n := nonces[id]
		if now := time.Now().UnixNano(); n < now {
			n = now
		}
		n += 1000
		nonces[id] = n
		return n
	}
	crashed := func(lastKind string, lastInput []byte) bool {
		ex, exErr := pc.p.WaitExit(300 * time.Millisecond)
		if !ex {
			return false
		}
		sig, excerpt := vlib.CrashSignature(pc.p.LogPath)
		if sig == "" {
			sig = "exit:" + fmt.Sprint(exErr)
		}
		ev.Violate("pool-process-died:"+sig, map[string]interface{}{"store": store, "session": session, "last_input_kind": lastKind, "last_input": truncStr(string(lastInput), 1500), "exit": fmt.Sprint(exErr), "log": excerpt})
		ev.Count("child-crashes", 1)
		if err := pc.start(); err != nil {
			ev.Inconclusive("pool-restart")
		}
		return true
	}
	canaryConn, err := wsDial(pc.addr)
	if err != nil {
		ev.Inconclusive("ws-dial")
		return
	}
	defer func() { canaryConn.Close() }()
	sent := 0
	batch := 0
	for sent < messages {
		batch++
		class := vlib.Pick(r, "requests-ws", "requests-ws", "requests-http", "garbage-ws", "garbage-http", "malicious-host", "wedged-host")
		var last []byte
		switch class {
		case "requests-ws":
			c, err := wsDial(pc.addr)
			if err != nil {
				if crashed(class, last) {
					canaryConn, _ = wsDial(pc.addr)
				}
				continue
			}
			k := 20 + r.Intn(60)
			texts := []string{}
			for i := 0; i < k; i++ {
				t := c15Requests(r, methods, signer, wallet, nonce, sent+i)
				texts = append(texts, t)
				last = []byte(t)
				pc.logInput(class, last)
				c.SetWriteDeadline(time.Now().Add(10 * time.Second))
				if err := c.WriteMessage(websocket.TextMessage, last); err != nil {
					break
				}
			}
			sent += k
			ev.Count("messages:"+class, int64(k))
			// collect replies: every request must get a well-formed reply with its id
			got := map[string][]byte{}
			deadline := time.Now().Add(40 * time.Second)
			for len(got) < len(texts) {
				c.SetReadDeadline(deadline)
				_, data, err := c.ReadMessage()
				if err != nil {
					break
				}
				var m struct {
					ID json.RawMessage `json:"id"`
				}
				if json.Unmarshal(data, &m) == nil {
					got[string(m.ID)] = data
				}
			}
			if crashed(class, last) {
				canaryConn, _ = wsDial(pc.addr)
				c.Close()
				continue
			}
			missing := 0
			for _, t := range texts {
				var rq struct {
					ID json.RawMessage `json:"id"`
				}
				json.Unmarshal([]byte(t), &rq)
				rep, ok := got[string(rq.ID)]
				if !ok {
					missing++
					if missing == 1 {
						ev.Violate("request-without-reply:ws", map[string]interface{}{"store": store, "request": truncStr(t, 800), "replies_received": len(got), "requests_sent": len(texts)})
					}
					continue
				}
				if p := checkReply(t, rep); p != "" {
					ev.Violate("malformed-reply:ws", map[string]interface{}{"request": truncStr(t, 600), "reply": truncStr(string(rep), 600), "problem": p})
				}
			}
			// hostile requests leave even the sending connection usable
			if err := wsCanary(c, 900000+batch); err != nil {
				ev.Violate("same-connection-unusable-after-hostile-requests", map[string]interface{}{"store": store, "err": err.Error(), "last_request": truncStr(string(last), 800)})
			}
			c.Close()
		case "requests-http":
			k := 10 + r.Intn(30)
			for i := 0; i < k; i++ {
				t := c15Requests(r, methods, signer, wallet, nonce, sent+i)
				last = []byte(t)
				pc.logInput(class, last)
				cl := &http.Client{Timeout: 30 * time.Second}
				resp, err := cl.Post("http://"+pc.addr+"/", "application/json", strings.NewReader(t))
				if err != nil {
					break
				}
				body, _ := io.ReadAll(resp.Body)
				resp.Body.Close()
				if resp.StatusCode == 200 {
					if p := checkReply(t, bytes.TrimSpace(body)); p != "" {
						ev.Violate("malformed-reply:http", map[string]interface{}{"request": truncStr(t, 600), "reply": truncStr(string(body), 600), "problem": p})
					}
				} else {
					ev.Violate("request-without-reply:http", map[string]interface{}{"request": truncStr(t, 600), "status": resp.StatusCode, "body": truncStr(string(body), 300)})
				}
			}
			sent += k
			ev.Count("messages:"+class, int64(k))
		case "garbage-ws":
			k := 5 + r.Intn(20)
			for i := 0; i < k; i++ {
				c, err := wsDial(pc.addr)
				if err != nil {
					break
				}
				for j := 0; j < 1+r.Intn(4); j++ {
					last = c15Garbage(r)
					pc.logInput(class, last)
					mt := websocket.TextMessage
					if r.Intn(4) == 0 {
						mt = websocket.BinaryMessage
					}
					c.SetWriteDeadline(time.Now().Add(5 * time.Second))
					if err := c.WriteMessage(mt, last); err != nil {
						break
					}
				}
				if r.Intn(2) == 0 {
					c.Close()
				} else {
					defer c.Close()
				}
			}
			sent += k
			ev.Count("messages:"+class, int64(k))
		case "garbage-http":
			k := 5 + r.Intn(20)
			for i := 0; i < k; i++ {
				last = c15Garbage(r)
				pc.logInput(class, last)
				cl := &http.Client{Timeout: 20 * time.Second}
				if resp, err := cl.Post("http://"+pc.addr+"/", vlib.Pick(r, "application/json", "text/plain", ""), bytes.NewReader(last)); err == nil {
					io.Copy(io.Discard, resp.Body)
					resp.Body.Close()
				}
			}
			sent += k
			ev.Count("messages:"+class, int64(k))
		case "wedged-host":
			// a registered host floods its own connection with duplicate unsolicited
			// replies and stays connected; another node's peer request (which makes
			// the pool call that host) must still be answered
			last = []byte(`{"jsonrpc":"2.0","id":1,"result":null} x3 (unsolicited, same id) from a registered host`)
			pc.logInput(class, last)
			if problem := c15WedgedHost(pc, session*1000+batch, nonce); problem != "" {
				if !crashed(class, last) {
					ev.Violate("other-connection-not-served:wedged-host", map[string]interface{}{"store": store, "problem": problem})
				}
			}
			sent += 4
			ev.Count("messages:"+class, 4)
		case "malicious-host":
			last = c15MaliciousHost(ev, pc, r, session*1000+batch, nonce)
			sent += 5
			ev.Count("messages:"+class, 5)
		}
		if crashed(class, last) {
			canaryConn, _ = wsDial(pc.addr)
			continue
		}
		// every other connection keeps being served
		if canaryConn == nil {
			canaryConn, _ = wsDial(pc.addr)
		}
		if canaryConn != nil {
			if err := wsCanary(canaryConn, batch); err != nil {
				if !crashed(class, last) {
					ev.Violate("other-connection-not-served:"+class, map[string]interface{}{"store": store, "err": err.Error(), "last_input": truncStr(string(last), 800)})
				}
				canaryConn.Close()
				canaryConn, _ = wsDial(pc.addr)
			}
		}
		if err := httpCanary(pc.addr); err != nil {
			if !crashed(class, last) {
				ev.Violate("http-not-served:"+class, map[string]interface{}{"store": store, "err": err.Error()})
			}
		}
		ev.Case(fmt.Sprintf("session/%s/%d/batch%d/%s", store, session, batch, class), true)
		ev.Count("canaries-answered", 1)
	}
}

// c15MaliciousHost registers as a host, then answers the pool's whitelist
// call with hostile replies while a client asks for peers.
func c15MaliciousHost(ev *vlib.Evidence, pc *poolChild, r *rand.Rand, n int, nonce func(string) int64) []byte {
	host := vlib.NewIdentity("c15evilhost", n)
	hc, err := wsDial(pc.addr)
	if err != nil {
		return nil
	}
	defer hc.Close()
	req := vlib.ConnectReq(true, "geth", "", "")
	nn := nonce(host.NodeID)
	all, _ := json.Marshal([]interface{}{vlib.RefSign(host.Key, "vipnode_connect", host.NodeID, nn, req), host.NodeID, nn, req})
	hc.WriteMessage(websocket.TextMessage, []byte(`{"jsonrpc":"2.0","id":1,"method":"vipnode_connect","params":`+string(all)+`}`))
	hc.SetReadDeadline(time.Now().Add(10 * time.Second))
	if _, _, err := hc.ReadMessage(); err != nil {
		return nil
	}
	// a client asks for peers on another connection
	client := vlib.NewIdentity("c15evilclient", n)
	cc, err := wsDial(pc.addr)
	if err != nil {
		return nil
	}
	defer cc.Close()
	creq := vlib.ConnectReq(false, "geth", "", "")
	cn := nonce(client.NodeID)
	call, _ := json.Marshal([]interface{}{vlib.RefSign(client.Key, "vipnode_connect", client.NodeID, cn, creq), client.NodeID, cn, creq})
	cc.WriteMessage(websocket.TextMessage, []byte(`{"jsonrpc":"2.0","id":1,"method":"vipnode_connect","params":`+string(call)+`}`))
	cc.SetReadDeadline(time.Now().Add(10 * time.Second))
	cc.ReadMessage()
	preq := pool.PeerRequest{Num: 3}
	pn := nonce(client.NodeID)
	pall, _ := json.Marshal([]interface{}{vlib.RefSign(client.Key, "vipnode_peer", client.NodeID, pn, preq), client.NodeID, pn, preq})
	cc.WriteMessage(websocket.TextMessage, []byte(`{"jsonrpc":"2.0","id":2,"method":"vipnode_peer","params":`+string(pall)+`}`))
	// the pool now calls vipnode_whitelist on the host connection
	hc.SetReadDeadline(time.Now().Add(10 * time.Second))
	_, data, err := hc.ReadMessage()
	if err != nil {
		return nil
	}
	var call2 struct {
		ID     json.RawMessage `json:"id"`
		Method string          `json:"method"`
	}
	json.Unmarshal(data, &call2)
	var reply string
	switch r.Intn(10) {
	case 7:
		reply = fmt.Sprintf(`{"jsonrpc":"2.0","id":%s,"error":null}`, call2.ID)
	case 8:
		reply = fmt.Sprintf(`{"id":%s,"error":{}}`, call2.ID)
	case 9:
		reply = fmt.Sprintf(`{"jsonrpc":"2.0","id":%s,"result":null,"error":{"code":-1}}`, call2.ID)
	case 0:
		reply = fmt.Sprintf(`{"jsonrpc":"2.0","id":%s}`, call2.ID) // neither result nor error
	case 1:
		reply = fmt.Sprintf(`{"id":%s}`, call2.ID)
	case 2:
		reply = fmt.Sprintf(`{"jsonrpc":"2.0","id":%s,"result":{"unexpected":[1,2,3]}}`, call2.ID)
	case 3:
		reply = fmt.Sprintf(`{"jsonrpc":"2.0","id":%s,"error":{"code":"notanumber","message":5}}`, call2.ID)
	case 4:
		reply = fmt.Sprintf(`{"jsonrpc":"2.0","id":%s,"error":null,"result":null}`, call2.ID)
	case 5:
		reply = fmt.Sprintf(`{"jsonrpc":"2.0","id":%s,"result":true}{"jsonrpc":"2.0","id":%s,"result":true}`, call2.ID, call2.ID)
	default:
		reply = fmt.Sprintf(`{"jsonrpc":"2.0","id":%s,"method":"vipnode_ping","result":1}`, call2.ID)
	}
	pc.logInput("malicious-host-reply", []byte(reply))
	hc.WriteMessage(websocket.TextMessage, []byte(reply))
	// duplicates and unknown ids
	for i := 0; i < 3; i++ {
		hc.WriteMessage(websocket.TextMessage, []byte(fmt.Sprintf(`{"jsonrpc":"2.0","id":%s,"result":null}`, call2.ID)))
		hc.WriteMessage(websocket.TextMessage, []byte(fmt.Sprintf(`{"jsonrpc":"2.0","id":%d,"result":null}`, 100000+i)))
	}
	// the client's request must still be answered (result or error)
	cc.SetReadDeadline(time.Now().Add(15 * time.Second))
	if _, _, err := cc.ReadMessage(); err != nil {
		// decided by the crash / canary checks of the caller
	}
	return []byte(reply)
}

// c15WedgedHost: see the "wedged-host" class. Returns a problem description or "".
func c15WedgedHost(pc *poolChild, n int, nonce func(string) int64) string {
	host := vlib.NewIdentity("c15wedgehost", n)
	hc, err := wsDial(pc.addr)
	if err != nil {
		return ""
	}
	defer hc.Close()
	req := vlib.ConnectReq(true, "geth", "", "")
	nn := nonce(host.NodeID)
	all, _ := json.Marshal([]interface{}{vlib.RefSign(host.Key, "vipnode_connect", host.NodeID, nn, req), host.NodeID, nn, req})
	hc.WriteMessage(websocket.TextMessage, []byte(`{"jsonrpc":"2.0","id":1,"method":"vipnode_connect","params":`+string(all)+`}`))
	hc.SetReadDeadline(time.Now().Add(10 * time.Second))
	if _, _, err := hc.ReadMessage(); err != nil {
		return ""
	}
	for i := 0; i < 3; i++ {
		hc.WriteMessage(websocket.TextMessage, []byte(`{"jsonrpc":"2.0","id":1,"result":null}`))
	}
	time.Sleep(100 * time.Millisecond)
	client := vlib.NewIdentity("c15wedgeclient", n)
	cc, err := wsDial(pc.addr)
	if err != nil {
		return ""
	}
	defer cc.Close()
	creq := vlib.ConnectReq(false, "geth", "", "")
	cn := nonce(client.NodeID)
	call, _ := json.Marshal([]interface{}{vlib.RefSign(client.Key, "vipnode_connect", client.NodeID, cn, creq), client.NodeID, cn, creq})
	cc.WriteMessage(websocket.TextMessage, []byte(`{"jsonrpc":"2.0","id":1,"method":"vipnode_connect","params":`+string(call)+`}`))
	cc.SetReadDeadline(time.Now().Add(10 * time.Second))
	if _, _, err := cc.ReadMessage(); err != nil {
		return "client connect not answered: " + err.Error()
	}
	preq := pool.PeerRequest{Num: 100}
	pn := nonce(client.NodeID)
	pall, _ := json.Marshal([]interface{}{vlib.RefSign(client.Key, "vipnode_peer", client.NodeID, pn, preq), client.NodeID, pn, preq})
	cc.WriteMessage(websocket.TextMessage, []byte(`{"jsonrpc":"2.0","id":2,"method":"vipnode_peer","params":`+string(pall)+`}`))
	// the pool's own whitelist timeout is 5 s; 25 s is a watchdog, not a deadline on the pool
	cc.SetReadDeadline(time.Now().Add(25 * time.Second))
	if _, _, err := cc.ReadMessage(); err != nil {
		return "a peer request by another node was not answered within 25 s while a registered host had wedged its own connection: " + err.Error()
	}
	return ""
}

// EvilPool plays a malicious pool towards a real agent binary.
type EvilPool struct{}

func c15AgentSession(ev *vlib.Evidence, bin string, session int) {
	dir, _ := os.MkdirTemp("", "verif-c15a-")
	defer os.RemoveAll(dir)
	r := vlib.Rand("C15-agent", session)
	// raw websocket server: replies are literal texts
	mode := session % 12
	var mu sync.Mutex
	seen := []string{}
	upgrader := websocket.Upgrader{}
	srv := &http.Server{Handler: http.HandlerFunc(func(w http.ResponseWriter, rq *http.Request) {
		c, err := upgrader.Upgrade(w, rq, nil)
		if err != nil {
			return
		}
		defer c.Close()
		for {
			_, data, err := c.ReadMessage()
			if err != nil {
				return
			}
			var m struct {
				ID     json.RawMessage `json:"id"`
				Method string          `json:"method"`
			}
			json.Unmarshal(data, &m)
			mu.Lock()
			seen = append(seen, m.Method)
			mu.Unlock()
			var reply string
			switch mode {
			case 0:
				reply = fmt.Sprintf(`{"jsonrpc":"2.0","id":%s}`, m.ID)
			case 1:
				reply = fmt.Sprintf(`{"jsonrpc":"2.0","id":%s,"result":"a string instead of an object"}`, m.ID)
			case 2:
				reply = fmt.Sprintf(`{"jsonrpc":"2.0","id":%s,"result":{"pool_version":5,"hosts":"x","invalid_peers":{"a":1},"active_peers":[1,2]}}`, m.ID)
			case 3:
				reply = `garbage that is not json`
			case 4:
				reply = fmt.Sprintf(`{"jsonrpc":"2.0","id":%s,"result":{"pool_version":"evil","message":%q}}`, m.ID, strings.Repeat("M", 100000))
			case 5:
				// valid connect, hostile update reply
				if m.Method == "vipnode_connect" {
					reply = fmt.Sprintf(`{"jsonrpc":"2.0","id":%s,"result":{"pool_version":"evil"}}`, m.ID)
				} else {
					reply = fmt.Sprintf(`{"jsonrpc":"2.0","id":%s,"result":{"invalid_peers":[%q,%q,"enode://@","%%zz"],"active_peers":[%q,"::::","enode://a@[::1]:1"],"balance":{"credit":"notanumber"}}}`, m.ID, pickS(r), pickS(r), pickS(r))
				}
			case 6:
				if m.Method == "vipnode_connect" {
					reply = fmt.Sprintf(`{"jsonrpc":"2.0","id":%s,"result":{"pool_version":"evil"}}`, m.ID)
				} else if m.Method == "vipnode_update" {
					reply = fmt.Sprintf(`{"jsonrpc":"2.0","id":%s,"result":{"invalid_peers":[],"active_peers":[]}}`, m.ID)
				} else {
					reply = fmt.Sprintf(`{"jsonrpc":"2.0","id":%s,"result":{"peers":[{"ID":"x","uri":%q},{"uri":"enode://@"},{"uri":"::::"}]}}`, m.ID, pickS(r))
				}
			case 8, 9, 10, 11:
				// one hostile field at a time, everything else well-formed, so that the field is actually reached
				hostile := fmt.Sprintf(`[%q,%q,"","a","enode:/","enode://@","%%zz","enode://a@[::1","http://x/","\u0000","enode://%s@1.2.3.4:99999"]`, pickS(r), pickS(r), strings.Repeat("f", 128))
				switch {
				case m.Method == "vipnode_connect":
					reply = fmt.Sprintf(`{"jsonrpc":"2.0","id":%s,"result":{"pool_version":"evil"}}`, m.ID)
				case m.Method == "vipnode_update" && mode == 8:
					reply = fmt.Sprintf(`{"jsonrpc":"2.0","id":%s,"result":{"invalid_peers":%s,"active_peers":[]}}`, m.ID, hostile)
				case m.Method == "vipnode_update" && mode == 9:
					reply = fmt.Sprintf(`{"jsonrpc":"2.0","id":%s,"result":{"invalid_peers":[],"active_peers":%s}}`, m.ID, hostile)
				case m.Method == "vipnode_update" && mode == 11:
					reply = fmt.Sprintf(`{"jsonrpc":"2.0","id":%s,"result":{"invalid_peers":[],"active_peers":[],"balance":{"account":%q,"credit":-1e400,"deposit":null},"latest_block_number":18446744073709551615}}`, m.ID, pickS(r))
				case m.Method == "vipnode_update":
					reply = fmt.Sprintf(`{"jsonrpc":"2.0","id":%s,"result":{"invalid_peers":[],"active_peers":[]}}`, m.ID)
				default:
					reply = fmt.Sprintf(`{"jsonrpc":"2.0","id":%s,"result":{"peers":[{"ID":%q,"uri":"%%zz"},{"ID":"","uri":"enode://@"},{"uri":"enode://a@[::1"},{"uri":%q}]}}`, m.ID, pickS(r), pickS(r))
				}
			default:
				// valid replies plus a flood of reverse requests of hostile shape
				reply = fmt.Sprintf(`{"jsonrpc":"2.0","id":%s,"result":{"pool_version":"evil","invalid_peers":[],"active_peers":[]}}`, m.ID)
				for i := 0; i < 20; i++ {
					c.WriteMessage(websocket.TextMessage, []byte(c15Requests(r, []string{"vipnode_whitelist", "vipnode_disconnect", "nope"}, vlib.NewIdentity("x", 1), vlib.NewIdentity("y", 1), func(string) int64 { return 1 }, i)))
				}
			}
			c.WriteMessage(websocket.TextMessage, []byte(reply))
		}
	})}
	ln, err := netListen()
	if err != nil {
		ev.Inconclusive("listen")
		return
	}
	go srv.Serve(ln)
	defer srv.Close()
	id := vlib.NewIdentity("c15agent", session)
	key := writeNodeKey(dir, id)
	full := "?fullnode=1"
	if session%2 == 0 {
		full = "?fakepeers=3"
	}
	rpcArg := "fakenode://" + id.NodeID + full
	if (session/12)%2 == 1 {
		// a real JSON-RPC endpoint instead of the built-in fake node: the agent then talks through
		// the repository's geth wrapper, which has its own handling of ids and URIs
		f := &fakeChain{kind: "geth", light: session%2 == 0, selfID: id.NodeID}
		for i := 0; i < 3; i++ {
			pi := ethnode.PeerInfo{ID: vlib.NewIdentity("c15agentpeer", i).NodeID, Name: "Geth/x", Caps: []string{"eth/63"}}
			pi.Network.RemoteAddress = fmt.Sprintf("198.51.100.%d:30303", i+1)
			f.peers = append(f.peers, pi)
		}
		nsrv := rpc.NewServer()
		nsrv.RegisterName("web3", &web3API{f})
		nsrv.RegisterName("eth", &ethAPI{f})
		nsrv.RegisterName("net", &netAPI{f})
		nsrv.RegisterName("admin", &adminAPI{f})
		if nln, err := netListen(); err == nil {
			nhs := &http.Server{Handler: nsrv}
			go nhs.Serve(nln)
			defer nhs.Close()
			defer nsrv.Stop()
			rpcArg = "http://" + nln.Addr().String()
		}
	}
	agentArgs := []string{"agent", "ws://" + ln.Addr().String() + "/", "--rpc", rpcArg, "--nodekey", key, "--update-interval=6s", "--min-peers=3"}
	if (session/12)%2 == 1 || mode == 9 {
		agentArgs = append(agentArgs, "--strict-peers")
	}
	ap, err := vlib.StartProc(filepath.Join(dir, "agent.log"), []string{"HOME=" + dir}, bin, agentArgs...)
	if err != nil {
		ev.Inconclusive("agent-start")
		return
	}
	// give it time to connect, exchange, and (for valid-connect modes) run
	ap.WaitExit(4 * time.Second)
	ap.Kill(false)
	sig, excerpt := vlib.CrashSignature(ap.LogPath)
	mu.Lock()
	ns := len(seen)
	mu.Unlock()
	ev.Case(fmt.Sprintf("agent-session mode=%d full=%v", mode, session%2 != 0), ns > 0)
	ev.Count("agent-sessions", 1)
	ev.Count("agent-requests-seen-by-evil-pool", int64(ns))
	if sig != "" {
		ev.Violate("agent-process-panicked:"+sig, map[string]interface{}{"mode": mode, "log": excerpt})
	}
}

func TestC15(t *testing.T) {
	ev := vlib.NewEvidence("C15", "exploration",
		"(0) valid traffic through the fan-out paths of the built pool: a client is cut off for low balance while 0..all of the hosts it reports have already closed their connection - the keep-alive must still be answered; (1) in-process behind recover: well-formed JSON-RPC requests generated per registered endpoint (wrong/right arity, hostile leaves, garbage signatures and identities, and correctly signed requests with hostile parameter values: node URIs, kinds, peer descriptions, counts, wallets) through Server.Handle on the pool+payment+status and agent registrations, plus the pure parsers; every reply must carry the id and a result or error; (2) child processes: the built `vipnode pool` (memory; thorough: persist, race build) fed in batches over WebSocket and HTTP with the same requests (replies collected and checked, same-connection canary), byte/shape garbage, unsolicited/duplicate/empty replies, and a harness playing a malicious host that answers the pool's whitelist call with hostile replies; after every batch a canary on another connection and over HTTP must be answered; every input is logged before it is sent, crashes are keyed by panic message + first repository frames and the child restarted; (3) the built `vipnode agent` connected to a harness playing a malicious pool (8 reply modes); non-trivial = every batch/request; distinct = (target, class, size bucket); (faults) pool_status while store reads and the deposit lookup fail in turn")
	for _, driver := range vlib.Drivers() {
		c15InProcessSupervised(ev, driver, vlib.Scale(6000, 100000))
	}
	c15Parsers(ev, vlib.Scale(3000, 100000))
	for _, driver := range vlib.Drivers() {
		driver := driver
		parallelCases(vlib.Scale(40, 800), 4, func(i int) { c15StatusWhileDependenciesFail(ev, driver, i) })
	}
	bin, err := vlib.BuildVipnode("plain")
	if err != nil {
		fmt.Println("HARNESS-ERROR", err)
		ev.Inconclusive("build")
		finish(t, ev)
		return
	}
	stores := []string{"memory"}
	if vlib.Thorough() {
		stores = append(stores, "persist")
	}
	var wg sync.WaitGroup
	for _, st := range stores {
		for s := 0; s < vlib.Scale(3, 12); s++ {
			wg.Add(1)
			go func(st string, s int) { defer wg.Done(); c15PoolSession(ev, bin, st, s, vlib.Scale(600, 3000)) }(st, s)
		}
	}
	for s := 0; s < vlib.Scale(24, 96); s++ {
		wg.Add(1)
		go func(s int) { defer wg.Done(); c15AgentSession(ev, bin, s) }(s)
	}
	for s := 0; s < vlib.Scale(6, 60); s++ {
		wg.Add(1)
		go func(s int) { defer wg.Done(); c15CutOffWithDepartedHosts(ev, bin, s) }(s)
	}
	for s := 0; s < vlib.Scale(6, 60); s++ {
		wg.Add(1)
		go func(s int) { defer wg.Done(); c15StatusAfterOddRegistrations(ev, bin, s) }(s)
	}
	for s := 0; s < vlib.Scale(3, 30); s++ {
		wg.Add(1)
		go func(s int) { defer wg.Done(); c15SharedConnection(ev, bin, s) }(s)
	}
	wg.Wait()
	if vlib.Thorough() {
		if rbin, err := vlib.BuildVipnode("race"); err == nil {
			for s := 0; s < 6; s++ {
				wg.Add(1)
				go func(s int) { defer wg.Done(); c15PoolSession(ev, rbin, "memory", 1000+s, 1500) }(s)
			}
			wg.Wait()
		}
	}
	ev.Sample(map[string]interface{}{"example_request": truncStr(c15Requests(vlib.Rand("sample", 0), []string{"vipnode_peer"}, vlib.NewIdentity("s", 0), vlib.NewIdentity("s", 1), func(string) int64 { return 1 }, 1), 300)})
	finish(t, ev)
}

var _ = gorilla.WebSocketDial
