package checks

import (
	"encoding/json"
	"fmt"
	"math/big"
	"regexp"
	"sort"
	"time"

	"github.com/vipnode/vipnode/v2/ethnode"
	"github.com/vipnode/vipnode/v2/pool"
	"github.com/vipnode/vipnode/v2/pool/store"
	"verifharness/vlib"
)

var c12TimeRe = regexp.MustCompile(`"\d{4}-\d{2}-\d{2}T[0-9:.]+(Z|[+-]\d{2}:\d{2})"`)

// c12PoolDifferential: "swapping one driver for the other never changes pool
// behaviour". The same signed session (registrations, wallet links, billed
// keep-alives, peer requests, account queries for linked, never-seen and empty
// wallets) runs against a pool on each driver; every reply and every error
// must be the same, timestamps aside.
func c12PoolDifferential(ev *vlib.Evidence, idx int) {
	r := vlib.Rand("C12-pool-differential", idx)
	type step struct {
		what string
		run  func(w *vlib.World, conns map[string]*vlib.Conn) (interface{}, error)
	}
	host := vlib.NewIdentity("c12pd-host", idx%9)
	host2 := vlib.NewIdentity("c12pd-host", 9+idx%9)
	client := vlib.NewIdentity("c12pd-client", idx%9)
	w1 := vlib.NewIdentity("c12pd-wallet", idx%5)
	w2 := vlib.NewIdentity("c12pd-wallet-never-seen", idx%5)
	elapsed := time.Duration(vlib.Pick(r, 1, 30, 61, 600)) * time.Second
	peerKind := vlib.Pick(r, "", "geth", "parity", "besu") // chosen once: both drivers get the same session
	account := func(wallet string) func(w *vlib.World, conns map[string]*vlib.Conn) (interface{}, error) {
		return func(w *vlib.World, conns map[string]*vlib.Conn) (interface{}, error) {
			var raw json.RawMessage
			err := w.Raw(w.Local, "pool_account", &raw, wallet)
			return raw, err
		}
	}
	update := func(id *vlib.Identity, peers ...*vlib.Identity) func(w *vlib.World, conns map[string]*vlib.Conn) (interface{}, error) {
		return func(w *vlib.World, conns map[string]*vlib.Conn) (interface{}, error) {
			infos := []ethnode.PeerInfo{}
			for _, p := range peers {
				infos = append(infos, ethnode.PeerInfo{ID: p.NodeID})
			}
			n, err := w.RawStore.GetNode(store.NodeID(id.NodeID))
			if err == nil {
				w.Clock.Set(n.LastSeen.Add(elapsed))
			}
			return w.Update(conns[id.NodeID].AgentSide, id, infos, 77)
		}
	}
	steps := []step{
		{"account never-seen wallet (empty pool)", account(w2.Wallet)},
		{"connect host", func(w *vlib.World, conns map[string]*vlib.Conn) (interface{}, error) {
			c, err := w.ConnectHost(host, "geth", "192.0.2.10:30303")
			conns[host.NodeID] = c
			return nil, err
		}},
		{"connect host2", func(w *vlib.World, conns map[string]*vlib.Conn) (interface{}, error) {
			c, err := w.ConnectHost(host2, "parity", "192.0.2.11:30303")
			conns[host2.NodeID] = c
			return nil, err
		}},
		{"connect client", func(w *vlib.World, conns map[string]*vlib.Conn) (interface{}, error) {
			c, err := w.ConnectClient(client, "geth", "192.0.2.20:1")
			conns[client.NodeID] = c
			return nil, err
		}},
		{"account wallet before any link", account(w1.Wallet)},
		{"link client to wallet", func(w *vlib.World, conns map[string]*vlib.Conn) (interface{}, error) {
			return nil, w.Signed(w.Local, w1, w1.Wallet, "pool_addNode", nil, client.NodeID)
		}},
		{"account linked wallet", account(w1.Wallet)},
		{"account linked wallet, other spelling", account("0X" + w1.Wallet[2:])},
		{"client keep-alive reporting both hosts", update(client, host, host2)},
		{"client keep-alive reporting one host", update(client, host)},
		{"host keep-alive", update(host, client)},
		{"client peer request", func(w *vlib.World, conns map[string]*vlib.Conn) (interface{}, error) {
			var resp pool.PeerResponse
			err := w.Signed(conns[client.NodeID].AgentSide, client, client.NodeID, "vipnode_peer", &resp, pool.PeerRequest{Num: 3, Kind: peerKind})
			for i := range resp.Peers {
				resp.Peers[i].LastSeen = time.Time{}
			}
			return resp, err
		}},
		{"link host to the same wallet", func(w *vlib.World, conns map[string]*vlib.Conn) (interface{}, error) {
			return nil, w.Signed(w.Local, w1, w1.Wallet, "pool_addNode", nil, host.NodeID)
		}},
		{"account wallet with two nodes", account(w1.Wallet)},
		{"account never-seen wallet", account(w2.Wallet)},
		{"account empty wallet string", account("")},
		{"link an unregistered node", func(w *vlib.World, conns map[string]*vlib.Conn) (interface{}, error) {
			return nil, w.Signed(w.Local, w2, w2.Wallet, "pool_addNode", nil, vlib.NewIdentity("c12pd-unregistered", 0).NodeID)
		}},
		{"account wallet after failed link", account(w2.Wallet)},
	}
	outcomes := map[string][]string{}
	for _, driver := range vlib.Drivers() {
		w, err := vlib.NewWorld(vlib.WorldOptions{Driver: driver, Price: big.NewInt(60000), Interval: time.Minute, WithPayment: true})
		if err != nil {
			panic(err)
		}
		conns := map[string]*vlib.Conn{}
		for _, st := range steps {
			res, err := st.run(w, conns)
			b, _ := json.Marshal(res)
			out := string(c12TimeRe.ReplaceAll(c12SortArrays(b), []byte(`"T"`)))
			if err != nil {
				out = "error: " + err.Error()
			}
			outcomes[driver] = append(outcomes[driver], out)
		}
		w.Close()
	}
	ev.Case(fmt.Sprintf("pool-differential elapsed=%s idx=%d", elapsed, idx), true)
	ev.Count("pool-differential-sessions", 1)
	ref := vlib.Drivers()[0]
	for _, driver := range vlib.Drivers()[1:] {
		for i, st := range steps {
			if outcomes[driver][i] != outcomes[ref][i] {
				ev.Violate("pool-behaviour-differs-between-drivers:"+st.what, map[string]interface{}{"step": st.what, ref: truncStr(outcomes[ref][i], 400), driver: truncStr(outcomes[driver][i], 400)})
				return
			}
		}
	}
}

// c12SortArrays re-encodes JSON with every array of strings sorted (peer
// lists are sets; their order is not part of the behaviour).
func c12SortArrays(b []byte) []byte {
	var v interface{}
	if json.Unmarshal(b, &v) != nil {
		return b
	}
	var walk func(x interface{}) interface{}
	walk = func(x interface{}) interface{} {
		switch t := x.(type) {
		case map[string]interface{}:
			for k, c := range t {
				t[k] = walk(c)
			}
			return t
		case []interface{}:
			strs := make([]string, 0, len(t))
			all := true
			for i, c := range t {
				t[i] = walk(c)
				if s, ok := t[i].(string); ok {
					strs = append(strs, s)
				} else {
					all = false
				}
			}
			if all {
				sort.Strings(strs)
				out := make([]interface{}, len(strs))
				for i, s := range strs {
					out[i] = s
				}
				return out
			}
			// arrays of objects: order by their encoding
			enc := make([]string, len(t))
			for i, c := range t {
				e, _ := json.Marshal(c)
				enc[i] = string(e)
			}
			sort.Strings(enc)
			out := make([]interface{}, len(enc))
			for i, e := range enc {
				out[i] = json.RawMessage(e)
			}
			return out
		}
		return x
	}
	out, err := json.Marshal(walk(v))
	if err != nil {
		return b
	}
	return out
}
