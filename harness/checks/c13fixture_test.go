package checks

import (
	"fmt"
	"math/big"
	"os"
	"os/exec"
	"path/filepath"
	"strings"
	"time"

	badgerdb "github.com/dgraph-io/badger/v2"
	"github.com/vipnode/vipnode/v2/pool/store"
	"github.com/vipnode/vipnode/v2/pool/store/badger"
	"verifharness/vlib"
)

// Golden data directories (fixtures/c13/v2, v1, v0): written once by the tree
// as it was when the fixture was made (`VERIF_CHILD=c13fixture`, see
// fixtures/c13/README), committed, never rewritten by a check. They stand for
// the databases of deployed pools: whatever today's tree is, it must open them,
// migrate the older formats, and read back exactly what was stored.

func init() {
	childModes["c13fixture"] = c13FixtureChild
}

var c13FixtureWallets = []string{"0x52bc44d5378309EE2abF1539BF71dE1b7d7bE3b5", "0x52bc44d5378309ee2abf1539bf71de1b7d7be3b5", "W"}

func c13FixtureNodes() []string {
	a := vlib.NewIdentity("c13fixture-node", 1).NodeID
	b := vlib.NewIdentity("c13fixture-node", 2).NodeID
	return []string{a, b, "0x" + a, strings.ToUpper(b), "n1"}
}

// c13FixtureDump renders everything the fixture holds through the store API.
func c13FixtureDump(s store.Store) string {
	var b strings.Builder
	for _, id := range c13FixtureNodes() {
		n, err := s.GetNode(store.NodeID(id))
		nf := vlib.ErrName(err)
		if err == nil {
			nf = "ok " + vlib.NodeFields(*n) + " seen=" + n.LastSeen.UTC().Format(time.RFC3339)
		}
		ns, perr := s.NodePeers(store.NodeID(id))
		fmt.Fprintf(&b, "node %s: %s | %s | %s\n", vlib.Short(id), nf, vlib.CanonBalance(s.GetNodeBalance(store.NodeID(id))), vlib.CanonNodes("peers", ns, perr))
	}
	for _, a := range c13FixtureWallets {
		ids, err := s.GetAccountNodes(store.Account(a))
		fmt.Fprintf(&b, "acct %s: %s | %s\n", a, vlib.CanonBalance(s.GetAccountBalance(store.Account(a))), vlib.CanonNodeIDs("nodes", ids, err))
	}
	st, err := s.Stats()
	if err != nil {
		fmt.Fprintf(&b, "stats err %v\n", err)
	} else {
		fmt.Fprintf(&b, "stats hosts=%d clients=%d block=%d credit=%s trials=%d\n", st.NumTotalHosts, st.NumTotalClients, st.LatestBlockNumber, st.TotalCredit.String(), st.NumTrialBalances)
	}
	return b.String()
}

// c13FixtureChild writes the fixtures (run by hand when the fixture is made).
func c13FixtureChild() int {
	out := os.Getenv("VERIF_C13_FIXTURE_OUT")
	if out == "" {
		fmt.Println("VERIF_C13_FIXTURE_OUT not set")
		return 2
	}
	seen := time.Date(2026, 9, 1, 12, 0, 0, 0, time.UTC)
	for _, ver := range []int{2, 1, 0} {
		dir := filepath.Join(out, fmt.Sprintf("v%d", ver))
		os.RemoveAll(dir)
		os.MkdirAll(dir, 0o755)
		s, err := badger.Open(vlib.BadgerDiskOptions(dir))
		if err != nil {
			fmt.Println("open:", err)
			return 1
		}
		nodes := c13FixtureNodes()
		for i, id := range nodes {
			n := store.Node{ID: store.NodeID(id), URI: fmt.Sprintf("enode://%s@198.51.100.%d:30303", id, i+1), Kind: []string{"geth", "parity", ""}[i%3], IsHost: i%2 == 0, BlockNumber: uint64(1000 + i), NodeVersion: "Geth/v1.9.15", VipnodeVersion: "vipnode/agent/2.3", LastSeen: seen.Add(time.Duration(i) * time.Minute)}
			vlib.SetPayout(&n, c13FixtureWallets[i%3])
			if err := s.SetNode(n); err != nil {
				fmt.Println("setnode:", err)
				return 1
			}
		}
		s.AddNodeBalance(store.NodeID(nodes[0]), big.NewInt(123456789))
		s.AddNodeBalance(store.NodeID(nodes[1]), big.NewInt(-4200))
		s.AddNodeBalance(store.NodeID(nodes[2]), mustBig("1000000000000000000000000000000"))
		s.AddNodeBalance(store.NodeID(nodes[4]), big.NewInt(7))
		s.AddAccountNode(store.Account(c13FixtureWallets[0]), store.NodeID(nodes[0]))
		s.AddAccountNode(store.Account(c13FixtureWallets[0]), store.NodeID(nodes[3]))
		s.AddAccountNode(store.Account(c13FixtureWallets[2]), store.NodeID(nodes[4]))
		s.AddAccountBalance(store.Account(c13FixtureWallets[1]), big.NewInt(-99))
		s.UpdateNodePeers(store.NodeID(nodes[1]), []string{nodes[0], nodes[2], "unknown"}, 2000)
		s.UpdateNodePeers(store.NodeID(nodes[0]), []string{nodes[1]}, 2001)
		// stamps must not depend on when the fixture was made: registrations are re-stamped
		for i, id := range nodes {
			n, _ := s.GetNode(store.NodeID(id))
			nn := *n
			nn.LastSeen = seen.Add(time.Duration(i) * time.Minute)
			s.SetNode(nn)
		}
		s.CheckAndSaveNonce(nodes[0], 1790000000000000000)
		dump := c13FixtureDump(s)
		s.Close()
		if ver < 2 {
			// an older deployment: the version key of that format, and its nonce table
			db, err := badgerdb.Open(vlib.BadgerDiskOptions(dir))
			if err != nil {
				fmt.Println("raw open:", err)
				return 1
			}
			db.Update(func(txn *badgerdb.Txn) error {
				if ver == 0 {
					txn.Delete([]byte("vip:version"))
				} else {
					txn.Set([]byte("vip:version"), gobInt(ver))
				}
				for k := 0; k < 40; k++ {
					txn.Set([]byte(fmt.Sprintf("vip:nonce:%s:%d", nodes[k%len(nodes)], 1000+k)), gobInt(1))
				}
				return nil
			})
			db.Close()
		}
		os.WriteFile(filepath.Join(out, fmt.Sprintf("v%d.expected.txt", ver)), []byte(dump), 0o644)
	}
	fmt.Println("FIXTURES-WRITTEN")
	return 0
}

// c13Fixtures opens a copy of every committed data directory with today's tree.
func c13Fixtures(ev *vlib.Evidence) {
	root := filepath.Join(vlib.Root(), "fixtures", "c13")
	for _, ver := range []int{2, 1, 0} {
		src := filepath.Join(root, fmt.Sprintf("v%d", ver))
		want, err := os.ReadFile(filepath.Join(root, fmt.Sprintf("v%d.expected.txt", ver)))
		if err != nil {
			ev.Note("fixtures", "not found under "+root)
			return
		}
		dir, _ := os.MkdirTemp("", "verif-c13f-")
		func() {
			defer os.RemoveAll(dir)
			if out, err := exec.Command("cp", "-r", src+"/.", dir).CombinedOutput(); err != nil {
				fmt.Println("HARNESS-ERROR copying fixture:", err, string(out))
				ev.Inconclusive("fixture-copy")
				return
			}
			desc := fmt.Sprintf("golden data directory format v%d", ver)
			ev.Case(desc, true)
			ev.Count("golden-directories-opened", 1)
			for pass := 1; pass <= 2; pass++ {
				s, err := badger.Open(vlib.BadgerDiskOptions(dir))
				if err != nil {
					ev.Violate(fmt.Sprintf("fixture:deployed-database-cannot-be-opened:v%d", ver), map[string]interface{}{"case": desc, "pass": pass, "err": err.Error()})
					return
				}
				got := c13FixtureDump(s)
				s.Close()
				if got != string(want) {
					ev.Violate(fmt.Sprintf("fixture:deployed-database-reads-back-differently:v%d", ver), map[string]interface{}{"case": desc, "pass": pass, "diff": diffLines(string(want), got)})
					return
				}
			}
		}()
	}
}
