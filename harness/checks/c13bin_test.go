package checks

import (
	"bytes"
	"encoding/json"
	"fmt"
	"io"
	"net/http"
	"os"
	"path/filepath"
	"strings"
	"time"

	"github.com/vipnode/vipnode/v2/pool"
	"verifharness/vlib"
)

// c13Binary: the built pool, as the CLI wires it for --store=persist, killed
// and restarted on the same data directory. Everything it acknowledged over
// HTTP before the kill (registrations, wallet links) is there afterwards, and
// the byte-identical copy of every accepted signed request is refused by the
// restarted process. This is the only place where the wiring of the stores in
// pool.go (which store each service is given) is observed across a restart.
func c13Binary(ev *vlib.Evidence, idx int) {
	bin, err := vlib.BuildVipnode("plain")
	if err != nil {
		fmt.Println("HARNESS-ERROR", err)
		ev.Inconclusive("build")
		return
	}
	r := vlib.Rand("C13-binary", idx)
	dir, _ := os.MkdirTemp("", "verif-c13b-")
	defer os.RemoveAll(dir)
	data := filepath.Join(dir, "data")
	var proc *vlib.Proc
	var addr string
	starts := 0
	startExited := false // the last failed start ended by itself (as opposed to being slow)
	start := func() bool {
		for attempt := 0; attempt < 4; attempt++ {
			starts++
			addr = fmt.Sprintf("127.0.0.1:%d", vlib.FreePort())
			logPath := filepath.Join(dir, fmt.Sprintf("pool-%d.log", starts))
			p, err := vlib.StartProc(logPath, []string{"HOME=" + dir}, bin, "pool", "--store=persist", "--datadir", data, "--bind", addr)
			if err == nil && p.WaitListening(addr, 30*time.Second) {
				proc = p
				return true
			}
			startExited = false
			if p != nil {
				startExited, _ = p.Exited()
				p.Kill(false)
			}
			// another process of this machine took the port between FreePort and bind: try another one
			if b, _ := os.ReadFile(logPath); !strings.Contains(string(b), "address already in use") {
				return false
			}
		}
		return false
	}
	if !start() {
		ev.Inconclusive("pool-start")
		return
	}
	defer func() { proc.Kill(false) }()
	post := func(body string) (result json.RawMessage, errMsg string, ok bool) {
		resp, err := (&http.Client{Timeout: 30 * time.Second}).Post("http://"+addr+"/", "application/json", bytes.NewReader([]byte(body)))
		if err != nil {
			return nil, err.Error(), false
		}
		defer resp.Body.Close()
		b, _ := io.ReadAll(resp.Body)
		var m struct {
			Result json.RawMessage `json:"result"`
			Error  *struct {
				Message string `json:"message"`
			} `json:"error"`
		}
		if json.Unmarshal(b, &m) != nil {
			return nil, "unparseable reply: " + truncStr(string(b), 200), false
		}
		if m.Error != nil {
			return nil, m.Error.Message, true
		}
		return m.Result, "", true
	}
	nonceBase := time.Now().UnixNano()
	seq := int64(0)
	signed := func(key *vlib.Identity, identity, method string, args ...interface{}) string {
		seq++
		n := nonceBase + seq*1000
		all := append([]interface{}{vlib.RefSign(key.Key, method, identity, n, args...), identity, n}, args...)
		b, _ := json.Marshal(all)
		return fmt.Sprintf(`{"jsonrpc":"2.0","id":%d,"method":%q,"params":%s}`, seq, method, b)
	}
	type accepted struct{ what, body string }
	var acc []accepted
	trace := []string{}
	nNodes := 1 + r.Intn(3)
	nodes := []*vlib.Identity{}
	wallet := vlib.NewIdentity("c13bwallet", idx%5)
	fail := func(key string, d map[string]interface{}) {
		d["trace"] = trace
		d["index"] = idx
		ev.Violate(key, d)
	}
	for i := 0; i < nNodes; i++ {
		n := vlib.NewIdentity("c13bnode", (idx*3+i)%17)
		nodes = append(nodes, n)
		body := signed(n, n.NodeID, "vipnode_connect", vlib.ConnectReq(false, "geth", "", ""))
		_, e, ok := post(body)
		if !ok {
			ev.Inconclusive("http")
			return
		}
		if e != "" {
			fail("binary:connect-refused", map[string]interface{}{"err": e})
			return
		}
		acc = append(acc, accepted{"vipnode_connect " + n.Name, body})
		trace = append(trace, "connect "+n.Name+" ok")
		body = signed(wallet, wallet.Wallet, "pool_addNode", n.NodeID)
		_, e, ok = post(body)
		if !ok {
			ev.Inconclusive("http")
			return
		}
		if e != "" {
			fail("binary:addNode-refused", map[string]interface{}{"err": e})
			return
		}
		acc = append(acc, accepted{"pool_addNode " + n.Name, body})
		trace = append(trace, "addNode "+n.Name+" ok")
		if r.Intn(2) == 0 {
			body = signed(n, n.NodeID, "vipnode_update", pool.UpdateRequest{BlockNumber: 7})
			if _, e, ok = post(body); ok && e == "" {
				acc = append(acc, accepted{"vipnode_update " + n.Name, body})
				trace = append(trace, "update "+n.Name+" ok")
			}
		}
	}
	account := func() (ids []string, ok bool) {
		wj, _ := json.Marshal(wallet.Wallet)
		res, e, ok := post(fmt.Sprintf(`{"jsonrpc":"2.0","id":9000,"method":"pool_account","params":[%s]}`, wj))
		if !ok || e != "" {
			return nil, false
		}
		var a struct {
			NodeShortIDs []string `json:"node_short_ids"`
		}
		json.Unmarshal(res, &a)
		return a.NodeShortIDs, true
	}
	before, ok := account()
	if !ok {
		ev.Inconclusive("http")
		return
	}
	if len(before) != nNodes {
		fail("binary:linked-nodes-not-listed", map[string]interface{}{"linked": nNodes, "listed": before})
		return
	}
	// restart: SIGKILL or a regular shutdown
	how := "SIGKILL"
	if r.Intn(3) == 0 {
		how = "SIGINT"
		proc.Cmd.Process.Signal(os.Interrupt)
		if exited, _ := proc.WaitExit(20 * time.Second); !exited {
			proc.Kill(false)
		}
	} else {
		proc.Kill(false)
		proc.WaitExit(10 * time.Second)
	}
	trace = append(trace, "restart after "+how)
	if !start() {
		if !startExited {
			ev.Inconclusive("pool-restart-slow") // still starting after 30 s on a loaded machine: no verdict
			return
		}
		sig, excerpt := vlib.CrashSignature(filepath.Join(dir, fmt.Sprintf("pool-%d.log", starts)))
		fail("binary:pool-does-not-restart-on-its-data-directory", map[string]interface{}{"how": how, "signature": sig, "log": truncStr(excerpt, 600)})
		return
	}
	after, ok := account()
	if !ok {
		ev.Inconclusive("http")
		return
	}
	if strings.Join(sortedCopy(after), ",") != strings.Join(sortedCopy(before), ",") {
		fail("binary:acknowledged-links-lost-across-restart", map[string]interface{}{"how": how, "before": before, "after": after})
	}
	replays := 0
	for _, a := range acc {
		_, e, ok := post(a.body)
		if !ok {
			ev.Inconclusive("http")
			return
		}
		replays++
		if e == "" {
			fail("binary:accepted-request-replayed-after-restart", map[string]interface{}{"how": how, "request": a.what})
		}
	}
	// the registrations are there: a fresh keep-alive of every node is served
	for _, n := range nodes {
		_, e, ok := post(signed(n, n.NodeID, "vipnode_update", pool.UpdateRequest{BlockNumber: 8}))
		if !ok {
			ev.Inconclusive("http")
			return
		}
		if e != "" {
			fail("binary:registered-node-unknown-after-restart", map[string]interface{}{"how": how, "node": n.Name, "err": e})
		}
	}
	ev.Case(fmt.Sprintf("binary restart how=%s nodes=%d accepted=%d idx=%d", how, nNodes, len(acc), idx), replays >= 2)
	ev.Count("binary-restarts:"+how, 1)
	ev.Count("binary-replayed-requests", int64(replays))
	if idx == 0 {
		ev.Sample(map[string]interface{}{"layer": "binary-restart", "trace": trace})
	}
}
