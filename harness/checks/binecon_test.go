package checks

import (
	"encoding/json"
	"fmt"
	"io"
	"math/big"
	"net"
	"net/http"
	"os"
	"path/filepath"
	"regexp"
	"strings"
	"sync"
	"time"

	"github.com/gorilla/websocket"
	"github.com/vipnode/vipnode/v2/ethnode"
	"github.com/vipnode/vipnode/v2/pool"
	"verifharness/vlib"
)

// binSession is one WebSocket connection of a node to the built pool binary,
// with a reader that acknowledges and records the pool's reverse calls.
type binSession struct {
	c       *websocket.Conn
	id      *vlib.Identity
	wmu     sync.Mutex
	mu      sync.Mutex
	replies map[string]chan binReply
	reverse []string // "method arg"
	nonce   int64
	seq     int
	closed  chan struct{}
}

type binReply struct {
	result json.RawMessage
	err    string
}

func newBinSession(addr string, id *vlib.Identity) (*binSession, error) {
	c, err := wsDial(addr)
	if err != nil {
		return nil, err
	}
	s := &binSession{c: c, id: id, replies: map[string]chan binReply{}, closed: make(chan struct{})}
	go func() {
		defer close(s.closed)
		for {
			_, data, err := c.ReadMessage()
			if err != nil {
				return
			}
			var m struct {
				ID     json.RawMessage   `json:"id"`
				Method string            `json:"method"`
				Params []json.RawMessage `json:"params"`
				Result json.RawMessage   `json:"result"`
				Error  *struct {
					Message string `json:"message"`
				} `json:"error"`
			}
			if json.Unmarshal(data, &m) != nil {
				continue
			}
			if m.Method != "" {
				arg := ""
				if len(m.Params) > 0 {
					arg = string(m.Params[0])
				}
				s.mu.Lock()
				s.reverse = append(s.reverse, m.Method+" "+arg)
				s.mu.Unlock()
				s.wmu.Lock()
				c.WriteMessage(websocket.TextMessage, []byte(fmt.Sprintf(`{"jsonrpc":"2.0","id":%s,"result":null}`, m.ID)))
				s.wmu.Unlock()
				continue
			}
			s.mu.Lock()
			ch := s.replies[string(m.ID)]
			s.mu.Unlock()
			if ch != nil {
				r := binReply{result: m.Result}
				if m.Error != nil {
					r.err = m.Error.Message
					if r.err == "" {
						r.err = "(empty error message)"
					}
				}
				ch <- r
			}
		}
	}()
	return s, nil
}

// call sends one signed request; sent/recvd bracket the pool's handling of it.
func (s *binSession) call(method string, arg interface{}) (res json.RawMessage, errMsg string, sent, recvd time.Time, ok bool) {
	s.seq++
	n := time.Now().UnixNano()
	if n <= s.nonce {
		n = s.nonce + 1
	}
	s.nonce = n
	all, _ := json.Marshal([]interface{}{vlib.RefSign(s.id.Key, method, s.id.NodeID, n, arg), s.id.NodeID, n, arg})
	ch := make(chan binReply, 1)
	key := fmt.Sprint(s.seq)
	s.mu.Lock()
	s.replies[key] = ch
	s.mu.Unlock()
	sent = time.Now()
	s.wmu.Lock()
	s.c.SetWriteDeadline(time.Now().Add(10 * time.Second))
	err := s.c.WriteMessage(websocket.TextMessage, []byte(fmt.Sprintf(`{"jsonrpc":"2.0","id":%d,"method":%q,"params":%s}`, s.seq, method, all)))
	s.wmu.Unlock()
	if err != nil {
		return nil, err.Error(), sent, time.Now(), false
	}
	select {
	case r := <-ch:
		return r.result, r.err, sent, time.Now(), true
	case <-s.closed:
		return nil, "connection closed", sent, time.Now(), false
	case <-time.After(30 * time.Second):
		return nil, "no reply within 30 s", sent, time.Now(), false
	}
}

func (s *binSession) reverseCalls() []string {
	s.mu.Lock()
	defer s.mu.Unlock()
	return append([]string{}, s.reverse...)
}

var lowBalanceRe = regexp.MustCompile(`Current balance \((-?\d+)\) is less than the required minimum \((-?\d+)\)`)

// binEconomy runs one session against the built pool binary configured on its
// command line (price per minute, minimum balance, store), i.e. with the
// balance manager, stores and services wired by pool.go rather than by the
// harness: a host, a light client that is paired with it and billed over a
// real stretch of time, and the host's own keep-alive afterwards. Only the
// clauses of property prop are asserted:
//
//	C01 what the client lost is exactly what the host gained; total credit 0
//	C02 the amount debited lies within elapsed x price/minute for the elapsed
//	    time bracketed by the harness's send/receive times; the host pays nothing
//	C03 the client is refused at connect / cut off at a billed keep-alive exactly
//	    when its balance is below the configured minimum, the error carries that
//	    balance, and the host is asked to disconnect it
func binEconomy(ev *vlib.Evidence, prop string, idx int) {
	bin, err := vlib.BuildVipnode("plain")
	if err != nil {
		fmt.Println("HARNESS-ERROR", err)
		ev.Inconclusive("build")
		return
	}
	r := vlib.Rand("binary-economy", idx) // same scenarios for the three properties
	const len7 = 7                        // number of minimum configurations below
	type priceCfg struct {
		flag string
		wei  int64 // per minute
	}
	prices := []priceCfg{{"", 100e9}, {"6000000000", 6e9}, {"6 gwei", 6e9}, {"0.0000006 ether", 600e9}, {"60000", 60000},
		{"6 szabo", 6e12}, {"0.06 finney", 6e13}, {"6 mwei", 6e6}, {"60 kwei", 60000}, {"6 shannon", 6e9}}
	pc := prices[(idx/len7+idx)%len(prices)]
	perSec := pc.wei / 60
	// minimum: unset, off, a positive value, zero, a negative value ~1.5 s of billing, a very negative one
	type minCfg struct {
		flag string
		set  bool
		wei  *big.Int
	}
	mins := []minCfg{{"", false, nil}, {"off", false, nil}, {"1", true, big.NewInt(1)}, {"1 gwei", true, big.NewInt(1e9)}, {"0", true, big.NewInt(0)},
		{fmt.Sprintf("-%d", perSec*3/2), true, big.NewInt(-perSec * 3 / 2)}, {"-1 ether", true, new(big.Int).Neg(big.NewInt(1e18))}}
	mc := mins[idx%len(mins)]
	storeKind := vlib.Pick(r, "memory", "memory", "persist")
	dir, _ := os.MkdirTemp("", "verif-binecon-")
	defer os.RemoveAll(dir)
	addr := fmt.Sprintf("127.0.0.1:%d", vlib.FreePort())
	args := []string{"pool", "--store=" + storeKind, "--bind", addr}
	if storeKind == "persist" {
		args = append(args, "--datadir", filepath.Join(dir, "data"))
	}
	if pc.flag != "" {
		args = append(args, "--contract.price="+pc.flag)
	}
	if mc.flag != "" {
		args = append(args, "--contract.min-balance="+mc.flag)
	}
	p, err := vlib.StartProc(filepath.Join(dir, "pool.log"), []string{"HOME=" + dir}, bin, args...)
	if err != nil || !p.WaitListening(addr, 30*time.Second) {
		if p != nil {
			p.Kill(false)
		}
		ev.Inconclusive("pool-start")
		return
	}
	defer p.Kill(false)
	desc := fmt.Sprintf("binary-economy price=%q min=%q store=%s idx=%d", pc.flag, mc.flag, storeKind, idx)
	trace := []string{strings.Join(args, " ")}
	fail := func(key string, d map[string]interface{}) {
		d["case"] = desc
		d["trace"] = trace
		ev.Violate("binary-economy:"+key, d)
	}
	is := func(ps ...string) bool {
		for _, q := range ps {
			if q == prop {
				return true
			}
		}
		return false
	}
	host := vlib.NewIdentity("binecon-host", idx%13)
	client := vlib.NewIdentity("binecon-client", idx%13)
	hs, err := newBinSession(addr, host)
	if err != nil {
		ev.Inconclusive("ws-dial")
		return
	}
	defer hs.c.Close()
	if _, e, _, _, ok := hs.call("vipnode_connect", vlib.ConnectReq(true, "geth", "enode://"+host.NodeID+"@203.0.113.9:30303", "")); !ok {
		ev.Inconclusive("ws")
		return
	} else if e != "" {
		// a host is never refused for its balance
		if is("C03") {
			fail("host-refused", map[string]interface{}{"err": e})
		}
		return
	}
	trace = append(trace, "host connected")
	cs, err := newBinSession(addr, client)
	if err != nil {
		ev.Inconclusive("ws-dial")
		return
	}
	defer cs.c.Close()
	_, e, connSent, connRecvd, ok := cs.call("vipnode_connect", vlib.ConnectReq(false, "geth", "", ""))
	if !ok {
		ev.Inconclusive("ws")
		return
	}
	wantRefused := mc.set && mc.wei.Sign() > 0 // a new client's balance is 0
	trace = append(trace, fmt.Sprintf("client connect -> %q", e))
	if is("C03") {
		if wantRefused != (e != "") {
			fail("connect-refusal-wrong", map[string]interface{}{"minimum": mc.flag, "client_balance": "0", "refused": e != "", "err": e})
			return
		}
		if wantRefused {
			m := lowBalanceRe.FindStringSubmatch(e)
			if m == nil || m[1] != "0" || m[2] != mc.wei.String() {
				fail("connect-refusal-does-not-report-balance-and-minimum", map[string]interface{}{"err": e, "want_balance": "0", "want_minimum": mc.wei.String()})
			}
		}
	}
	if e != "" {
		ev.Case(desc+" refused-at-connect", is("C03"))
		ev.Count("binary-economy:refused-at-connect", 1)
		return
	}
	// pairing
	res, e, _, _, ok := cs.call("vipnode_peer", pool.PeerRequest{Num: 1})
	if !ok {
		ev.Inconclusive("ws")
		return
	}
	var pr pool.PeerResponse
	json.Unmarshal(res, &pr)
	trace = append(trace, fmt.Sprintf("client peer request -> %d peers err=%q", len(pr.Peers), e))
	if e != "" || len(pr.Peers) != 1 {
		ev.Inconclusive("pairing") // C08/C09 decide this
		return
	}
	// billed keep-alives
	waits := []time.Duration{time.Duration(100+r.Intn(400)) * time.Millisecond, time.Duration(2500+r.Intn(1500)) * time.Millisecond}
	debitLo, debitHi := new(big.Int), new(big.Int)
	var lastCredit *big.Int
	cutOff := false
	// the pool's stamp of the previous check-in lies in [prevSent, prevRecvd]
	prevSent, prevRecvd := connSent, connRecvd
	for k, w := range waits {
		time.Sleep(w)
		res, e, sent, recvd, ok := cs.call("vipnode_update", pool.UpdateRequest{PeerInfo: []ethnode.PeerInfo{{ID: host.NodeID}}, BlockNumber: uint64(10 + k)})
		if !ok {
			ev.Inconclusive("ws")
			return
		}
		// elapsed as the pool measures it: between (sent-prevRecvd) and (recvd-prevSent)
		lo := sent.Sub(prevRecvd)
		if lo < 0 {
			lo = 0
		}
		hi := recvd.Sub(prevSent)
		cLo := new(big.Int).Div(new(big.Int).Mul(big.NewInt(int64(lo)), big.NewInt(pc.wei)), big.NewInt(int64(time.Minute)))
		cHi := new(big.Int).Div(new(big.Int).Mul(big.NewInt(int64(hi)), big.NewInt(pc.wei)), big.NewInt(int64(time.Minute)))
		debitLo.Add(debitLo, cLo)
		debitHi.Add(debitHi, cHi)
		prevSent, prevRecvd = sent, recvd
		trace = append(trace, fmt.Sprintf("client keep-alive %d after %v -> err=%q", k+1, w, e))
		var got *big.Int
		if e != "" {
			m := lowBalanceRe.FindStringSubmatch(e)
			if m == nil {
				if is("C03") {
					fail("keep-alive-failed", map[string]interface{}{"err": e})
				}
				return
			}
			got, _ = new(big.Int).SetString(m[1], 10)
			cutOff = true
			if is("C03") && m[2] != mc.wei.String() {
				fail("cut-off-reports-wrong-minimum", map[string]interface{}{"err": e, "minimum": mc.wei.String()})
			}
		} else {
			var ur pool.UpdateResponse
			json.Unmarshal(res, &ur)
			if ur.Balance == nil {
				if is("C02") {
					fail("keep-alive-without-balance", map[string]interface{}{"reply": truncStr(string(res), 300)})
				}
				return
			}
			got = new(big.Int).Add(&ur.Balance.Credit, &ur.Balance.Deposit)
			if is("C02", "C18") && (len(ur.ActivePeers) != 1 || !strings.Contains(ur.ActivePeers[0], host.NodeID)) {
				fail("paired-host-not-active", map[string]interface{}{"active_peers": ur.ActivePeers})
			}
		}
		lastCredit = got
		spent := new(big.Int).Neg(got)
		// two roundings at most per keep-alive
		slackLo := new(big.Int).Sub(debitLo, big.NewInt(int64(k+1)))
		if is("C02") && (spent.Cmp(slackLo) < 0 || spent.Cmp(debitHi) > 0) {
			fail("debit-outside-elapsed-times-price", map[string]interface{}{"price_per_minute_wei": pc.wei, "keep_alive": k + 1, "debited_so_far": spent.String(), "lower_bound": slackLo.String(), "upper_bound": debitHi.String()})
			return
		}
		if is("C03") {
			below := mc.set && got.Cmp(mc.wei) < 0
			if below != cutOff {
				fail("cut-off-wrong", map[string]interface{}{"minimum": mc.flag, "balance_after_charge": got.String(), "cut_off": cutOff, "err": e})
				return
			}
		}
		if cutOff {
			break
		}
	}
	ev.Count("binary-economy:billed-sessions", 1)
	if cutOff {
		ev.Count("binary-economy:cut-off", 1)
		// the pool asks the host to disconnect the client
		deadline := time.Now().Add(3 * time.Second)
		asked := false
		for !asked && time.Now().Before(deadline) {
			for _, rc := range hs.reverseCalls() {
				if strings.HasPrefix(rc, "vipnode_disconnect") && strings.Contains(rc, client.NodeID) {
					asked = true
				}
			}
			if !asked {
				time.Sleep(50 * time.Millisecond)
			}
		}
		if is("C03") && !asked {
			fail("host-not-asked-to-disconnect-cut-off-client", map[string]interface{}{"host_saw": abbrevCalls(hs.reverseCalls())})
		}
	}
	// the host's own keep-alive: it pays nothing and holds exactly what the client lost
	res, e, _, _, ok = hs.call("vipnode_update", pool.UpdateRequest{PeerInfo: []ethnode.PeerInfo{{ID: client.NodeID}}, BlockNumber: 12})
	if !ok {
		ev.Inconclusive("ws")
		return
	}
	if e != "" {
		if is("C03", "C02") {
			fail("host-keep-alive-refused", map[string]interface{}{"err": e})
		}
		return
	}
	var hr pool.UpdateResponse
	json.Unmarshal(res, &hr)
	if hr.Balance == nil {
		ev.Inconclusive("host-balance")
		return
	}
	hostTotal := new(big.Int).Add(&hr.Balance.Credit, &hr.Balance.Deposit)
	trace = append(trace, fmt.Sprintf("host keep-alive -> balance %s; client balance %s", hostTotal, lastCredit))
	if is("C01", "C02") && new(big.Int).Add(hostTotal, lastCredit).Sign() != 0 {
		fail("host-gain-differs-from-client-loss", map[string]interface{}{"host_balance": hostTotal.String(), "client_balance": lastCredit.String()})
	}
	if is("C01") {
		resp, err := (&http.Client{Timeout: 20 * time.Second}).Post("http://"+addr+"/", "application/json", strings.NewReader(`{"jsonrpc":"2.0","id":1,"method":"pool_status","params":[]}`))
		if err == nil {
			b, _ := io.ReadAll(resp.Body)
			resp.Body.Close()
			var sr struct {
				Result struct {
					Stats *struct {
						TotalCredit  *big.Int `json:"total_credit"`
						TotalDeposit *big.Int `json:"total_deposit"`
					} `json:"stats"`
				} `json:"result"`
			}
			if json.Unmarshal(b, &sr) == nil && sr.Result.Stats != nil && sr.Result.Stats.TotalCredit != nil {
				ev.Count("binary-economy:status-total-credit-read", 1)
				if sr.Result.Stats.TotalCredit.Sign() != 0 {
					fail("status-total-credit-not-zero", map[string]interface{}{"total_credit": sr.Result.Stats.TotalCredit.String()})
				}
			}
		}
	}
	ev.Case(desc+fmt.Sprintf(" cutoff=%v", cutOff), lastCredit.Sign() < 0)
	if idx == 0 {
		ev.Sample(map[string]interface{}{"layer": "binary-economy", "trace": trace})
	}
}

// binCutOffHangUp (C03): the client sends the keep-alive that cuts it off over
// plain HTTP and hangs up without waiting for the answer. Its request is
// complete and is processed; the hosts peering with it must still be asked to
// disconnect it.
func binCutOffHangUp(ev *vlib.Evidence, idx int) {
	bin, err := vlib.BuildVipnode("plain")
	if err != nil {
		ev.Inconclusive("build")
		return
	}
	dir, _ := os.MkdirTemp("", "verif-binhang-")
	defer os.RemoveAll(dir)
	addr := fmt.Sprintf("127.0.0.1:%d", vlib.FreePort())
	p, err := vlib.StartProc(filepath.Join(dir, "pool.log"), []string{"HOME=" + dir}, bin, "pool", "--store=memory", "--bind", addr, "--contract.min-balance=0")
	if err != nil || !p.WaitListening(addr, 30*time.Second) {
		if p != nil {
			p.Kill(false)
		}
		ev.Inconclusive("pool-start")
		return
	}
	defer p.Kill(false)
	nh := 1 + idx%3
	hosts := []*binSession{}
	infos := []ethnode.PeerInfo{}
	for i := 0; i < nh; i++ {
		id := vlib.NewIdentity("binhang-host", idx*3+i)
		s, err := newBinSession(addr, id)
		if err != nil {
			ev.Inconclusive("ws-dial")
			return
		}
		defer s.c.Close()
		if _, e, _, _, ok := s.call("vipnode_connect", vlib.ConnectReq(true, "geth", "enode://"+id.NodeID+"@203.0.113.9:30303", "")); !ok || e != "" {
			ev.Inconclusive("host-connect")
			return
		}
		hosts = append(hosts, s)
		infos = append(infos, ethnode.PeerInfo{ID: id.NodeID})
	}
	client := vlib.NewIdentity("binhang-client", idx)
	cs, err := newBinSession(addr, client)
	if err != nil {
		ev.Inconclusive("ws-dial")
		return
	}
	defer cs.c.Close()
	if _, e, _, _, ok := cs.call("vipnode_connect", vlib.ConnectReq(false, "geth", "", "")); !ok || e != "" {
		ev.Inconclusive("client-connect")
		return
	}
	time.Sleep(200 * time.Millisecond) // some billable time
	req := pool.UpdateRequest{PeerInfo: infos, BlockNumber: 5}
	n := time.Now().UnixNano() + 1000000
	all, _ := json.Marshal([]interface{}{vlib.RefSign(client.Key, "vipnode_update", client.NodeID, n, req), client.NodeID, n, req})
	body := fmt.Sprintf(`{"jsonrpc":"2.0","id":1,"method":"vipnode_update","params":%s}`, all)
	conn, err := net.Dial("tcp", addr)
	if err != nil {
		ev.Inconclusive("dial")
		return
	}
	fmt.Fprintf(conn, "POST / HTTP/1.1\r\nHost: %s\r\nContent-Type: application/json\r\nContent-Length: %d\r\n\r\n%s", addr, len(body), body)
	conn.Close() // hang up at once
	desc := fmt.Sprintf("cut-off keep-alive over HTTP with hang-up hosts=%d idx=%d", nh, idx)
	ev.Case(desc, true)
	ev.Count("binary-economy:cut-off-with-hang-up", 1)
	deadline := time.Now().Add(25 * time.Second) // generous: only a failing run waits this long
	asked := 0
	for time.Now().Before(deadline) {
		asked = 0
		for _, h := range hosts {
			for _, rc := range h.reverseCalls() {
				if strings.HasPrefix(rc, "vipnode_disconnect") && strings.Contains(rc, client.NodeID) {
					asked++
					break
				}
			}
		}
		if asked == nh {
			return
		}
		time.Sleep(50 * time.Millisecond)
	}
	// was the request processed at all? the client's balance tells (a fresh keep-alive over the websocket)
	_, e, _, _, ok := cs.call("vipnode_update", pool.UpdateRequest{PeerInfo: infos, BlockNumber: 6})
	if !ok {
		ev.Inconclusive("ws")
		return
	}
	if m := lowBalanceRe.FindStringSubmatch(e); m == nil {
		ev.Inconclusive("hang-up-request-not-processed")
		return
	}
	ev.Violate("binary-economy:host-not-asked-to-disconnect-cut-off-client:hang-up", map[string]interface{}{"case": desc, "hosts": nh, "hosts_asked": asked})
}
