package checks

import (
	"encoding/json"
	"fmt"
	"net"
	"net/http"
	"net/url"
	"os"
	"path/filepath"
	"strings"
	"time"

	"github.com/ethereum/go-ethereum/rpc"
	"github.com/vipnode/vipnode/v2/pool"
	"verifharness/vlib"
)

// c19EndToEnd: the shipped binaries together. A `vipnode agent` fronting a
// (fake) full geth node registers with a `vipnode pool` over a real WebSocket,
// configured only through its command line (--enode, --enode.host or neither);
// a client then asks the pool for peers. The URI it is handed must carry the
// node's own id and the address the operator supplied or, by default, the
// address the agent connected from with the node's port.
func c19EndToEnd(ev *vlib.Evidence, idx int) {
	bin, err := vlib.BuildVipnode("plain")
	if err != nil {
		fmt.Println("HARNESS-ERROR", err)
		ev.Inconclusive("build")
		return
	}
	dir, _ := os.MkdirTemp("", "verif-c19e-")
	defer os.RemoveAll(dir)
	self := vlib.NewIdentity("c19e2e-host", idx)
	type cfg struct {
		name, wantHost, wantPort string
		flags                    []string
	}
	cfgs := []cfg{
		{"no-override", "127.0.0.1", "30303", nil},
		{"enode-ipv4", "198.51.100.3", "30999", []string{"--enode=enode://" + self.NodeID + "@198.51.100.3:30999"}},
		{"enode-ipv6", "2001:db8::3", "30304", []string{"--enode=enode://" + self.NodeID + "@[2001:db8::3]:30304"}},
		{"enode-dns", "node.example.org", "30400", []string{"--enode=enode://" + self.NodeID + "@node.example.org:30400"}},
		{"enode.host-ipv4", "203.0.113.50", "30303", []string{"--enode.host=203.0.113.50"}},
		{"enode.host-ipv4-port", "203.0.113.51", "31000", []string{"--enode.host=203.0.113.51:31000"}},
		{"enode.host-ipv6-port", "2001:db8::51", "31001", []string{"--enode.host=[2001:db8::51]:31001"}},
		{"enode.host-ipv6", "2001:db8::52", "30303", []string{"--enode.host=[2001:db8::52]"}},
		{"enode.host-dns", "node.example.net", "30303", []string{"--enode.host=node.example.net"}},
	}
	c := cfgs[idx%len(cfgs)]
	// pool
	paddr := fmt.Sprintf("127.0.0.1:%d", vlib.FreePort())
	pp, err := vlib.StartProc(filepath.Join(dir, "pool.log"), []string{"HOME=" + dir}, bin, "pool", "--store=memory", "--bind", paddr)
	if err != nil || !pp.WaitListening(paddr, 30*time.Second) {
		if pp != nil {
			pp.Kill(false)
		}
		ev.Inconclusive("pool-start")
		return
	}
	defer pp.Kill(false)
	// node
	f := &fakeChain{kind: "geth", selfID: self.NodeID}
	nsrv := rpc.NewServer()
	nsrv.RegisterName("web3", &web3API{f})
	nsrv.RegisterName("eth", &ethAPI{f})
	nsrv.RegisterName("net", &netAPI{f})
	nsrv.RegisterName("admin", &adminAPI{f})
	nln, err := net.Listen("tcp", "127.0.0.1:0")
	if err != nil {
		ev.Inconclusive("listen")
		return
	}
	nhs := &http.Server{Handler: nsrv}
	go nhs.Serve(nln)
	defer nhs.Close()
	defer nsrv.Stop()
	args := append([]string{"agent", "ws://" + paddr + "/", "--rpc", "http://" + nln.Addr().String(), "--nodekey", writeNodeKey(dir, self), "--update-interval=60s", "--min-peers=0"}, c.flags...)
	ap, err := vlib.StartProc(filepath.Join(dir, "agent.log"), []string{"HOME=" + dir}, bin, args...)
	if err != nil {
		ev.Inconclusive("agent-start")
		return
	}
	defer ap.Kill(false)
	client := vlib.NewIdentity("c19e2e-client", idx)
	cs, err := newBinSession(paddr, client)
	if err != nil {
		ev.Inconclusive("ws-dial")
		return
	}
	defer cs.c.Close()
	if _, e, _, _, ok := cs.call("vipnode_connect", vlib.ConnectReq(false, "geth", "", "")); !ok || e != "" {
		ev.Inconclusive("client-connect")
		return
	}
	desc := "end-to-end/" + c.name
	detail := map[string]interface{}{"case": desc, "agent_flags": strings.Join(c.flags, " "), "node_reports": "enode://<own-id>@[::]:30303", "agent_connected_from": "127.0.0.1"}
	// ask until the host shows up (the agent needs a moment to register)
	uri := ""
	deadline := time.Now().Add(30 * time.Second)
	for uri == "" && time.Now().Before(deadline) {
		res, e, _, _, ok := cs.call("vipnode_peer", pool.PeerRequest{Num: 5})
		if !ok {
			ev.Inconclusive("ws")
			return
		}
		if e == "" {
			var pr pool.PeerResponse
			json.Unmarshal(res, &pr)
			for _, h := range pr.Peers {
				if string(h.ID) == self.NodeID {
					uri = h.URI
				}
			}
		}
		if uri == "" {
			if ex, _ := ap.Exited(); ex {
				b, _ := os.ReadFile(ap.LogPath)
				detail["agent_log"] = truncStr(string(b), 800)
				ev.Case(desc, true)
				ev.Violate("end-to-end:agent-exited-instead-of-registering:"+c.name, detail)
				return
			}
			time.Sleep(200 * time.Millisecond)
		}
	}
	if uri == "" {
		ev.Inconclusive("end-to-end-slow")
		return
	}
	ev.Case(desc, true)
	ev.Count("end-to-end-registrations", 1)
	detail["handed_out"] = strings.Replace(uri, self.NodeID, "<own-id>", -1)
	u, perr := url.Parse(uri)
	if perr != nil || u.User == nil || u.User.Username() != self.NodeID {
		ev.Violate("end-to-end:advertised-id-not-authenticated-id:"+c.name, detail)
		return
	}
	if u.Hostname() != c.wantHost || u.Port() != c.wantPort {
		detail["want_host"], detail["want_port"] = c.wantHost, c.wantPort
		ev.Violate("end-to-end:advertised-address-wrong:"+c.name, detail)
	}
}
