package checks

import (
	"fmt"
	"net"
	"os"
	"sync/atomic"
	"testing"

	badgerdb "github.com/dgraph-io/badger/v2"
	"github.com/vipnode/vipnode/v2/pool/store"
	"verifharness/vlib"
)

// childModes maps VERIF_CHILD values to worker entry points (re-exec of the
// test binary as a child process).
var childModes = map[string]func() int{}

func TestMain(m *testing.M) {
	if mode := os.Getenv("VERIF_CHILD"); mode != "" {
		fn, ok := childModes[mode]
		if !ok {
			fmt.Fprintf(os.Stderr, "unknown child mode %q\n", mode)
			os.Exit(3)
		}
		os.Exit(fn())
	}
	os.Exit(m.Run())
}

// finish writes the evidence and fails the test on anything but "held".
func finish(t *testing.T, e *vlib.Evidence) {
	if n := atomic.LoadInt64(&vlib.WatchdogFired); n > 0 {
		e.Count("harness-watchdog-expiries", n)
		fmt.Printf("NOTE harness watchdog (%s per call) fired %d time(s) in this run\n", vlib.CallTimeout, n)
	}
	switch e.Finish() {
	case vlib.StatusViolated:
		t.Fail()
	case vlib.StatusInconclusive:
		t.Fail()
	}
}

func storeID(s string) store.NodeID { return store.NodeID(s) }

func badgerMemOpts() badgerdb.Options {
	return badgerdb.DefaultOptions("").WithInMemory(true).WithLogger(nil)
}

func netListen() (net.Listener, error) { return net.Listen("tcp", "127.0.0.1:0") }
