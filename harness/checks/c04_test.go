package checks

import (
	"context"
	"encoding/base64"
	"encoding/hex"
	"encoding/json"
	"fmt"
	"math/rand"
	"reflect"
	"strings"
	"testing"
	"time"

	"github.com/vipnode/vipnode/v2/ethnode"
	"github.com/vipnode/vipnode/v2/jsonrpc2"
	"github.com/vipnode/vipnode/v2/pool"
	"github.com/vipnode/vipnode/v2/request"
	"verifharness/vlib"
)

// signedEndpoint describes one of the seven signed RPCs.
type signedEndpoint struct {
	Method string
	// Args returns the parameters after (sig, identity, nonce).
	Args func(r *rand.Rand, identity string) []interface{}
}

var signedEndpoints = []signedEndpoint{
	{"vipnode_connect", func(r *rand.Rand, id string) []interface{} {
		host := r.Intn(2) == 0
		uri := ""
		if host {
			uri = "enode://" + id + "@203.0.113.5:30303"
		}
		req := vlib.ConnectReq(host, vlib.Pick(r, "geth", "parity", ""), uri, vlib.Pick(r, "", "0xPayout"))
		req.VipnodeVersion = vlib.Pick(r, "v1", "verif", "", "v<2>&1", "a\u2028b")
		// any chain: main net, test nets, Ethereum Classic, xDai, private/dev chains
		req.NodeInfo.Network = ethnode.NetworkID(vlib.Pick(r, 1, 1, 3, 4, 5, 42, 61, 100, 1337, 0, 2147483647))
		req.NodeInfo.EthProtocol = vlib.Pick(r, "", "63", "0x3f", "10002")
		req.NodeInfo.Version = vlib.Pick(r, "Geth/verif", "", "besu/v1.4.0/linux-x86_64", "Parity-Ethereum//v2.5.13", "no-slash")
		return []interface{}{req}
	}},
	{"vipnode_update", func(r *rand.Rand, id string) []interface{} {
		infos := []ethnode.PeerInfo{}
		for i := 0; i < r.Intn(3); i++ {
			pi := ethnode.PeerInfo{ID: vlib.NewIdentity("c04peer", i).NodeID, Name: vlib.Pick(r, "n", "Geth/<v1>&x"), Caps: []string{"eth/63"}}
			if r.Intn(2) == 0 {
				pi.Protocols = map[string]json.RawMessage{"eth": json.RawMessage(vlib.Pick(r, `{"version":63}`, `{"head":"<0x1&2>","d":"\u2028"}`, `"<>"`))}
			}
			infos = append(infos, pi)
		}
		return []interface{}{pool.UpdateRequest{PeerInfo: infos, BlockNumber: uint64(r.Intn(1000)), Peers: []string{"a"}[:r.Intn(2)]}}
	}},
	{"vipnode_peer", func(r *rand.Rand, id string) []interface{} {
		return []interface{}{pool.PeerRequest{Num: 2 + r.Intn(3), Kind: vlib.Pick(r, "geth", "")}}
	}},
	{"vipnode_host", func(r *rand.Rand, id string) []interface{} {
		return []interface{}{pool.HostRequest{Kind: vlib.Pick(r, "geth", "parity"), Payout: vlib.Pick(r, "", "0xP", "<&>"), NodeURI: "enode://" + id + "@203.0.113.6:30303"}}
	}},
	{"vipnode_client", func(r *rand.Rand, id string) []interface{} {
		return []interface{}{pool.ClientRequest{Kind: vlib.Pick(r, "geth", ""), NumHosts: 2 + r.Intn(3)}}
	}},
	{"pool_addNode", func(r *rand.Rand, id string) []interface{} {
		return []interface{}{vlib.NewIdentity("c04host", r.Intn(2)).NodeID}
	}},
	{"pool_withdraw", func(r *rand.Rand, id string) []interface{} { return []interface{}{} }},
}

// callOutcome is the result of one guarded RPC.
type callOutcome struct {
	Err      error
	Panic    string
	Verify   bool // refused with a verification error
	Accepted bool // passed the verification step (any other outcome)
	Raw      json.RawMessage
}

// guardedCall issues a call on a synchronous service behind recover.
func guardedCall(svc jsonrpc2.Service, method string, params ...interface{}) (out callOutcome) {
	defer func() {
		if p := recover(); p != nil {
			out.Panic = fmt.Sprint(p)
		}
	}()
	ctx, cancel := context.WithTimeout(context.Background(), vlib.CallTimeout)
	defer cancel()
	var raw json.RawMessage
	out.Err = svc.Call(ctx, &raw, method, params...)
	out.Raw = raw
	if out.Err != nil && ctx.Err() == context.DeadlineExceeded {
		vlib.NoteWatchdog(method)
		out.Err = vlib.ErrWatchdog
	}
	if out.Err != nil && strings.Contains(out.Err.Error(), "failed to verify signature") {
		out.Verify = true
	} else {
		out.Accepted = true
	}
	return
}

// alteration is one single-component change of a signed request.
type alteration struct {
	Name   string
	Params []interface{}
	// MayPass marks alterations the statement does not require to be refused
	// (they only must not crash).
	MayPass bool
}

func cloneViaJSON(v interface{}) interface{} {
	body, _ := json.Marshal(v)
	p := reflect.New(reflect.TypeOf(v))
	json.Unmarshal(body, p.Interface())
	return p.Elem().Interface()
}

// leafAlterations returns variants of v (a params value) that differ in
// exactly one leaf of its JSON form.
func leafAlterations(v interface{}) map[string]interface{} {
	out := map[string]interface{}{}
	body, _ := json.Marshal(v)
	var tree interface{}
	json.Unmarshal(body, &tree)
	var walk func(path string, node interface{}, set func(interface{}))
	emit := func(path string) {
		nb, _ := json.Marshal(tree)
		p := reflect.New(reflect.TypeOf(v))
		if err := json.Unmarshal(nb, p.Interface()); err != nil {
			return
		}
		// The altered JSON itself goes on the wire (not a re-encoding through
		// the project's own types, whose marshallers are part of what is being
		// checked: a field they drop or blank would otherwise be invisible here).
		if string(nb) != string(body) {
			out[path] = json.RawMessage(nb)
		}
	}
	walk = func(path string, node interface{}, set func(interface{})) {
		switch n := node.(type) {
		case map[string]interface{}:
			for k, c := range n {
				k, c := k, c
				walk(path+"."+k, c, func(x interface{}) { n[k] = x })
			}
		case []interface{}:
			for i, c := range n {
				i, c := i, c
				walk(fmt.Sprintf("%s[%d]", path, i), c, func(x interface{}) { n[i] = x })
			}
			// one more element
			if len(n) > 0 {
				orig := n
				set(append(append([]interface{}{}, n...), n[0]))
				emit(path + "[+]")
				set(orig)
			}
		case string:
			set(n + "x")
			emit(path)
			set(n)
		case float64:
			set(n + 1)
			emit(path)
			set(n)
		case bool:
			set(!n)
			emit(path)
			set(n)
		case nil:
			// absent/omitted value: try a string and a number
			set("x")
			emit(path + "=str")
			set(float64(1))
			emit(path + "=num")
			set(nil)
		}
	}
	walk("$", tree, func(x interface{}) { tree = x })
	// zero-valued fields omitted from the JSON are reachable through the struct
	rv := reflect.ValueOf(v)
	if rv.Kind() == reflect.Struct {
		for i := 0; i < rv.NumField(); i++ {
			f := rv.Field(i)
			alt := reflect.New(rv.Type()).Elem()
			alt.Set(rv)
			switch f.Kind() {
			case reflect.String:
				alt.Field(i).SetString(f.String() + "y")
			case reflect.Int, reflect.Int64:
				alt.Field(i).SetInt(f.Int() + 7)
			case reflect.Uint64:
				alt.Field(i).SetUint(f.Uint() + 7)
			case reflect.Bool:
				alt.Field(i).SetBool(!f.Bool())
			default:
				continue
			}
			ab, _ := json.Marshal(alt.Interface())
			if string(ab) != string(body) {
				out["field:"+rv.Type().Field(i).Name] = alt.Interface()
			}
		}
	}
	return out
}

// buildAlterations produces all single-component alterations of a request
// signed by key over (method, identity, nonce, args).
func buildAlterations(r *rand.Rand, key, other *vlib.Identity, method, identity string, nonce int64, args []interface{}) []alteration {
	sigBytes, err := vlib.RefSignBytes(key.Key, method, identity, nonce, args...)
	if err != nil {
		panic(err)
	}
	sig := vlib.EncodeSig(identity, sigBytes)
	mk := func(sig string, identity string, nonce int64, args []interface{}) []interface{} {
		return append([]interface{}{sig, identity, nonce}, args...)
	}
	alts := []alteration{}
	// method: signature made for another method name
	for _, m := range []string{"vipnode_connect", "vipnode_update", "vipnode_peer", "vipnode_host", "vipnode_client", "pool_addNode", "pool_withdraw", method + "x", ""} {
		if m == method {
			continue
		}
		s := vlib.RefSign(key.Key, m, identity, nonce, args...)
		alts = append(alts, alteration{Name: "method:signed-for-" + m, Params: mk(s, identity, nonce, args)})
	}
	// identity: another valid identity of the same style
	otherIdentity := other.NodeID
	if len(identity) <= 42 {
		otherIdentity = other.Wallet
	}
	alts = append(alts, alteration{Name: "identity:other", Params: mk(sig, otherIdentity, nonce, args)})
	// the same key under another spelling of the identity (hex case): the signed text differs
	if up := strings.ToUpper(identity); up != identity && len(identity) > 42 {
		alts = append(alts, alteration{Name: "identity:uppercase", Params: mk(sig, up, nonce, args)})
	}
	if len(identity) <= 42 {
		if lo := strings.ToLower(identity); lo != identity {
			alts = append(alts, alteration{Name: "identity:lowercase", Params: mk(sig, lo, nonce, args)})
		}
		alts = append(alts, alteration{Name: "identity:0X-prefix", Params: mk(sig, "0X"+identity[2:], nonce, args)})
	}
	// wrong key over the right payload
	alts = append(alts, alteration{Name: "key:other", Params: mk(vlib.RefSign(other.Key, method, identity, nonce, args...), identity, nonce, args)})
	// nonce
	alts = append(alts, alteration{Name: "nonce:+1", Params: mk(sig, identity, nonce+1, args)})
	alts = append(alts, alteration{Name: "nonce:-1", Params: mk(sig, identity, nonce-1, args)})
	// params: one leaf at a time
	for ai, a := range args {
		for path, alt := range leafAlterations(a) {
			na := append([]interface{}{}, args...)
			na[ai] = alt
			alts = append(alts, alteration{Name: fmt.Sprintf("param%d:%s", ai, path), Params: mk(sig, identity, nonce, na)})
		}
	}
	// signature bytes: one bit in each R||S byte
	for i := 0; i < 64; i++ {
		b := append([]byte{}, sigBytes...)
		b[i] ^= 1 << uint(r.Intn(8))
		alts = append(alts, alteration{Name: fmt.Sprintf("sigbyte:%d", i), Params: mk(vlib.EncodeSig(identity, b), identity, nonce, args)})
	}
	// V byte: not part of what the key signed for node ids; must not crash
	bv := append([]byte{}, sigBytes...)
	bv[64] ^= 1
	alts = append(alts, alteration{Name: "sigbyte:V", Params: mk(vlib.EncodeSig(identity, bv), identity, nonce, args), MayPass: len(identity) > 42})
	// malformed signatures
	for name, s := range map[string]string{
		"empty": "", "short": vlib.EncodeSig(identity, sigBytes[:10]), "63bytes": vlib.EncodeSig(identity, sigBytes[:63]),
		"garbage": "!!!not-a-signature!!!", "AAAA": "AAAA", "zeros": vlib.EncodeSig(identity, make([]byte, 65)),
		"long": vlib.EncodeSig(identity, append(append([]byte{}, make([]byte, 65)...), sigBytes...)),
	} {
		alts = append(alts, alteration{Name: "sig:" + name, Params: mk(s, identity, nonce, args)})
	}
	// encoding swapped
	if len(identity) <= 42 {
		alts = append(alts, alteration{Name: "sig:base64-for-wallet", Params: mk(base64.StdEncoding.EncodeToString(sigBytes), identity, nonce, args)})
	} else {
		alts = append(alts, alteration{Name: "sig:hex-for-node", Params: mk(hex.EncodeToString(sigBytes), identity, nonce, args)})
	}
	return alts
}

// authWorld builds a small live session for authentication checks.
func authWorld(driver string, idx int) (*ledgerWorld, error) {
	lw, err := newLedgerWorld(ledgerOpts{driver: driver, price: mustBig("1000"), interval: time.Minute, nh: 2, nc: 2, nw: 2, family: "c04", chaos: true, seed: int64(idx)})
	if err != nil {
		return nil, err
	}
	for i, h := range lw.hosts {
		if err := lw.connect(h, true, fmt.Sprintf("192.0.2.%d:1", i+1)); err != nil {
			return nil, err
		}
	}
	for _, c := range lw.clients {
		if err := lw.connect(c, false, "192.0.2.50:1"); err != nil {
			return nil, err
		}
	}
	return lw, nil
}

func TestC04(t *testing.T) {
	ev := vlib.NewEvidence("C04", "exploration",
		"for each of the 7 signed endpoints x identity style (node id / wallet address): a reference-signed fresh request must pass verification (and request.Sign must produce the same signature), then every single-component alteration (signature made for another method, other identity, other key, nonce+-1, each JSON leaf / struct field of the params, one bit in each of the 64 R||S bytes, malformed/empty/short/garbage/oversize signatures, swapped encoding) must be refused with a verification error and leave the pool digest unchanged, in process and again over a persistent connection on which another identity has just authenticated; non-trivial = altered request differs from an accepted one in exactly one component; distinct = (endpoint, style, alteration); (faults) forged and valid requests whose caller is gone; 16x12 valid requests of one identity verified at once")
	ev.Assume("the V byte of a node-style signature and 27/28 vs 0/1 are not covered by the signature scheme: only required not to crash")
	ev.Assume("the legacy vipnode_update form (signature over {peers, block_number}) is accepted by design; its unsigned peers_info is a documented compatibility hole and is not asserted")
	rounds := vlib.Scale(2, 12)
	for round := 0; round < rounds; round++ {
		for _, driver := range vlib.Drivers() {
			for ei, ep := range signedEndpoints {
				for _, style := range []string{"node", "wallet"} {
					r := vlib.Rand(fmt.Sprintf("C04-%s-%s-%s", driver, ep.Method, style), round)
					lw, err := authWorld(driver, round)
					if err != nil {
						// the session is built from reference-signed requests only
						if strings.Contains(err.Error(), "failed to verify") {
							ev.Case("setup/"+driver, true)
							ev.Violate("valid-request-refused:session-setup", map[string]interface{}{"err": err.Error(), "note": "a request signed by the reference signer (method||JSON([identity,nonce,params...]), Keccak256) was refused"})
							continue
						}
						t.Fatal(err)
					}
					w := lw.w
					// the operator cap on hosts per request is applied after verification: it must not change what is verified
					if (round+ei)%2 == 0 {
						w.Pool.MaxRequestHosts = 1
					}
					key := vlib.NewIdentity("c04subject", round*20+ei)
					other := vlib.NewIdentity("c04other", round*20+ei)
					identity := key.NodeID
					if style == "wallet" {
						identity = key.Wallet
					}
					universe := append(append([]string{}, lw.universe...), key.NodeID, key.Wallet, other.NodeID, other.Wallet)
					accounts := append(append([]string{}, lw.accounts...), key.Wallet, key.NodeID, other.Wallet)
					// make the subject a registered node where that matters
					if ep.Method == "vipnode_update" || ep.Method == "vipnode_peer" {
						out := guardedCall(w.Local, "vipnode_connect", append([]interface{}{vlib.RefSign(key.Key, "vipnode_connect", identity, w.NextNonce(identity), vlib.ConnectReq(false, "geth", "", "")), identity, w.LastNonce(identity)}, vlib.ConnectReq(false, "geth", "", ""))...)
						if !out.Accepted {
							ev.Violate("setup:connect-refused:"+style, map[string]interface{}{"err": fmt.Sprint(out.Err), "panic": out.Panic})
						}
					}
					// baseline: correctly signed, fresh
					args := ep.Args(r, identity)
					nonce := w.NextNonce(identity)
					refSig := vlib.RefSign(key.Key, ep.Method, identity, nonce, args...)
					repoSig, err := request.Sign(key.Key, ep.Method, identity, nonce, args...)
					if err != nil || repoSig != refSig {
						ev.Violate("signer-drift:"+ep.Method+":"+style, map[string]interface{}{"repo": repoSig, "reference": refSig, "err": fmt.Sprint(err)})
					}
					base := guardedCall(w.Local, ep.Method, append([]interface{}{refSig, identity, nonce}, args...)...)
					ev.Case(fmt.Sprintf("%s/%s/baseline", ep.Method, style), false)
					if base.Panic != "" || !base.Accepted {
						ev.Violate("valid-request-refused:"+ep.Method+":"+style, map[string]interface{}{"err": fmt.Sprint(base.Err), "panic": base.Panic, "args": args})
						lw.w.Close()
						continue
					}
					if style == "wallet" {
						// external wallets return the recovery byte as 27/28: the same signature, equally valid
						for _, args27 := range [][]interface{}{ep.Args(r, identity), ep.Args(r, identity), ep.Args(r, identity), ep.Args(r, identity)} {
							n27 := w.NextNonce(identity)
							sb, _ := vlib.RefSignBytes(key.Key, ep.Method, identity, n27, args27...)
							v := sb[64]
							sb[64] += 27
							o27 := guardedCall(w.Local, ep.Method, append([]interface{}{"0x" + vlib.EncodeSig(identity, sb), identity, n27}, args27...)...)
							ev.Case(fmt.Sprintf("%s/wallet/recovery-byte-%d", ep.Method, 27+int(v)), false)
							ev.Count("valid-legacy-recovery-byte-signatures", 1)
							if !o27.Accepted || o27.Panic != "" {
								ev.Violate(fmt.Sprintf("valid-request-refused:%s:wallet:recovery-byte-%d", ep.Method, 27+int(v)), map[string]interface{}{"err": fmt.Sprint(o27.Err), "panic": o27.Panic})
							}
						}
					}
					if ep.Method == "vipnode_update" {
						// legacy form: signature over {peers, block_number} only
						req := args[0].(pool.UpdateRequest)
						n2 := w.NextNonce(identity)
						if len(req.Peers) == 0 {
							req.Peers = nil // an empty list is omitted on the wire and arrives as nil
						}
						legacy := vlib.RefSign(key.Key, ep.Method, identity, n2, struct {
							Peers       []string `json:"peers"`
							BlockNumber uint64   `json:"block_number"`
						}{req.Peers, req.BlockNumber})
						lo := guardedCall(w.Local, ep.Method, legacy, identity, n2, req)
						ev.Case("vipnode_update/"+style+"/legacy-form", false)
						if !lo.Accepted {
							ev.Violate("legacy-update-refused:"+style, map[string]interface{}{"err": fmt.Sprint(lo.Err), "panic": lo.Panic})
						}
					}
					// the signature of the request that was just accepted, attached to a later request:
					// a newer nonce, the same or other parameters
					for k, reuse := range [][]interface{}{args, ep.Args(r, identity), ep.Args(r, identity)} {
						n3 := w.NextNonce(identity)
						before := w.Digest(universe, accounts)
						out := guardedCall(w.Local, ep.Method, append([]interface{}{refSig, identity, n3}, reuse...)...)
						after := w.Digest(universe, accounts)
						ev.Case(fmt.Sprintf("%s/%s/accepted-signature-reused-%d", ep.Method, style, k), true)
						ev.Count("alterations:accepted-signature-reused", 1)
						detail := map[string]interface{}{"endpoint": ep.Method, "style": style, "driver": driver, "alteration": "signature of an accepted request reused with a newer nonce", "same_parameters": k == 0, "err": fmt.Sprint(out.Err), "panic": out.Panic}
						switch {
						case out.Panic != "":
							ev.Violate(fmt.Sprintf("panic:%s:%s:accepted-signature-reused", ep.Method, style), detail)
						case !out.Verify:
							ev.Violate(fmt.Sprintf("altered-request-not-refused:%s:%s:accepted-signature-reused", ep.Method, style), detail)
						case before != after:
							detail["before"], detail["after"] = before, after
							ev.Violate(fmt.Sprintf("refused-request-had-effect:%s:%s:accepted-signature-reused", ep.Method, style), detail)
						}
					}
					// alterations
					for _, alt := range buildAlterations(r, key, other, ep.Method, identity, w.NextNonce(identity), ep.Args(r, identity)) {
						before := w.Digest(universe, accounts)
						out := guardedCall(w.Local, ep.Method, alt.Params...)
						after := w.Digest(universe, accounts)
						class := strings.SplitN(alt.Name, ":", 2)[0]
						ev.Case(fmt.Sprintf("%s/%s/%s", ep.Method, style, alt.Name), true)
						ev.Count("alterations:"+class, 1)
						detail := map[string]interface{}{"endpoint": ep.Method, "style": style, "driver": driver, "alteration": alt.Name, "err": fmt.Sprint(out.Err), "panic": out.Panic}
						switch {
						case out.Panic != "":
							ev.Violate(fmt.Sprintf("panic:%s:%s:%s", ep.Method, style, class), detail)
						case alt.MayPass:
						case !out.Verify:
							ev.Violate(fmt.Sprintf("altered-request-not-refused:%s:%s:%s", ep.Method, style, class), detail)
						case before != after:
							detail["before"], detail["after"] = before, after
							ev.Violate(fmt.Sprintf("refused-request-had-effect:%s:%s:%s", ep.Method, style, class), detail)
						}
					}
					// the same alterations arriving over a persistent connection on which another
					// identity has just authenticated: what that connection proved is not the
					// altered request's business
					{
						conn := w.Dial(other, "192.0.2.210:7")
						creq := vlib.ConnectReq((round+ei)%2 == 0, "geth", "", "")
						on := w.NextNonce(other.NodeID)
						oc := guardedCall(conn.AgentSide, "vipnode_connect", vlib.RefSign(other.Key, "vipnode_connect", other.NodeID, on, creq), other.NodeID, on, creq)
						if !oc.Accepted {
							ev.Violate("valid-request-refused:vipnode_connect:other-identity-session", map[string]interface{}{"err": fmt.Sprint(oc.Err), "panic": oc.Panic})
						} else {
							for _, alt := range buildAlterations(r, key, other, ep.Method, identity, w.NextNonce(identity), ep.Args(r, identity)) {
								class := strings.SplitN(alt.Name, ":", 2)[0]
								if class == "sigbyte" && !strings.HasSuffix(alt.Name, ":0") && !strings.HasSuffix(alt.Name, ":63") {
									continue
								}
								before := w.Digest(universe, accounts)
								out := guardedCall(conn.AgentSide, ep.Method, alt.Params...)
								after := w.Digest(universe, accounts)
								ev.Case(fmt.Sprintf("%s/%s/%s/on-other-identity-connection", ep.Method, style, alt.Name), true)
								ev.Count("alterations-on-other-identity-connection:"+class, 1)
								detail := map[string]interface{}{"endpoint": ep.Method, "style": style, "driver": driver, "alteration": alt.Name, "err": fmt.Sprint(out.Err), "panic": out.Panic, "connection": "authenticated by another identity just before"}
								switch {
								case out.Panic != "":
									ev.Violate(fmt.Sprintf("panic:%s:%s:%s", ep.Method, style, class), detail)
								case alt.MayPass:
								case !out.Verify:
									ev.Violate(fmt.Sprintf("altered-request-not-refused:%s:%s:%s:on-other-identity-connection", ep.Method, style, class), detail)
								case before != after:
									detail["before"], detail["after"] = before, after
									ev.Violate(fmt.Sprintf("refused-request-had-effect:%s:%s:%s:on-other-identity-connection", ep.Method, style, class), detail)
								}
							}
						}
						conn.Close()
					}
					if round == 0 && ei < 2 && style == "node" {
						ev.Sample(map[string]interface{}{"endpoint": ep.Method, "style": style, "identity": vlib.Short(identity), "baseline_args": args, "baseline_outcome": fmt.Sprint(base.Err)})
					}
					lw.w.Close()
				}
			}
		}
	}
	for _, driver := range vlib.Drivers() {
		driver := driver
		parallelCases(vlib.Scale(8, 160), 4, func(i int) { c04CallerGone(ev, driver, i) })
		parallelCases(vlib.Scale(12, 240), 2, func(i int) { c04SameIdentityContention(ev, driver, i) })
	}
	c04ManyIdentities(ev, vlib.DriverMemory)
	finish(t, ev)
}
