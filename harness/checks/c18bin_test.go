package checks

import (
	"encoding/json"
	"fmt"
	"net"
	"net/http"
	"os"
	"path/filepath"
	"sort"
	"strings"
	"sync"
	"time"

	"github.com/ethereum/go-ethereum/rpc"
	"github.com/gorilla/websocket"
	"github.com/vipnode/vipnode/v2/ethnode"
	"github.com/vipnode/vipnode/v2/pool"
	"github.com/vipnode/vipnode/v2/pool/store"
	"verifharness/vlib"
)

// c18AgentBinary: the built `vipnode agent` as its command line configures it
// (--min-peers, --strict-peers, --rpc, --nodekey), talking to a fake geth or
// parity node over HTTP JSON-RPC and to a pool played by the harness over
// WebSocket. One start = one keep-alive round; the admin_* / parity_* calls
// that reach the node and the peer request that reaches the pool are compared
// with the same reconciliation model as the in-process variants.
func c18AgentBinary(ev *vlib.Evidence, bin string, idx int) {
	r := vlib.Rand("C18-agent-binary", idx)
	dir, _ := os.MkdirTemp("", "verif-c18b-")
	defer os.RemoveAll(dir)
	self := vlib.NewIdentity("c18binself", idx)
	f := &fakeChain{kind: vlib.Pick(r, "geth", "geth", "parity"), light: r.Intn(2) == 0, selfID: self.NodeID}
	universe := make([]*vlib.Identity, 6)
	for i := range universe {
		universe[i] = vlib.NewIdentity("c18binpeer", i)
	}
	for _, p := range universe {
		if r.Intn(2) == 0 {
			pi := ethnode.PeerInfo{ID: p.NodeID, Name: "Geth/x", Caps: []string{"eth/63"}, Protocols: map[string]json.RawMessage{"eth": json.RawMessage(`{"version":63}`)}}
			pi.Network.RemoteAddress = fmt.Sprintf("%s:%d", c18Hosts[r.Intn(len(c18Hosts))], 30303)
			if f.kind == "geth" && r.Intn(2) == 0 {
				// newer geth: the id field is a hash, the node key is only inside the enode URI
				pi.ID = "hash" + p.Name
				pi.Enode = "enode://" + p.NodeID + "@" + pi.Network.RemoteAddress
			}
			f.peers = append(f.peers, pi)
		}
	}
	// the node, over HTTP
	nsrv := rpc.NewServer()
	nsrv.RegisterName("web3", &web3API{f})
	nsrv.RegisterName("eth", &ethAPI{f})
	nsrv.RegisterName("net", &netAPI{f})
	if f.kind == "parity" {
		nsrv.RegisterName("parity", &parityAPI{f})
	} else {
		nsrv.RegisterName("admin", &adminAPI{f})
	}
	nln, err := net.Listen("tcp", "127.0.0.1:0")
	if err != nil {
		ev.Inconclusive("listen")
		return
	}
	nhs := &http.Server{Handler: nsrv}
	go nhs.Serve(nln)
	defer nhs.Close()
	defer nsrv.Stop()
	// the pool's script
	strict := r.Intn(2) == 0
	target := vlib.Pick(r, 0, 0, -1, 1, 2, 3, 5, 6) // a target of zero (or less) asks for nothing
	var active, invalid []string
	for _, p := range universe {
		switch r.Intn(4) {
		case 0, 1:
			host := c18Hosts[r.Intn(len(c18Hosts))]
			for _, lp := range f.peers {
				if lp.EnodeID() == p.NodeID && r.Intn(3) != 0 {
					h, _, _ := net.SplitHostPort(lp.Network.RemoteAddress)
					if strings.Contains(h, ":") {
						h = "[" + h + "]"
					}
					host = h
				}
			}
			active = append(active, fmt.Sprintf("enode://%s@%s:30303", p.NodeID, host))
		case 2:
			invalid = append(invalid, vlib.Pick(r, p.NodeID, "enode://"+p.NodeID+"@198.51.100.77:30303"))
		}
	}
	newHosts := []store.Node{}
	for i := 0; i < r.Intn(3); i++ {
		h := vlib.NewIdentity("c18binnew", r.Intn(20))
		newHosts = append(newHosts, store.Node{ID: store.NodeID(h.NodeID), URI: fmt.Sprintf("enode://%s@203.0.113.%d:30303", h.NodeID, 1+r.Intn(200))})
	}
	var mu sync.Mutex
	var reported []ethnode.PeerInfo
	var peerReqs []pool.PeerRequest
	updates := 0
	upgrader := websocket.Upgrader{}
	psrv := &http.Server{Handler: http.HandlerFunc(func(w http.ResponseWriter, rq *http.Request) {
		c, err := upgrader.Upgrade(w, rq, nil)
		if err != nil {
			return
		}
		defer c.Close()
		for {
			_, data, err := c.ReadMessage()
			if err != nil {
				return
			}
			var m struct {
				ID     json.RawMessage   `json:"id"`
				Method string            `json:"method"`
				Params []json.RawMessage `json:"params"`
			}
			json.Unmarshal(data, &m)
			var result interface{} = map[string]interface{}{}
			switch m.Method {
			case "vipnode_connect":
				result = map[string]interface{}{"pool_version": "harness"}
			case "vipnode_update":
				var req pool.UpdateRequest
				if len(m.Params) >= 4 {
					json.Unmarshal(m.Params[3], &req)
				}
				mu.Lock()
				updates++
				reported = req.PeerInfo
				mu.Unlock()
				result = pool.UpdateResponse{ActivePeers: append([]string{}, active...), InvalidPeers: append([]string{}, invalid...)}
			case "vipnode_peer":
				var req pool.PeerRequest
				if len(m.Params) >= 4 {
					json.Unmarshal(m.Params[3], &req)
				}
				mu.Lock()
				peerReqs = append(peerReqs, req)
				mu.Unlock()
				result = pool.PeerResponse{Peers: newHosts}
			}
			rb, _ := json.Marshal(result)
			c.WriteMessage(websocket.TextMessage, []byte(fmt.Sprintf(`{"jsonrpc":"2.0","id":%s,"result":%s}`, m.ID, rb)))
		}
	})}
	pln, err := net.Listen("tcp", "127.0.0.1:0")
	if err != nil {
		ev.Inconclusive("listen")
		return
	}
	go psrv.Serve(pln)
	defer psrv.Close()
	// expected
	want := []string{}
	for _, id := range c18ExpectedDrops(strict, f.peers, active, invalid) {
		if f.kind == "parity" {
			arg := "enode://" + id + "@[::]:30303"
			want = append(want, "parity_removeReservedPeer "+arg, "parity_removeReservedPeer "+arg)
		} else {
			want = append(want, "admin_removeTrustedPeer enode://"+id, "admin_removePeer enode://"+id)
		}
	}
	shortfall := target - len(active)
	if shortfall > 0 {
		for _, h := range newHosts {
			if f.kind == "parity" {
				want = append(want, "parity_addReservedPeer "+h.URI)
			} else {
				want = append(want, "admin_addPeer "+h.URI)
			}
		}
	}
	sort.Strings(want)
	args := []string{"agent", "ws://" + pln.Addr().String() + "/", "--rpc", "http://" + nln.Addr().String(), "--nodekey", writeNodeKey(dir, self), "--update-interval=60s", fmt.Sprintf("--min-peers=%d", target)}
	if strict {
		args = append(args, "--strict-peers")
	}
	ap, err := vlib.StartProc(filepath.Join(dir, "agent.log"), []string{"HOME=" + dir}, bin, args...)
	if err != nil {
		ev.Inconclusive("agent-start")
		return
	}
	defer ap.Kill(false)
	// wait (logically) for the round to complete: the keep-alive, the peer request if one is due,
	// and at least as many node calls as the model expects; then let stragglers arrive
	deadline := time.Now().Add(30 * time.Second)
	complete := false
	for time.Now().Before(deadline) {
		mu.Lock()
		u, pr := updates, len(peerReqs)
		mu.Unlock()
		f.mu.Lock()
		nc := len(f.calls)
		f.mu.Unlock()
		if u >= 1 && (shortfall <= 0 || pr >= 1) && nc >= len(want) {
			complete = true
			break
		}
		if ex, _ := ap.Exited(); ex {
			break
		}
		time.Sleep(50 * time.Millisecond)
	}
	time.Sleep(400 * time.Millisecond)
	calls := f.take()
	sort.Strings(calls)
	mu.Lock()
	reqs := append([]pool.PeerRequest{}, peerReqs...)
	rep := append([]ethnode.PeerInfo{}, reported...)
	nUpdates := updates
	mu.Unlock()
	desc := fmt.Sprintf("agent-binary kind=%s light=%v strict=%v min-peers=%d local=%d active=%d invalid=%d", f.kind, f.light, strict, target, len(f.peers), len(active), len(invalid))
	detail := map[string]interface{}{"case": desc, "args": strings.Join(args[1:], " "), "rpc_calls": abbrevCalls(calls), "want_calls": abbrevCalls(want), "active": abbrevList(active), "invalid": abbrevList(invalid), "peer_requests": fmt.Sprintf("%+v", reqs)}
	if !complete {
		if ex, _ := ap.Exited(); ex {
			sig, excerpt := vlib.CrashSignature(ap.LogPath)
			b, _ := os.ReadFile(ap.LogPath)
			detail["signature"], detail["log"] = sig, truncStr(excerpt+string(b), 800)
			ev.Violate("agent-binary:exited-during-first-round", detail)
			return
		}
		if nUpdates == 0 {
			ev.Inconclusive("agent-binary-slow")
			return
		}
	}
	ev.Case(desc+fmt.Sprint(idx), len(want) > 0 || shortfall > 0)
	ev.Count("agent-binary-rounds:"+f.kind, 1)
	repIDs, locIDs := []string{}, []string{}
	for _, p := range rep {
		repIDs = append(repIDs, p.EnodeID())
	}
	for _, p := range f.peers {
		locIDs = append(locIDs, p.EnodeID())
	}
	sort.Strings(repIDs)
	sort.Strings(locIDs)
	if strings.Join(repIDs, ",") != strings.Join(locIDs, ",") {
		detail["reported"], detail["local"] = abbrevList(repIDs), abbrevList(locIDs)
		ev.Violate("agent-binary:reported-peers-differ-from-node", detail)
		return
	}
	if shortfall > 0 {
		wantKind := ""
		if f.light {
			wantKind = f.kind
		}
		if len(reqs) != 1 || reqs[0].Num != shortfall || reqs[0].Kind != wantKind {
			detail["want_peer_request"] = fmt.Sprintf("{Num:%d Kind:%q}", shortfall, wantKind)
			ev.Violate("agent-binary:peer-request", detail)
			return
		}
	} else if len(reqs) != 0 {
		ev.Violate("agent-binary:peer-request-without-shortfall", detail)
		return
	}
	if strings.Join(calls, "\n") != strings.Join(want, "\n") {
		ev.Violate("agent-binary:node-calls-differ-from-model", detail)
	}
}
