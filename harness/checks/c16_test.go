package checks

import (
	"context"
	"encoding/hex"
	"encoding/json"
	"fmt"
	"go/ast"
	"go/parser"
	"go/token"
	"net"
	"net/http"
	"os"
	"path/filepath"
	"reflect"
	"sort"
	"strings"
	"sync"
	"sync/atomic"
	"testing"
	"time"
	"unicode"

	"github.com/ethereum/go-ethereum/crypto"
	"github.com/vipnode/vipnode/v2/jsonrpc2"
	"github.com/vipnode/vipnode/v2/jsonrpc2/ws/gorilla"
	"github.com/vipnode/vipnode/v2/pool"
	"github.com/vipnode/vipnode/v2/pool/payment"
	"verifharness/vlib"
)

// documented names of the shipped binaries
var poolDocumented = map[string]bool{
	"vipnode_connect": true, "vipnode_update": true, "vipnode_peer": true, "vipnode_client": true, "vipnode_host": true, "vipnode_ping": true,
	"pool_account": true, "pool_addNode": true, "pool_withdraw": true, "pool_status": true,
}
var agentDocumented = map[string]bool{"vipnode_whitelist": true}

// declaredMethods parses the repository sources and returns every method
// (exported or not) declared on the given receiver types.
func declaredMethods(repo string, files []string, receivers map[string]bool) []string {
	set := map[string]bool{}
	fset := token.NewFileSet()
	for _, f := range files {
		af, err := parser.ParseFile(fset, filepath.Join(repo, f), nil, 0)
		if err != nil {
			continue
		}
		for _, d := range af.Decls {
			fd, ok := d.(*ast.FuncDecl)
			if !ok || fd.Recv == nil || len(fd.Recv.List) == 0 {
				continue
			}
			t := fd.Recv.List[0].Type
			if st, ok := t.(*ast.StarExpr); ok {
				t = st.X
			}
			if id, ok := t.(*ast.Ident); ok && receivers[id.Name] {
				set[fd.Name.Name] = true
			}
		}
	}
	out := []string{}
	for k := range set {
		out = append(out, k)
	}
	sort.Strings(out)
	return out
}

// allDeclaredNames returns every method name declared anywhere in the
// repository's non-test sources: methods of any receiver and methods of any
// interface type. A field that becomes embedded promotes exactly such methods
// onto a registered receiver, so each of them is a candidate RPC name.
func allDeclaredNames(repo string) []string {
	set := map[string]bool{}
	fset := token.NewFileSet()
	filepath.Walk(repo, func(path string, info os.FileInfo, err error) error {
		if err != nil {
			return nil
		}
		if info.IsDir() {
			if n := info.Name(); n == ".git" || n == "vendor" || n == "node_modules" {
				return filepath.SkipDir
			}
			return nil
		}
		if !strings.HasSuffix(path, ".go") || strings.HasSuffix(path, "_test.go") {
			return nil
		}
		af, err := parser.ParseFile(fset, path, nil, 0)
		if err != nil {
			return nil
		}
		ast.Inspect(af, func(n ast.Node) bool {
			switch x := n.(type) {
			case *ast.FuncDecl:
				if x.Recv != nil {
					set[x.Name.Name] = true
				}
			case *ast.InterfaceType:
				for _, m := range x.Methods.List {
					for _, id := range m.Names {
						set[id.Name] = true
					}
				}
			}
			return true
		})
		return nil
	})
	// methods that embedding a standard-library or dependency type would promote
	for _, n := range []string{"Lock", "Unlock", "RLock", "RUnlock", "Close", "String", "Error", "ServeHTTP", "Read", "Write", "Serve", "Shutdown", "Wait", "Add", "Done", "Stop", "Reset", "Get", "Set", "Delete", "Update", "View", "Sync", "DropAll", "Backup", "Load", "RunValueLogGC", "NewTransaction", "Call", "Handle", "Register", "RegisterMethod"} {
		set[n] = true
	}
	out := []string{}
	for k := range set {
		if k != "" && k != "_" {
			out = append(out, k)
		}
	}
	sort.Strings(out)
	return out
}

// registryNames applies the registry's own naming rule (prefix + lower-cased
// first letter) and the verbatim spelling to a list of method names.
func registryNames(methods []string, prefixes ...string) []string {
	set := map[string]bool{}
	for _, m := range methods {
		lowerFirst := string(unicode.ToLower(rune(m[0]))) + m[1:]
		for _, p := range prefixes {
			set[p+lowerFirst] = true
			set[p+m] = true
		}
	}
	out := []string{}
	for k := range set {
		out = append(out, k)
	}
	sort.Strings(out)
	return out
}

func nameVariants(methods []string) []string {
	set := map[string]bool{}
	for _, m := range methods {
		lowerFirst := string(unicode.ToLower(rune(m[0]))) + m[1:]
		upperFirst := string(unicode.ToUpper(rune(m[0]))) + m[1:]
		for _, v := range []string{m, lowerFirst, upperFirst, strings.ToLower(m), strings.ToUpper(m)} {
			for _, p := range []string{"vipnode_", "pool_", "", "Vipnode_", "vipnode", "agent_", "rpc_"} {
				set[p+v] = true
			}
		}
	}
	for _, extra := range []string{"", "vipnode_", "pool_", "rpc.discover", "system.listMethods", "vipnode_disconnect", "vipnode_withdraw", "vipnode_numremotes", "vipnode_closeremote", "pool_verify", "vipnode_verify", "vipnode_whitelist", "pool_settle", "pool_getStatus", "pool_status ", " pool_status", "pool_Status", "vipnode_Ping", "VIPNODE_PING"} {
		set[extra] = true
	}
	out := []string{}
	for k := range set {
		out = append(out, k)
	}
	sort.Strings(out)
	return out
}

func errCode(err error) int {
	if err == nil {
		return 0
	}
	if e, ok := err.(interface{ ErrorCode() int }); ok {
		return e.ErrorCode()
	}
	return 1
}

// probeNames calls every candidate name and checks found / not-found against
// the documented set.
func probeNames(ev *vlib.Evidence, target string, svc jsonrpc2.Service, names []string, documented map[string]bool) {
	for _, name := range names {
		ctx, cancel := context.WithTimeout(context.Background(), 20*time.Second)
		var raw json.RawMessage
		err := svc.Call(ctx, &raw, name)
		cancel()
		code := errCode(err)
		ev.Case(target+"/name/"+name, true)
		ev.Count("name-probes:"+target, 1)
		if documented[name] {
			if code == jsonrpc2.ErrCodeMethodNotFound {
				ev.Violate("documented-name-not-found:"+target+":"+name, map[string]interface{}{"target": target, "name": name, "err": fmt.Sprint(err)})
			}
			continue
		}
		if code != jsonrpc2.ErrCodeMethodNotFound {
			ev.Violate("undocumented-name-callable:"+target+":"+name, map[string]interface{}{"target": target, "name": name, "code": code, "err": fmt.Sprint(err), "result": string(raw)})
		}
	}
}

// --- toy receivers for the registry rules -----------------------------------

// ToyService has exported, unexported and helper methods.
type ToyService struct {
	calls sync.Map
}

func (t *ToyService) hit(name string) {
	v, _ := t.calls.LoadOrStore(name, new(int64))
	atomic.AddInt64(v.(*int64), 1)
}
func (t *ToyService) count(name string) int64 {
	v, ok := t.calls.Load(name)
	if !ok {
		return 0
	}
	return atomic.LoadInt64(v.(*int64))
}

type ToyArg struct {
	A string `json:"a"`
	B int    `json:"b"`
}

func (t *ToyService) Alpha(ctx context.Context, s string, n int64, arg ToyArg) (string, error) {
	t.hit("Alpha")
	return s, nil
}
func (t *ToyService) Beta(n int, flag bool) int         { t.hit("Beta"); return n }
func (t *ToyService) Gamma() string                     { t.hit("Gamma"); return "g" }
func (t *ToyService) Delta(p *ToyArg, l []string) error { t.hit("Delta"); return nil }
func (t *ToyService) HelperReset() error                { t.hit("HelperReset"); return nil }
func (t *ToyService) hidden(s string) string            { t.hit("hidden"); return s }

// jsonSamples per JSON type
var jsonSamples = map[string]string{"string": `"x"`, "int": `7`, "float": `1.5`, "bool": `true`, "array": `[1]`, "object": `{"a":"s","b":2}`}

func jsonTypeFor(t reflect.Type) string {
	switch t.Kind() {
	case reflect.String:
		return "string"
	case reflect.Int, reflect.Int64, reflect.Int32, reflect.Uint64:
		return "int"
	case reflect.Bool:
		return "bool"
	case reflect.Slice:
		return "array"
	case reflect.Struct, reflect.Ptr, reflect.Map:
		return "object"
	}
	return "object"
}

func compatible(sample string, t reflect.Type) bool {
	want := jsonTypeFor(t)
	if sample == want {
		return true
	}
	return false
}

// arityGrid probes one registered method with wrong arities and types.
// validArgs are JSON texts of a valid call; counter returns how often the
// method ran (or a digest for production endpoints).
func arityGrid(ev *vlib.Evidence, target, name string, svc rawCaller, types []reflect.Type, validArgs []string, ran func() string) {
	probe := func(label string, params string, wantInvalid bool) {
		before := ran()
		code, errMsg := svc(name, params)
		after := ran()
		ev.Case(target+"/arity/"+name+"/"+label, true)
		ev.Count("arity-probes:"+target, 1)
		if !wantInvalid {
			return
		}
		detail := map[string]interface{}{"target": target, "method": name, "probe": label, "params": params, "code": code, "err": errMsg}
		if before != after {
			ev.Violate("method-ran-with-invalid-params:"+target+":"+name+":"+strings.SplitN(label, ":", 2)[0], detail)
			return
		}
		if code != jsonrpc2.ErrCodeInvalidParams {
			class := strings.SplitN(label, ":", 2)[0]
			ev.Violate(fmt.Sprintf("wrong-error-code:%s:%s:%s:code=%d", target, name, class, code), detail)
		}
	}
	n := len(types)
	join := func(a []string) string { return "[" + strings.Join(a, ",") + "]" }
	// arities 0..n+2
	for k := 0; k <= n+2; k++ {
		if k == n {
			continue
		}
		args := []string{}
		for i := 0; i < k; i++ {
			if i < n {
				args = append(args, validArgs[i])
			} else {
				args = append(args, `"extra"`)
			}
		}
		label := fmt.Sprintf("too-few:%d-of-%d", k, n)
		if k > n {
			label = fmt.Sprintf("too-many:%d-of-%d", k, n)
		}
		// pointer-typed trailing parameters are optional by design of the dispatcher
		optional := k < n
		for i := k; i < n && optional; i++ {
			if types[i].Kind() != reflect.Ptr {
				optional = false
			}
		}
		probe(label, join(args), !optional)
	}
	if n > 0 {
		// right after a request of this very method with a full set of well-typed parameters:
		// nothing of it may be left over for the next request
		probe("primer:well-typed-full-arity", join(validArgs), false)
		probe("too-few:absent-params", "", true)
		probe("primer:well-typed-full-arity", join(validArgs), false)
		probe("too-few:null-params", "null", true)
		probe("non-array:object", `{"a":1}`, true)
		probe("non-array:string", `"abc"`, true)
		probe("non-array:number", `5`, true)
	}
	// wrong type at each position
	for i := 0; i < n; i++ {
		for jt, sample := range jsonSamples {
			if compatible(jt, types[i]) || (jt == "float" && false) {
				continue
			}
			if jt == "float" && jsonTypeFor(types[i]) != "int" && jsonTypeFor(types[i]) != "string" && jsonTypeFor(types[i]) != "bool" && jsonTypeFor(types[i]) != "array" && jsonTypeFor(types[i]) != "object" {
				continue
			}
			args := append([]string{}, validArgs...)
			args[i] = sample
			probe(fmt.Sprintf("wrong-type:pos%d=%s", i, jt), join(args), true)
		}
	}
}

// rawCaller sends a request with literal params text ("" = params absent) and
// returns the JSON-RPC error code (0 = success) and message.
type rawCaller func(method, params string) (int, string)

func serverRawCaller(s *jsonrpc2.Server) rawCaller {
	return func(method, params string) (int, string) {
		msg := &jsonrpc2.Message{ID: json.RawMessage("1"), Version: "2.0", Request: &jsonrpc2.Request{Method: method}}
		if params != "" {
			msg.Request.Params = json.RawMessage(params)
		}
		ctx := context.Background()
		resp := s.Handle(ctx, msg)
		if resp.Response != nil && resp.Response.Error != nil {
			return resp.Response.Error.Code, resp.Response.Error.Message
		}
		return 0, ""
	}
}

func httpRawCaller(url string) rawCaller {
	return func(method, params string) (int, string) {
		body := fmt.Sprintf(`{"jsonrpc":"2.0","id":1,"method":%q`, method)
		if params != "" {
			body += `,"params":` + params
		}
		body += "}"
		resp, err := http.Post(url, "application/json", strings.NewReader(body))
		if err != nil {
			return 1, err.Error()
		}
		defer resp.Body.Close()
		var msg jsonrpc2.Message
		if err := json.NewDecoder(resp.Body).Decode(&msg); err != nil {
			return 2, "undecodable reply: " + err.Error()
		}
		if msg.Response != nil && msg.Response.Error != nil {
			return msg.Response.Error.Code, msg.Response.Error.Message
		}
		return 0, ""
	}
}

func validJSON(v interface{}) string { b, _ := json.Marshal(v); return string(b) }

// FakePoolRPC plays the pool for a real agent binary.
type FakePoolRPC struct {
	connected chan string
}

func (f *FakePoolRPC) Connect(ctx context.Context, sig, nodeID string, nonce int64, req pool.ConnectRequest) (*pool.ConnectResponse, error) {
	select {
	case f.connected <- nodeID:
	default:
	}
	return &pool.ConnectResponse{PoolVersion: "fakepool"}, nil
}
func (f *FakePoolRPC) Update(ctx context.Context, sig, nodeID string, nonce int64, req pool.UpdateRequest) (*pool.UpdateResponse, error) {
	return &pool.UpdateResponse{}, nil
}
func (f *FakePoolRPC) Peer(ctx context.Context, sig, nodeID string, nonce int64, req pool.PeerRequest) (*pool.PeerResponse, error) {
	return &pool.PeerResponse{}, nil
}

// startFakePoolForAgent starts a websocket server playing the pool; returns
// its address and a channel delivering the Remote of each agent connection.
func startFakePoolForAgent() (addr string, remotes chan *jsonrpc2.Remote, fp *FakePoolRPC, stop func()) {
	ln, err := net.Listen("tcp", "127.0.0.1:0")
	if err != nil {
		panic(err)
	}
	fp = &FakePoolRPC{connected: make(chan string, 4)}
	srv := &jsonrpc2.Server{}
	if err := srv.Register("vipnode_", fp); err != nil {
		panic(err)
	}
	remotes = make(chan *jsonrpc2.Remote, 4)
	hs := &http.Server{Handler: http.HandlerFunc(func(w http.ResponseWriter, r *http.Request) {
		codec, err := (&gorilla.Upgrader{}).Upgrade(r, w, nil)
		if err != nil {
			return
		}
		rem := &jsonrpc2.Remote{Codec: codec, Server: srv, Client: &jsonrpc2.Client{}}
		remotes <- rem
		rem.Serve()
	})}
	go hs.Serve(ln)
	return ln.Addr().String(), remotes, fp, func() { hs.Close() }
}

func writeNodeKey(dir string, id *vlib.Identity) string {
	p := filepath.Join(dir, "nodekey-"+id.Name)
	os.WriteFile(p, []byte(hex.EncodeToString(crypto.FromECDSA(id.Key))), 0o600)
	return p
}

func TestC16(t *testing.T) {
	ev := vlib.NewEvidence("C16", "exploration",
		"candidate RPC names are derived from the current tree with go/parser (every method, exported or not, declared on VipnodePool, PaymentService, PoolStatus and Agent) x prefixes {vipnode_, pool_, '', ...} x case variants, plus every method name declared on any receiver or interface anywhere in the tree (what an embedded field would promote) under the production prefixes, plus a fixed list; the whole grid is probed (a) against the built `vipnode pool` binary over HTTP and WebSocket, (b) against the built `vipnode agent` binary over its reverse channel (the harness plays the pool), (c) in-process against the production registration and against jsonrpc2.Server with counting toy receivers (allow-lists, unexported and helper methods, value receivers); for every registered method an arity/type grid (0..n+2 parameters, absent/null/non-array params, every other JSON type at each position) must yield invalid-params without running the method (invocation counters / pool digest); non-trivial = every probe; distinct = (target, name or probe); (faults) registered methods failing with coded errors, registrations that fail half-way")
	ev.Assume("null at a parameter position is not counted as wrongly typed (encoding/json accepts it for any type)")
	repo := os.Getenv("VERIF_REPO")
	if repo == "" {
		repo = "/repo"
	}
	methods := declaredMethods(repo, []string{"pool/service.go", "pool/payment/service.go", "pool/status/status.go", "agent/agent.go", "pool/pool.go", "pool/remote.go", "pool/staticpool.go"},
		map[string]bool{"VipnodePool": true, "PaymentService": true, "PoolStatus": true, "Agent": true})
	names := nameVariants(methods)
	// plus, under the production prefixes, every method name declared anywhere in the tree
	everything := allDeclaredNames(repo)
	{
		have := map[string]bool{}
		for _, n := range names {
			have[n] = true
		}
		for _, n := range registryNames(everything, "vipnode_", "pool_") {
			if !have[n] {
				names = append(names, n)
			}
		}
	}
	ev.Note("method_names_declared_anywhere", len(everything))
	ev.Note("declared_methods", methods)
	ev.Note("candidate_names", len(names))

	// somewhere else in this process the same receiver types have been registered without an
	// allow-list (the in-memory pool of `vipnode agent :memory:` does that): registrations are
	// per server, one must not leak into another
	{
		other := &jsonrpc2.Server{}
		if st, cleanup, err := vlib.OpenStore(vlib.DriverMemory); err == nil {
			other.Register("vipnode_", pool.New(st, nil)) // before anything else in this process registers these types
			other.Register("pool_", &payment.PaymentService{NonceStore: st, AccountStore: st, BalanceStore: st})
			defer cleanup()
		}
	}
	// (c1) registry rules on toy receivers
	toy := &ToyService{}
	toyServer := &jsonrpc2.Server{}
	if err := toyServer.Register("toy_", toy, "alpha", "beta", "gamma", "delta"); err != nil {
		t.Fatal(err)
	}
	toyNames := nameVariants([]string{"Alpha", "Beta", "Gamma", "Delta", "HelperReset", "hidden", "hit", "count"})
	toyDoc := map[string]bool{"toy_alpha": true, "toy_beta": true, "toy_gamma": true, "toy_delta": true}
	caller := serverRawCaller(toyServer)
	for _, n := range append(toyNames, "toy_alpha", "toy_Alpha", "toy_helperReset", "toy_HelperReset", "toy_hidden", "toy_hit", "alpha", "toy_ALPHA") {
		code, msg := caller(n, "[]")
		ev.Case("toy/name/"+n, true)
		ev.Count("name-probes:toy", 1)
		if toyDoc[n] && code == jsonrpc2.ErrCodeMethodNotFound {
			ev.Violate("registered-name-not-found:toy:"+n, map[string]interface{}{"name": n, "err": msg})
		}
		if !toyDoc[n] && code != jsonrpc2.ErrCodeMethodNotFound {
			ev.Violate("unregistered-name-callable:toy:"+n, map[string]interface{}{"name": n, "code": code, "err": msg})
		}
	}
	if toy.count("HelperReset")+toy.count("hidden") > 0 {
		ev.Violate("helper-or-unexported-method-ran", map[string]interface{}{"HelperReset": toy.count("HelperReset"), "hidden": toy.count("hidden")})
	}
	// registrations made after requests were already handled take effect
	if err := toyServer.RegisterMethod("toy_late", toy, "Gamma"); err != nil {
		t.Fatal(err)
	}
	before := toy.count("Gamma")
	code, msg := caller("toy_late", "[]")
	ev.Case("toy/name/toy_late", true)
	if code != 0 || toy.count("Gamma") != before+1 {
		ev.Violate("late-registration-not-callable", map[string]interface{}{"code": code, "err": msg})
	}
	if err := toyServer.RegisterMethod("toy_beta", toy, "Gamma"); err != nil { // re-point an existing name
		t.Fatal(err)
	}
	beforeG, beforeB := toy.count("Gamma"), toy.count("Beta")
	code, msg = caller("toy_beta", "[]")
	ev.Case("toy/name/toy_beta-repointed", true)
	if code != 0 || toy.count("Gamma") != beforeG+1 || toy.count("Beta") != beforeB {
		ev.Violate("re-registration-still-runs-old-method", map[string]interface{}{"code": code, "err": msg, "gamma_ran": toy.count("Gamma") - beforeG, "beta_ran": toy.count("Beta") - beforeB})
	}
	toyServer.RegisterMethod("toy_beta", toy, "Beta")
	// without allow-list every exported method is registered, nothing else
	toy2 := &ToyService{}
	all := &jsonrpc2.Server{}
	all.Register("t2_", toy2)
	for n, want := range map[string]bool{"t2_alpha": true, "t2_helperReset": true, "t2_hidden": false, "t2_hit": false, "t2_Alpha": false} {
		code, _ := serverRawCaller(all)(n, "[]")
		found := code != jsonrpc2.ErrCodeMethodNotFound
		ev.Case("toy2/name/"+n, true)
		if found != want {
			ev.Violate("registry-rule:no-allow-list:"+n, map[string]interface{}{"name": n, "found": found, "want": want})
		}
	}
	toyTypes := map[string][]reflect.Type{
		"toy_alpha": {reflect.TypeOf(""), reflect.TypeOf(int64(0)), reflect.TypeOf(ToyArg{})},
		"toy_beta":  {reflect.TypeOf(0), reflect.TypeOf(true)},
		"toy_gamma": {},
		"toy_delta": {reflect.TypeOf(&ToyArg{}), reflect.TypeOf([]string{})},
	}
	toyValid := map[string][]string{"toy_alpha": {`"s"`, `5`, `{"a":"x","b":1}`}, "toy_beta": {`3`, `true`}, "toy_gamma": {}, "toy_delta": {`{"a":"x","b":1}`, `["a"]`}}
	for name, types := range toyTypes {
		goName := strings.ToUpper(name[4:5]) + name[5:]
		arityGrid(ev, "toy", name, caller, types, toyValid[name], func() string { return fmt.Sprint(toy.count(goName)) })
		// the valid call runs exactly once
		before := toy.count(goName)
		code, msg := caller(name, "["+strings.Join(toyValid[name], ",")+"]")
		if code != 0 || toy.count(goName) != before+1 {
			ev.Violate("valid-call-failed:toy:"+name, map[string]interface{}{"code": code, "err": msg})
		}
	}

	// (c2) production registration in-process
	lw, err := authWorld(vlib.DriverMemory, 0)
	if err != nil {
		t.Fatal(err)
	}
	w := lw.w
	prodCaller := serverRawCaller(w.Server)
	inproc := map[string]bool{}
	for k, v := range poolDocumented {
		if k != "pool_status" {
			inproc[k] = v
		}
	}
	for _, n := range names {
		code, msg := prodCaller(n, "[]")
		ev.Case("inprocess-pool/name/"+n, true)
		ev.Count("name-probes:inprocess-pool", 1)
		if !inproc[n] && code != jsonrpc2.ErrCodeMethodNotFound {
			ev.Violate("undocumented-name-callable:inprocess-pool:"+n, map[string]interface{}{"name": n, "code": code, "err": msg})
		}
		if inproc[n] && code == jsonrpc2.ErrCodeMethodNotFound {
			ev.Violate("documented-name-not-found:inprocess-pool:"+n, map[string]interface{}{"name": n})
		}
	}
	str, i64 := reflect.TypeOf(""), reflect.TypeOf(int64(0))
	subject := lw.clients[0]
	prodTypes := map[string][]reflect.Type{
		"vipnode_connect": {str, str, i64, reflect.TypeOf(pool.ConnectRequest{})},
		"vipnode_update":  {str, str, i64, reflect.TypeOf(pool.UpdateRequest{})},
		"vipnode_peer":    {str, str, i64, reflect.TypeOf(pool.PeerRequest{})},
		"vipnode_client":  {str, str, i64, reflect.TypeOf(pool.ClientRequest{})},
		"vipnode_host":    {str, str, i64, reflect.TypeOf(pool.HostRequest{})},
		"vipnode_ping":    {},
		"pool_account":    {str},
		"pool_addNode":    {str, str, i64, str},
		"pool_withdraw":   {str, str, i64},
	}
	prodValid := func(name string) []string {
		nonce := w.NextNonce(subject.NodeID) + int64(time.Hour) // signature is not valid anyway: arity probes must fail before verification
		switch name {
		case "vipnode_connect":
			return []string{`"sig"`, validJSON(subject.NodeID), fmt.Sprint(nonce), validJSON(vlib.ConnectReq(false, "geth", "", ""))}
		case "vipnode_update":
			return []string{`"sig"`, validJSON(subject.NodeID), fmt.Sprint(nonce), validJSON(pool.UpdateRequest{})}
		case "vipnode_peer":
			return []string{`"sig"`, validJSON(subject.NodeID), fmt.Sprint(nonce), validJSON(pool.PeerRequest{Num: 1})}
		case "vipnode_client":
			return []string{`"sig"`, validJSON(subject.NodeID), fmt.Sprint(nonce), validJSON(pool.ClientRequest{})}
		case "vipnode_host":
			return []string{`"sig"`, validJSON(subject.NodeID), fmt.Sprint(nonce), validJSON(pool.HostRequest{})}
		case "pool_account":
			return []string{validJSON(lw.wallets[0].Wallet)}
		case "pool_addNode":
			return []string{`"sig"`, validJSON(lw.wallets[0].Wallet), fmt.Sprint(nonce), validJSON(subject.NodeID)}
		case "pool_withdraw":
			return []string{`"sig"`, validJSON(lw.wallets[0].Wallet), fmt.Sprint(nonce)}
		}
		return []string{}
	}
	digest := func() string { return w.Digest(lw.universe, lw.accounts) }
	for name, types := range prodTypes {
		arityGrid(ev, "inprocess-pool", name, prodCaller, types, prodValid(name), digest)
	}

	// (a) the built pool binary
	bin, err := vlib.BuildVipnode("plain")
	if err != nil {
		fmt.Println("HARNESS-ERROR", err)
		ev.Inconclusive("build")
	} else {
		dir, _ := os.MkdirTemp("", "verif-c16-")
		defer os.RemoveAll(dir)
		port := vlib.FreePort()
		addr := fmt.Sprintf("127.0.0.1:%d", port)
		p, err := vlib.StartProc(filepath.Join(dir, "pool.log"), []string{"HOME=" + dir}, bin, "pool", "--store=memory", "--bind", addr)
		if err != nil || !p.WaitListening(addr, 20*time.Second) {
			fmt.Println("HARNESS-ERROR pool binary did not start:", err)
			ev.Inconclusive("pool-start")
		} else {
			httpSvc := &jsonrpc2.HTTPService{Endpoint: "http://" + addr + "/"}
			probeNames(ev, "pool-binary-http", httpSvc, names, poolDocumented)
			codec, err := gorilla.WebSocketDial(context.Background(), "ws://"+addr+"/")
			if err != nil {
				ev.Inconclusive("ws-dial")
			} else {
				rem := &jsonrpc2.Remote{Codec: codec, Server: &jsonrpc2.Server{}, Client: &jsonrpc2.Client{}}
				go rem.Serve()
				probeNames(ev, "pool-binary-ws", rem, names, poolDocumented)
				codec.Close()
			}
			hc := httpRawCaller("http://" + addr + "/")
			for name, types := range prodTypes {
				arityGrid(ev, "pool-binary-http", name, hc, types, prodValid(name), func() string { return "" })
			}
			if ex, exErr := p.Exited(); ex {
				sig, excerpt := vlib.CrashSignature(p.LogPath)
				ev.Violate("pool-binary-died-during-probes", map[string]interface{}{"exit": fmt.Sprint(exErr), "signature": sig, "log": excerpt})
			}
			p.Kill(false)
		}
		// (b) the agent binary over its reverse channel
		paddr, remotes, fp, stop := startFakePoolForAgent()
		id := vlib.NewIdentity("c16agent", 0)
		key := writeNodeKey(dir, id)
		ap, err := vlib.StartProc(filepath.Join(dir, "agent.log"), []string{"HOME=" + dir}, bin, "agent", "ws://"+paddr+"/", "--rpc", "fakenode://"+id.NodeID+"?fullnode=1", "--nodekey", key, "--update-interval=60s")
		if err != nil {
			ev.Inconclusive("agent-start")
		} else {
			select {
			case rem := <-remotes:
				select {
				case <-fp.connected:
				case <-time.After(20 * time.Second):
				}
				probeNames(ev, "agent-binary-reverse", rem, names, agentDocumented)
				ac := func(method, params string) (int, string) {
					var p []interface{}
					if params != "" {
						var arr []interface{}
						if err := json.Unmarshal([]byte(params), &arr); err != nil {
							return -1, "skip"
						}
						p = arr
					}
					ctx, cancel := context.WithTimeout(context.Background(), 20*time.Second)
					defer cancel()
					err := rem.Call(ctx, nil, method, p...)
					if err == nil {
						return 0, ""
					}
					return errCode(err), err.Error()
				}
				// arity probes that can be expressed as arrays
				for _, pr := range []struct{ label, params string }{{"too-few:0-of-1", "[]"}, {"too-many:2-of-1", `["a","b"]`}, {"wrong-type:pos0=int", `[5]`}, {"wrong-type:pos0=object", `[{"a":1}]`}, {"wrong-type:pos0=array", `[["x"]]`}, {"wrong-type:pos0=bool", `[true]`}} {
					code, msg := ac("vipnode_whitelist", pr.params)
					ev.Case("agent-binary-reverse/arity/vipnode_whitelist/"+pr.label, true)
					ev.Count("arity-probes:agent-binary-reverse", 1)
					if code != jsonrpc2.ErrCodeInvalidParams {
						ev.Violate(fmt.Sprintf("wrong-error-code:agent-binary-reverse:vipnode_whitelist:%s:code=%d", strings.SplitN(pr.label, ":", 2)[0], code), map[string]interface{}{"probe": pr.label, "err": msg})
					}
				}
			case <-time.After(30 * time.Second):
				ev.Inconclusive("agent-did-not-connect")
			}
			if ex, exErr := ap.Exited(); ex {
				sig, excerpt := vlib.CrashSignature(ap.LogPath)
				ev.Violate("agent-binary-died-during-probes", map[string]interface{}{"exit": fmt.Sprint(exErr), "signature": sig, "log": excerpt})
			}
			ap.Kill(false)
		}
		stop()
	}
	w.Close()
	ev.Exhaustive()
	ev.Sample(map[string]interface{}{"example_names": names[:12], "example_probe": "vipnode_update with params [\"sig\",\"<id>\",<nonce>] (too-few:3-of-4)"})
	c16FailurePaths(ev)
	finish(t, ev)
}
