package checks

import (
	"context"
	"encoding/hex"
	"errors"
	"fmt"
	"os"
	"os/exec"
	"path/filepath"
	"runtime"
	"strings"
	"sync"
	"sync/atomic"
	"syscall"
	"testing"
	"time"

	"github.com/ethereum/go-ethereum/crypto"
	"github.com/vipnode/vipnode/v2/agent"
	"github.com/vipnode/vipnode/v2/ethnode"
	"github.com/vipnode/vipnode/v2/pool"
	"verifharness/vlib"
)

// loopCensus counts live keep-alive loop goroutines by scanning all stacks.
func loopCensus() int {
	buf := make([]byte, 1<<20)
	for {
		n := runtime.Stack(buf, true)
		if n < len(buf) {
			buf = buf[:n]
			break
		}
		buf = make([]byte, 2*len(buf))
	}
	return strings.Count(string(buf), "agent.(*Agent).serveUpdates(")
}

// settleCensus waits (logically: until stable for a few scheduler yields) for
// goroutines that are about to exit.
func settleCensus(want int) int {
	got := loopCensus()
	for i := 0; i < 200 && got != want; i++ {
		time.Sleep(time.Millisecond)
		got = loopCensus()
	}
	return got
}

var c20Mu sync.Mutex // the census is process-wide: lifecycle cases run one at a time

func c20Sequence(ev *vlib.Evidence, idx int) {
	c20Mu.Lock()
	defer c20Mu.Unlock()
	r := vlib.Rand("C20-seq", idx)
	interval := time.Duration(5+r.Intn(20)) * time.Millisecond
	node := &vlib.FakeEth{ID: vlib.NewIdentity("c20self", 0).NodeID, NodeKind: ethnode.Geth, Full: r.Intn(2) == 0}
	sp := &scriptedPool{}
	var failUpdateAtV atomic.Int64
	sp.nextUpdate = func(n int, req pool.UpdateRequest) (*pool.UpdateResponse, error) {
		if f := int(failUpdateAtV.Load()); f > 0 && n >= f {
			return nil, errors.New("scripted keep-alive failure")
		}
		return &pool.UpdateResponse{}, nil
	}
	a := &agent.Agent{EthNode: node, UpdateInterval: interval}
	base := loopCensus()
	running := false
	pending := []string{} // outcomes of ended loops not yet collected by Wait, oldest first ("nil" / "err")
	collect := func(what string) (string, bool) {
		// Wait returns the oldest uncollected outcome
		waitErr := make(chan error, 1)
		go func() { waitErr <- a.Wait() }()
		select {
		case err := <-waitErr:
			got := "nil"
			if err != nil {
				got = "err"
			}
			want := pending[0]
			pending = pending[1:]
			return fmt.Sprintf("%s; Wait -> %v", what, err), got == want
		case <-time.After(10 * time.Second):
			return what + "; Wait did not return", false
		}
	}
	trace := []string{fmt.Sprintf("interval=%s", interval)}
	fail := func(key string, extra map[string]interface{}) {
		extra["trace"], extra["index"] = trace, idx
		ev.Violate(key, extra)
	}
	cleanup := func() {
		if loopCensus()-base > 0 {
			done := make(chan struct{})
			go func() { a.Stop(); close(done) }()
			select {
			case <-done:
				go a.Wait()
			case <-time.After(2 * time.Second):
			}
		}
		settleCensus(base)
	}
	defer cleanup()
	steps := 3 + r.Intn(8)
	restarts, refusals := 0, 0
	for s := 0; s < steps; s++ {
		switch k := r.Intn(10); {
		case k < 4: // Start
			failMode := ""
			sp.mu.Lock()
			sp.connectErr = nil
			sp.mu.Unlock()
			failUpdateAtV.Store(0)
			if !running {
				switch r.Intn(5) {
				case 0:
					failMode = "connect"
					sp.mu.Lock()
					sp.connectErr = errors.New("scripted connect failure")
					sp.mu.Unlock()
				case 1:
					failMode = "first-update"
					failUpdateAtV.Store(int64(sp.numUpdates() + 1))
				}
			}
			err := a.Start(sp)
			trace = append(trace, fmt.Sprintf("Start(fail=%q) while running=%v -> %v", failMode, running, err))
			switch {
			case running:
				if err != agent.ErrAlreadyStarted {
					fail("second-start-not-refused", map[string]interface{}{"err": fmt.Sprint(err), "loops": loopCensus() - base})
					return
				}
				refusals++
			case failMode != "":
				if err == nil {
					fail("failed-start-reported-success", map[string]interface{}{"mode": failMode})
					return
				}
				if n := settleCensus(base) - base; n != 0 {
					fail("loop-running-after-failed-start", map[string]interface{}{"mode": failMode, "loops": n})
					return
				}
			default:
				if err != nil {
					fail("start-failed", map[string]interface{}{"err": err.Error()})
					return
				}
				running = true
				restarts++
			}
			if running {
				if n := settleCensus(base+1) - base; n != 1 {
					fail("loop-count-while-running", map[string]interface{}{"loops": n})
					return
				}
			}
		case k < 7 && running: // Stop (+ Wait, unless the outcome is left uncollected)
			a.Stop()
			pending = append(pending, "nil")
			running = false
			if r.Intn(4) == 0 {
				trace = append(trace, "Stop (outcome not collected)")
			} else {
				for len(pending) > 0 {
					line, ok := collect("Stop")
					trace = append(trace, line)
					if !ok {
						fail("wait-outcome-after-stop", map[string]interface{}{})
						return
					}
				}
			}
			if n := settleCensus(base) - base; n != 0 {
				fail("loop-alive-after-stop", map[string]interface{}{"loops": n})
				return
			}
		case k < 8 && running: // a keep-alive fails: the loop ends with the error
			failUpdateAtV.Store(int64(sp.numUpdates() + 1))
			pending = append(pending, "err")
			if r.Intn(3) == 0 {
				// nobody collects the outcome: the loop must end anyway and the agent must be startable again
				if n := settleCensus(base) - base; n != 0 {
					fail("loop-alive-after-failed-keepalive", map[string]interface{}{"loops": n})
					return
				}
				trace = append(trace, "keep-alive fails (outcome not collected)")
				running = false
				failUpdateAtV.Store(0)
				time.Sleep(2 * time.Millisecond)
				continue
			}
			for len(pending) > 0 {
				line, ok := collect("keep-alive fails")
				trace = append(trace, line)
				if !ok {
					fail("wait-outcome-after-failed-keepalive", map[string]interface{}{})
					return
				}
			}
			running = false
			failUpdateAtV.Store(0)
			if n := settleCensus(base) - base; n != 0 {
				fail("loop-alive-after-failed-keepalive", map[string]interface{}{"loops": n})
				return
			}
		default: // forced update
			err := a.UpdatePeers(context.Background(), sp)
			trace = append(trace, fmt.Sprintf("UpdatePeers -> %v", err))
		}
		// the census never exceeds one loop
		if n := loopCensus() - base; n > 1 {
			fail("more-than-one-loop", map[string]interface{}{"loops": n})
			return
		}
	}
	ev.Case(strings.Join(trace, ";"), restarts > 0 && (refusals > 0 || restarts > 1))
	ev.Count("lifecycle-sequences", 1)
	ev.Count("restarts-after-stop", int64(restarts))
	ev.Count("second-starts-refused", int64(refusals))
	if idx < 2 {
		ev.Sample(map[string]interface{}{"trace": trace})
	}
}

// c20Uncollected: outcomes nobody collected must not keep the agent from being
// started again: Start, Stop (no Wait), Start, a keep-alive fails (no Wait),
// Start again, Stop; then the three outcomes are collected in order.
func c20Uncollected(ev *vlib.Evidence, idx int) {
	c20Mu.Lock()
	defer c20Mu.Unlock()
	node := &vlib.FakeEth{ID: vlib.NewIdentity("c20self", 0).NodeID, NodeKind: ethnode.Geth, Full: idx%2 == 0}
	sp := &scriptedPool{}
	var failAt atomic.Int64
	sp.nextUpdate = func(n int, req pool.UpdateRequest) (*pool.UpdateResponse, error) {
		if f := int(failAt.Load()); f > 0 && n >= f {
			return nil, errors.New("scripted keep-alive failure")
		}
		return &pool.UpdateResponse{}, nil
	}
	a := &agent.Agent{EthNode: node, UpdateInterval: time.Duration(5+idx%10) * time.Millisecond}
	base := loopCensus()
	trace := []string{}
	fail := func(key string) {
		ev.Violate("uncollected:"+key, map[string]interface{}{"trace": trace, "loops": loopCensus() - base})
		// best effort clean-up
		if loopCensus()-base > 0 {
			go a.Stop()
			time.Sleep(20 * time.Millisecond)
		}
		settleCensus(base)
	}
	ev.Case(fmt.Sprintf("uncollected idx=%d", idx), true)
	ev.Count("uncollected-outcome-scenarios", 1)
	if err := a.Start(sp); err != nil {
		fail("first-start-failed")
		return
	}
	settleCensus(base + 1)
	a.Stop()
	if settleCensus(base)-base != 0 {
		fail("loop-alive-after-stop")
		return
	}
	trace = append(trace, "Start; Stop (outcome not collected)")
	if err := a.Start(sp); err != nil {
		trace = append(trace, "Start -> "+err.Error())
		fail("start-after-stop-refused")
		return
	}
	if settleCensus(base+1)-base != 1 { // the loop goroutine has really started
		fail("loop-count-after-second-start")
		return
	}
	failAt.Store(int64(sp.numUpdates() + 1))
	if settleCensus(base)-base != 0 {
		fail("loop-alive-after-failed-keepalive")
		return
	}
	failAt.Store(0)
	trace = append(trace, "Start; a keep-alive fails, the loop ends (outcome not collected)")
	time.Sleep(5 * time.Millisecond)
	if err := a.Start(sp); err != nil {
		trace = append(trace, "Start -> "+err.Error())
		fail("start-refused-although-no-loop-is-running")
		return
	}
	if settleCensus(base+1)-base != 1 {
		fail("loop-count-after-third-start")
		return
	}
	a.Stop()
	got := []string{}
	for i := 0; i < 3; i++ {
		ch := make(chan error, 1)
		go func() { ch <- a.Wait() }()
		select {
		case err := <-ch:
			if err == nil {
				got = append(got, "nil")
			} else {
				got = append(got, "err")
			}
		case <-time.After(10 * time.Second):
			got = append(got, "timeout")
		}
	}
	trace = append(trace, "Start; Stop; Wait x3 -> "+strings.Join(got, ","))
	if strings.Join(got, ",") != "nil,err,nil" {
		fail("outcomes-collected-out-of-order-or-lost")
		return
	}
	settleCensus(base)
}

// c20ConcurrentStarts: several goroutines call Start at once.
func c20ConcurrentStarts(ev *vlib.Evidence, idx int) {
	c20Mu.Lock()
	defer c20Mu.Unlock()
	node := &vlib.FakeEth{ID: vlib.NewIdentity("c20self", 0).NodeID, NodeKind: ethnode.Geth, Full: true}
	sp := &scriptedPool{}
	a := &agent.Agent{EthNode: node, UpdateInterval: 10 * time.Millisecond}
	base := loopCensus()
	k := 2 + idx%5
	var wg sync.WaitGroup
	errs := make([]error, k)
	for g := 0; g < k; g++ {
		wg.Add(1)
		go func(g int) { defer wg.Done(); errs[g] = a.Start(sp) }(g)
	}
	wg.Wait()
	ok := 0
	for _, e := range errs {
		if e == nil {
			ok++
		}
	}
	loops := settleCensus(base+1) - base
	ev.Case(fmt.Sprintf("concurrent-starts k=%d idx=%d", k, idx), true)
	ev.Count("concurrent-start-rounds", 1)
	if ok != 1 || loops != 1 {
		ev.Violate("concurrent-starts", map[string]interface{}{"starters": k, "succeeded": ok, "loops": loops})
	}
	// stop every loop that exists
	for i := 0; i < loops; i++ {
		a.Stop()
		go a.Wait()
	}
	settleCensus(base)
}

// c20Cadence: keep-alives per window.
func c20Cadence(ev *vlib.Evidence, idx int) {
	c20Mu.Lock()
	defer c20Mu.Unlock()
	interval := time.Duration(20+10*(idx%4)) * time.Millisecond
	node := &vlib.FakeEth{ID: vlib.NewIdentity("c20self", 0).NodeID, NodeKind: ethnode.Geth, Full: true}
	sp := &scriptedPool{}
	a := &agent.Agent{EthNode: node, UpdateInterval: interval}
	if err := a.Start(sp); err != nil {
		ev.Violate("cadence:start-failed", map[string]interface{}{"err": err.Error()})
		return
	}
	t0 := time.Now()
	time.Sleep(12 * interval)
	a.Stop()
	window := time.Since(t0)
	a.Wait()
	n := sp.numUpdates() - 1 // minus the one sent by Start
	upper := int(window/interval) + 1
	ev.Case(fmt.Sprintf("cadence interval=%s idx=%d", interval, idx), true)
	ev.Count("cadence-keepalives", int64(n))
	if n > upper {
		ev.Violate("cadence:too-many-keepalives", map[string]interface{}{"interval": interval.String(), "window": window.String(), "keepalives": n, "upper_bound": upper})
	}
	if n < 1 {
		ev.Violate("cadence:no-keepalive-in-12-intervals", map[string]interface{}{"interval": interval.String(), "window": window.String()})
	}
}

// c20CadenceSlowPool: "a keep-alive is sent every configured interval" also
// when the pool takes most of an interval to answer. The count is compared
// with what a plain ticker-driven loop doing the same waiting achieves on this
// machine at the same time (a reference measurement, not a wall-clock bound).
func c20CadenceSlowPool(ev *vlib.Evidence, idx int) {
	c20Mu.Lock()
	defer c20Mu.Unlock()
	interval := time.Duration(150+50*(idx%3)) * time.Millisecond
	latency := interval * 6 / 10
	node := &vlib.FakeEth{ID: vlib.NewIdentity("c20self", 0).NodeID, NodeKind: ethnode.Geth, Full: true}
	sp := &scriptedPool{}
	sp.nextUpdate = func(n int, req pool.UpdateRequest) (*pool.UpdateResponse, error) {
		time.Sleep(latency)
		return &pool.UpdateResponse{}, nil
	}
	a := &agent.Agent{EthNode: node, UpdateInterval: interval}
	if err := a.Start(sp); err != nil {
		ev.Violate("cadence:start-failed", map[string]interface{}{"err": err.Error()})
		return
	}
	var ref int64
	stopRef := make(chan struct{})
	refDone := make(chan struct{})
	go func() {
		defer close(refDone)
		tk := time.NewTicker(interval)
		defer tk.Stop()
		for {
			select {
			case <-tk.C:
				time.Sleep(latency)
				atomic.AddInt64(&ref, 1)
			case <-stopRef:
				return
			}
		}
	}()
	time.Sleep(20 * interval)
	a.Stop()
	close(stopRef)
	a.Wait()
	<-refDone
	n := sp.numUpdates() - 1 // minus the one sent by Start
	rc := int(atomic.LoadInt64(&ref))
	ev.Case(fmt.Sprintf("cadence-slow-pool interval=%s latency=%s idx=%d", interval, latency, idx), true)
	ev.Count("cadence-slow-pool-keepalives", int64(n))
	ev.Count("cadence-slow-pool-reference-ticks", int64(rc))
	if rc < 10 {
		ev.Inconclusive("machine-too-slow-for-cadence")
		return
	}
	if n*10 < rc*8-10 {
		ev.Violate("cadence:keep-alives-slower-than-the-configured-interval", map[string]interface{}{"interval": interval.String(), "pool_latency": latency.String(), "keepalives": n, "reference_ticker_loop": rc, "window": (20 * interval).String()})
	}
}

// c20LongRun: a healthy agent keeps its loop for longer than any per-call
// timeout of the agent package (10 s) against a pool that honours contexts.
func c20LongRun(ev *vlib.Evidence) {
	c20Mu.Lock()
	defer c20Mu.Unlock()
	node := &vlib.FakeEth{ID: vlib.NewIdentity("c20self", 0).NodeID, NodeKind: ethnode.Geth, Full: true}
	sp := &scriptedPool{}
	a := &agent.Agent{EthNode: node, UpdateInterval: 100 * time.Millisecond}
	base := loopCensus()
	if err := a.Start(sp); err != nil {
		ev.Violate("longrun:start-failed", map[string]interface{}{"err": err.Error()})
		return
	}
	ended := make(chan error, 1)
	go func() { ended <- a.Wait() }()
	select {
	case err := <-ended:
		ev.Violate("longrun:loop-ended-by-itself", map[string]interface{}{"after": "less than 11.5 s", "wait_returned": fmt.Sprint(err), "keepalives": sp.numUpdates()})
		settleCensus(base)
		ev.Case("longrun", true)
		return
	case <-time.After(11500 * time.Millisecond):
	}
	n := sp.numUpdates()
	if loopCensus()-base != 1 {
		ev.Violate("longrun:loop-count", map[string]interface{}{"loops": loopCensus() - base})
	}
	a.Stop()
	<-ended
	settleCensus(base)
	ev.Case("longrun", true)
	ev.Count("longrun-keepalives", int64(n))
}

// buildVipnode builds the real binary from the repository's working tree.
func buildVipnode(race bool) (string, error) {
	dir := os.Getenv("VERIF_BUILD_DIR")
	if dir == "" {
		dir = os.TempDir()
	}
	out := filepath.Join(dir, "vipnode")
	if race {
		out += "-race"
	}
	if _, err := os.Stat(out); err == nil {
		return out, nil
	}
	repo := os.Getenv("VERIF_REPO")
	if repo == "" {
		repo = "/repo"
	}
	args := []string{"build", "-tags", "verif", "-o", out}
	if race {
		args = append(args, "-race")
	}
	args = append(args, ".")
	cmd := exec.Command("go", args...)
	cmd.Dir = repo
	if b, err := cmd.CombinedOutput(); err != nil {
		return "", fmt.Errorf("go build: %v: %s", err, b)
	}
	return out, nil
}

// c20CLI: --update-interval bounds of the built binary.
func c20CLI(ev *vlib.Evidence) {
	bin, err := buildVipnode(false)
	if err != nil {
		fmt.Println("HARNESS-ERROR", err)
		ev.Inconclusive("build")
		return
	}
	id := vlib.NewIdentity("c20cli", 0)
	dir, _ := os.MkdirTemp("", "verif-c20-")
	defer os.RemoveAll(dir)
	keyFile := filepath.Join(dir, "nodekey")
	os.WriteFile(keyFile, []byte(hex.EncodeToString(crypto.FromECDSA(id.Key))), 0o600)
	cases := []struct {
		interval string
		accept   bool
	}{{"4s", false}, {"5s", false}, {"6s", true}, {"60s", true}, {"119s", true}, {"120s", false}, {"121s", false}, {"10m", false}, {"junk", false}, {"-1s", false}, {"0", false}}
	var wg sync.WaitGroup
	for _, c := range cases {
		wg.Add(1)
		go func(interval string, accept bool) {
			defer wg.Done()
			cmd := exec.Command(bin, "agent", ":memory:", "--rpc", "fakenode://"+id.NodeID, "--nodekey", keyFile, "--update-interval="+interval)
			cmd.Env = append(os.Environ(), "HOME="+dir)
			logf, _ := os.Create(filepath.Join(dir, "cli-"+interval+".log"))
			cmd.Stdout, cmd.Stderr = logf, logf
			if err := cmd.Start(); err != nil {
				ev.Inconclusive("cli-start")
				return
			}
			done := make(chan error, 1)
			go func() { done <- cmd.Wait() }()
			ev.Case("cli interval="+interval, true)
			ev.Count("cli-runs", 1)
			select {
			case err := <-done:
				// exited by itself: the interval was refused (or something else broke)
				out, _ := os.ReadFile(logf.Name())
				if accept {
					ev.Violate("cli:acceptable-interval-refused:"+interval, map[string]interface{}{"interval": interval, "exit": fmt.Sprint(err), "output": tailStr(string(out), 600)})
				} else if err == nil {
					ev.Violate("cli:refused-interval-exit-0:"+interval, map[string]interface{}{"interval": interval, "output": tailStr(string(out), 600)})
				}
			case <-time.After(3 * time.Second):
				// still running: the interval was accepted
				if !accept {
					ev.Violate("cli:interval-not-shorter-than-expiry-accepted:"+interval, map[string]interface{}{"interval": interval})
				}
				cmd.Process.Signal(syscall.SIGINT)
				select {
				case err := <-done:
					if err != nil && accept {
						out, _ := os.ReadFile(logf.Name())
						ev.Violate("cli:sigint-shutdown-not-clean", map[string]interface{}{"interval": interval, "exit": err.Error(), "output": tailStr(string(out), 600)})
					}
				case <-time.After(15 * time.Second):
					cmd.Process.Kill()
					<-done
					if accept {
						ev.Violate("cli:agent-could-not-be-stopped", map[string]interface{}{"interval": interval})
					}
				}
			}
		}(c.interval, c.accept)
	}
	wg.Wait()
	// the deprecated commands run the same agent: once running they, too, can always be stopped
	paddr := fmt.Sprintf("127.0.0.1:%d", vlib.FreePort())
	pp, perr := vlib.StartProc(filepath.Join(dir, "legacy-pool.log"), []string{"HOME=" + dir}, bin, "pool", "--store=memory", "--bind", paddr)
	if perr != nil || !pp.WaitListening(paddr, 30*time.Second) {
		if pp != nil {
			pp.Kill(false)
		}
		ev.Inconclusive("pool-start")
		return
	}
	defer pp.Kill(false)
	legacy := map[string][]string{
		"host-ws-pool":   {"host", "--pool=ws://" + paddr + "/", "--rpc", "fakenode://" + id.NodeID + "?fullnode=1", "--nodekey", keyFile},
		"client-ws-pool": {"client", "ws://" + paddr + "/", "--rpc", "fakenode://" + id.NodeID, "--nodekey", keyFile},
	}
	for name, args := range legacy {
		cmd := exec.Command(bin, args...)
		cmd.Env = append(os.Environ(), "HOME="+dir)
		logf, _ := os.Create(filepath.Join(dir, "cli-"+name+".log"))
		cmd.Stdout, cmd.Stderr = logf, logf
		if err := cmd.Start(); err != nil {
			ev.Inconclusive("cli-start")
			continue
		}
		done := make(chan error, 1)
		go func() { done <- cmd.Wait() }()
		ev.Case("cli legacy "+name, true)
		ev.Count("cli-runs", 1)
		select {
		case <-done:
			// did not get going in this environment: nothing to stop
			ev.Count("cli-legacy-exited-early:"+name, 1)
		case <-time.After(3 * time.Second):
			cmd.Process.Signal(syscall.SIGINT)
			select {
			case <-done:
			case <-time.After(15 * time.Second):
				cmd.Process.Kill()
				<-done
				out, _ := os.ReadFile(logf.Name())
				ev.Violate("cli:legacy-command-could-not-be-stopped:"+name, map[string]interface{}{"command": strings.Join(args, " "), "output": tailStr(string(out), 500)})
			}
		}
	}
}

func tailStr(s string, n int) string {
	if len(s) > n {
		return s[len(s)-n:]
	}
	return s
}

func TestC20(t *testing.T) {
	ev := vlib.NewEvidence("C20", "exploration",
		"real agent.Agent with a scripted pool: random sequences of Start (pool healthy / failing at connect / failing at the first keep-alive), Stop (with the outcome collected by Wait or left uncollected), a keep-alive failing while running, forced UpdatePeers; the number of live keep-alive loops is observed directly after every step by counting agent.(*Agent).serveUpdates frames in a dump of all goroutine stacks; concurrent Starts; keep-alive cadence (count per window vs the logical ticker bound; against a pool that takes 60 % of the interval to answer, compared with a reference ticker loop doing the same waiting at the same time); an 11.5 s run against a pool that honours request contexts; the built vipnode binary run with --update-interval in {4s,5s,6s,60s,119s,120s,121s,10m,junk,-1s,0} against an in-memory pool and a fake node, accepted runs stopped with SIGINT, as are the deprecated `vipnode host` and `vipnode client` commands; the built agent at --update-interval=100s against the built pool, a client polling for peers every 5 s for 125 s must be offered the host every time; non-trivial = a sequence with at least one successful start and a refused second start or a restart; distinct = distinct traces")
	ev.Assume("Stop is only called while a loop is running (Stop on an idle agent blocks by design of the API and is not part of the statement)")
	for i := 0; i < vlib.Scale(300, 8000); i++ {
		c20Sequence(ev, i)
	}
	for i := 0; i < vlib.Scale(30, 500); i++ {
		c20ConcurrentStarts(ev, i)
	}
	for i := 0; i < vlib.Scale(20, 300); i++ {
		c20Uncollected(ev, i)
	}
	for i := 0; i < vlib.Scale(4, 20); i++ {
		c20Cadence(ev, i)
	}
	for i := 0; i < vlib.Scale(2, 12); i++ {
		c20CadenceSlowPool(ev, i)
	}
	cliDone := make(chan struct{})
	go func() {
		c20CLI(ev)
		c20AcceptedIntervalStaysWithinExpiry(ev)
		close(cliDone)
	}()
	c20LongRun(ev)
	<-cliDone
	finish(t, ev)
}
