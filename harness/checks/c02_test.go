package checks

import (
	"fmt"
	"math/big"
	"sort"
	"strings"
	"testing"
	"time"

	"github.com/vipnode/vipnode/v2/ethnode"
	"github.com/vipnode/vipnode/v2/pool/balance"
	"github.com/vipnode/vipnode/v2/pool/store"
	"verifharness/vlib"
)

// refCredit is the harness's own statement of the price formula:
// floor(elapsed × price / interval), computed over the rationals.
func refCredit(elapsed time.Duration, price *big.Int, interval time.Duration) *big.Int {
	r := new(big.Rat).SetFrac(new(big.Int).Mul(big.NewInt(int64(elapsed)), price), big.NewInt(int64(interval)))
	q := new(big.Int).Quo(r.Num(), r.Denom()) // both positive: truncation = floor
	return q
}

func mustBig(s string) *big.Int {
	v, ok := new(big.Int).SetString(s, 10)
	if !ok {
		panic(s)
	}
	return v
}

var c02Prices = []string{"1", "7", "1000", "1000000000", "100000000000", "9223372036854775808", "100000000000000000000", "1000000000000000000000000000000"}
var c02Intervals = []time.Duration{time.Nanosecond, time.Second, time.Minute, time.Hour}

func c02Elapsed(r interface{ Intn(int) int }, interval time.Duration) time.Duration {
	switch r.Intn(9) {
	case 0:
		return 0
	case 1:
		return time.Nanosecond
	case 2:
		if interval > 1 {
			return interval - 1
		}
		return 1
	case 3:
		return interval
	case 4:
		return interval * time.Duration(2+r.Intn(50))
	case 5:
		return 10 * 365 * 24 * time.Hour
	case 6:
		return time.Duration(r.Intn(1000)) * time.Millisecond
	case 7:
		return time.Duration(r.Intn(7200)) * time.Second
	default:
		return time.Duration(1 + r.Intn(1<<30))
	}
}

type acctKey string

// accountOf returns the ledger key a node's credit lives under.
func accountOf(s store.Store, id string) acctKey {
	b, err := s.GetNodeBalance(store.NodeID(id))
	if err == nil && b.Account != "" {
		return acctKey("acct:" + string(b.Account))
	}
	return acctKey("trial:" + id)
}

func creditOf(s store.Store, id string) *big.Int {
	b, err := s.GetNodeBalance(store.NodeID(id))
	if err != nil {
		return new(big.Int)
	}
	return new(big.Int).Set(&b.Credit)
}

// c02Manager runs manager-level cases on one store.
func c02Manager(ev *vlib.Evidence, driver string, s store.Store, n int) {
	clock := &vlib.VClock{}
	for i := 0; i < n; i++ {
		r := vlib.Rand("C02-mgr-"+driver, i)
		price := mustBig(c02Prices[r.Intn(len(c02Prices))])
		interval := c02Intervals[r.Intn(len(c02Intervals))]
		elapsed := c02Elapsed(r, interval)
		mgr := balance.PayPerInterval(s, interval, price)
		mgr.VerifSetNow(clock.Now)
		pfx := fmt.Sprintf("m%d-", i)
		isHostUpdater := r.Intn(6) == 0
		last := time.Unix(1700000000, 0).Add(time.Duration(r.Intn(1000)) * time.Second)
		client := store.Node{ID: store.NodeID(pfx + "client"), IsHost: isHostUpdater, LastSeen: last}
		s.SetNode(client)
		np := r.Intn(7)
		peers := []store.Node{}
		ids := []string{string(client.ID)}
		wallet := store.Account(pfx + "W")
		if r.Intn(3) == 0 {
			s.AddAccountNode(wallet, client.ID)
		}
		for j := 0; j < np; j++ {
			p := store.Node{ID: store.NodeID(fmt.Sprintf("%speer%d", pfx, j)), IsHost: r.Intn(4) != 0, LastSeen: last}
			s.SetNode(p)
			switch r.Intn(5) {
			case 0:
				s.AddAccountNode(wallet, p.ID) // may share the client's wallet
			case 1:
				s.AddAccountNode(store.Account(pfx+"V"), p.ID)
			}
			peers = append(peers, p)
			ids = append(ids, string(p.ID))
		}
		// initial balances
		if r.Intn(2) == 0 {
			s.AddNodeBalance(client.ID, mustBig(c02Prices[r.Intn(len(c02Prices))]))
		}
		before := map[acctKey]*big.Int{}
		for _, id := range ids {
			before[accountOf(s, id)] = creditOf(s, id)
		}
		clock.Set(last.Add(elapsed))
		credit := refCredit(elapsed, price, interval)
		want := map[acctKey]*big.Int{}
		for k, v := range before {
			want[k] = new(big.Int).Set(v)
		}
		if !isHostUpdater {
			for _, p := range peers {
				k := accountOf(s, string(p.ID))
				want[k].Add(want[k], credit)
				ck := accountOf(s, string(client.ID))
				want[ck].Sub(want[ck], credit)
			}
		}
		got, err := mgr.OnUpdate(client, peers)
		desc := fmt.Sprintf("mgr price=%s interval=%s elapsed=%s peers=%d host=%v", price, interval, elapsed, np, isHostUpdater)
		nontrivial := credit.Sign() > 0 && np > 0 && !isHostUpdater
		ev.Case(desc, nontrivial)
		if i < 2 {
			ev.Sample(map[string]interface{}{"layer": "manager", "driver": driver, "case": desc, "credit_per_peer": credit.String()})
		}
		if err != nil {
			ev.Violate("manager:"+driver+":unexpected-error", map[string]interface{}{"case": desc, "err": err.Error()})
			continue
		}
		bad := []string{}
		for k, w := range want {
			id := strings.SplitN(string(k), ":", 2)[1]
			var g *big.Int
			if strings.HasPrefix(string(k), "acct:") {
				b, _ := s.GetAccountBalance(store.Account(id))
				g = &b.Credit
			} else {
				g = creditOf(s, id)
			}
			if g.Cmp(w) != 0 {
				bad = append(bad, fmt.Sprintf("%s: got %s want %s (before %s)", k, g, w, before[k]))
			}
		}
		sort.Strings(bad)
		if len(bad) > 0 {
			key := "manager:" + driver + ":wrong-amount"
			if isHostUpdater {
				key = "manager:" + driver + ":host-billed"
			} else if credit.Sign() == 0 || np == 0 {
				key = "manager:" + driver + ":moved-on-noop"
			}
			ev.Violate(key, map[string]interface{}{"case": desc, "credit_per_peer": credit.String(), "diffs": bad})
			continue
		}
		ck := accountOf(s, string(client.ID))
		if got.Credit.Cmp(want[ck]) != 0 {
			ev.Violate("manager:"+driver+":returned-balance", map[string]interface{}{"case": desc, "returned": got.Credit.String(), "stored": want[ck].String()})
		}
	}
}

// c02ManagerFaults: one store call of the update fails. A failed update must be
// all-or-nothing; a successful one must stay exact for every peer it credited
// and debit the client by exactly what was credited.
func c02ManagerFaults(ev *vlib.Evidence, driver string, s store.Store, n int) {
	clock := &vlib.VClock{}
	for i := 0; i < n; i++ {
		r := vlib.Rand("C02-fault-"+driver, i)
		price := mustBig(c02Prices[r.Intn(len(c02Prices))])
		interval := c02Intervals[r.Intn(len(c02Intervals))]
		elapsed := interval*time.Duration(1+r.Intn(5)) + time.Duration(r.Intn(1000))
		ch := vlib.NewChaos(s, int64(i))
		mgr := balance.PayPerInterval(ch, interval, price)
		mgr.VerifSetNow(clock.Now)
		pfx := fmt.Sprintf("f%d-", i)
		last := time.Unix(1700000000, 0)
		client := store.Node{ID: store.NodeID(pfx + "client"), LastSeen: last}
		s.SetNode(client)
		np := 1 + r.Intn(5)
		peers := []store.Node{}
		ids := []string{string(client.ID)}
		for j := 0; j < np; j++ {
			p := store.Node{ID: store.NodeID(fmt.Sprintf("%speer%d", pfx, j)), IsHost: true, LastSeen: last}
			s.SetNode(p)
			s.AddNodeBalance(p.ID, big.NewInt(50000))
			peers = append(peers, p)
			ids = append(ids, string(p.ID))
		}
		before := map[string]*big.Int{}
		for _, id := range ids {
			before[id] = creditOf(s, id)
		}
		failOp := vlib.Pick(r, "AddNodeBalance", "AddNodeBalance", "AddNodeBalance", "GetNodeBalance")
		failN := 1 + r.Intn(np+1)
		ch.Fail = func(op string, n int) bool { return op == failOp && n == failN }
		clock.Set(last.Add(elapsed))
		credit := refCredit(elapsed, price, interval)
		_, err := mgr.OnUpdate(client, peers)
		ch.Fail = nil
		desc := fmt.Sprintf("fault %s price=%s interval=%s elapsed=%s peers=%d fail=%s#%d err=%v", driver, price, interval, elapsed, np, failOp, failN, err != nil)
		ev.Case(desc, credit.Sign() > 0)
		ev.Count("manager-fault-cases", 1)
		deltas := map[string]*big.Int{}
		sum := new(big.Int)
		for _, id := range ids {
			d := new(big.Int).Sub(creditOf(s, id), before[id])
			deltas[id] = d
			sum.Add(sum, d)
		}
		detail := func() map[string]interface{} {
			dl := []string{}
			for _, id := range ids {
				dl = append(dl, fmt.Sprintf("%s:%s", id[len(pfx):], deltas[id]))
			}
			return map[string]interface{}{"case": desc, "credit_per_peer": credit.String(), "deltas": dl, "err": fmt.Sprint(err)}
		}
		if sum.Sign() != 0 {
			ev.Violate("fault:"+driver+":not-zero-sum:"+failOp, detail())
			continue
		}
		if err != nil && failOp == "AddNodeBalance" {
			// all-or-nothing
			for _, id := range ids {
				if deltas[id].Sign() != 0 {
					ev.Violate("fault:"+driver+":failed-update-moved-credit", detail())
					break
				}
			}
			continue
		}
		// every peer got exactly the credit, except the one whose credit call was failed; hosts never pay
		for pi, p := range peers {
			d := deltas[string(p.ID)]
			failedPeer := failOp == "AddNodeBalance" && failN == pi+1
			if failedPeer && d.Sign() == 0 {
				continue
			}
			if d.Cmp(credit) != 0 {
				ev.Violate("fault:"+driver+":peer-not-credited-although-its-credit-did-not-fail", detail())
				break
			}
		}
	}
}

// c02PoolHistory drives one client through several billed keep-alives via
// signed vipnode_update and compares every balance delta with the reference.
func c02PoolHistory(ev *vlib.Evidence, driver string, idx int) {
	r := vlib.Rand("C02-pool-"+driver, idx)
	price := mustBig(c02Prices[r.Intn(len(c02Prices))])
	interval := c02Intervals[r.Intn(len(c02Intervals))]
	// a quarter of the histories run with a (negative) minimum balance that the
	// client crosses on the way: a keep-alive that is cut off has still been
	// billed, so it moves exactly the same amounts and ends the billed stretch
	var minBal *big.Int
	if r.Intn(4) == 0 {
		minBal = new(big.Int).Neg(new(big.Int).Mul(refCredit(interval, price, interval), big.NewInt(int64(1+r.Intn(6)))))
	}
	w, err := vlib.NewWorld(vlib.WorldOptions{Driver: driver, Price: price, Interval: interval, MinBalance: minBal})
	if err != nil {
		panic(err)
	}
	defer w.Close()
	nh := 1 + r.Intn(4)
	hosts := make([]*vlib.Identity, nh)
	universe := []string{}
	for i := range hosts {
		hosts[i] = vlib.NewIdentity("c02host", (idx*3+i)%17)
		if _, err := w.ConnectHost(hosts[i], "geth", fmt.Sprintf("192.0.2.%d:999", i+1)); err != nil {
			ev.Violate("pool:connect-failed", map[string]interface{}{"err": err.Error()})
			return
		}
		universe = append(universe, hosts[i].NodeID)
	}
	other := vlib.NewIdentity("c02other", idx%5) // a second light client, may be reported as a peer
	if _, err := w.ConnectClient(other, "geth", "192.0.2.77:1"); err != nil {
		ev.Violate("pool:connect-failed", map[string]interface{}{"err": err.Error()})
		return
	}
	client := vlib.NewIdentity("c02client", idx%5)
	cc, err := w.ConnectClient(client, "geth", "192.0.2.78:1")
	if err != nil {
		ev.Violate("pool:connect-failed", map[string]interface{}{"err": err.Error()})
		return
	}
	universe = append(universe, other.NodeID, client.NodeID)
	// wallets: sometimes the client shares a wallet with a host
	if r.Intn(3) == 0 {
		w.RawStore.AddAccountNode("W1", store.NodeID(client.NodeID))
		if r.Intn(2) == 0 {
			w.RawStore.AddAccountNode("W1", store.NodeID(hosts[0].NodeID))
		}
	}
	if r.Intn(3) == 0 {
		w.RawStore.AddAccountNode("W2", store.NodeID(hosts[nh-1].NodeID))
	}
	tracked := map[string]bool{}
	trace := []string{}
	totalCharged := new(big.Int)
	steps := 2 + r.Intn(6)
	moved := false
	for s := 0; s < steps; s++ {
		// who updates: mostly the client, sometimes a host (must move nothing)
		hostUpdate := r.Intn(7) == 0
		// reported peers
		reported := []ethnode.PeerInfo{}
		names := []string{}
		cnt := r.Intn(nh + 3)
		if hostUpdate {
			cnt = 0
		}
		for j := 0; j < cnt; j++ {
			switch k := r.Intn(10); {
			case k == 0:
				reported = append(reported, ethnode.PeerInfo{ID: vlib.NewIdentity("c02unknown", j).NodeID})
				names = append(names, "unknown")
			case k == 1:
				reported = append(reported, ethnode.PeerInfo{ID: other.NodeID})
				tracked[other.NodeID] = true
				names = append(names, "otherclient")
			default:
				h := hosts[r.Intn(nh)]
				pi := ethnode.PeerInfo{ID: h.NodeID}
				if r.Intn(2) == 0 {
					pi = ethnode.PeerInfo{ID: "hash", Enode: "enode://" + h.NodeID + "@192.0.2.1:30303"}
				}
				reported = append(reported, pi)
				tracked[h.NodeID] = true
				names = append(names, h.Name)
			}
		}
		updater, conn := client, cc.AgentSide
		n0, err := w.RawStore.GetNode(store.NodeID(client.NodeID))
		if err != nil {
			ev.Violate("pool:getnode", map[string]interface{}{"err": err.Error()})
			return
		}
		elapsed := c02Elapsed(r, interval)
		w.Clock.Set(n0.LastSeen.Add(elapsed))
		before := map[acctKey]*big.Int{}
		for _, id := range universe {
			before[accountOf(w.RawStore, id)] = creditOf(w.RawStore, id)
		}
		credit := refCredit(elapsed, price, interval)
		want := map[acctKey]*big.Int{}
		for k, v := range before {
			want[k] = new(big.Int).Set(v)
		}
		if hostUpdate {
			h := hosts[r.Intn(nh)]
			hn, _ := w.RawStore.GetNode(store.NodeID(h.NodeID))
			w.Clock.Set(hn.LastSeen.Add(elapsed))
			updater = h
			// use the host's own connection
			conn = nil
			reported = []ethnode.PeerInfo{{ID: client.NodeID}}
		} else {
			ck := accountOf(w.RawStore, client.NodeID)
			for p := range tracked {
				k := accountOf(w.RawStore, p)
				want[k].Add(want[k], credit)
				want[ck].Sub(want[ck], credit)
			}
		}
		var svc = conn
		if svc == nil {
			c := w.Dial(updater, "192.0.2.200:5")
			svc = c.AgentSide
			defer c.CloseTransportOnly()
		}
		t0 := time.Now()
		resp, err := w.Update(svc, updater, reported, uint64(s))
		t1 := time.Now()
		step := fmt.Sprintf("update by=%s elapsed=%s peers=%v tracked=%d credit=%s", updater.Name, elapsed, names, len(tracked), credit)
		trace = append(trace, step)
		cutOff := false
		if err != nil && minBal != nil && !hostUpdate && strings.Contains(err.Error(), "low balance") {
			cutOff = true // whether the cut-off itself is right is C03's question
			trace[len(trace)-1] += " -> cut off (low balance)"
			ev.Count("pool-cut-off-keepalives", 1)
		} else if err != nil {
			ev.Violate("pool:"+driver+":update-failed", map[string]interface{}{"trace": trace, "err": err.Error()})
			return
		}
		bad := []string{}
		for k, wv := range want {
			id := strings.SplitN(string(k), ":", 2)[1]
			var g *big.Int
			if strings.HasPrefix(string(k), "acct:") {
				b, _ := w.RawStore.GetAccountBalance(store.Account(id))
				g = &b.Credit
			} else {
				g = creditOf(w.RawStore, id)
			}
			if g.Cmp(wv) != 0 {
				bad = append(bad, fmt.Sprintf("%s: got %s want %s (before %s)", vlib.Short(string(k)), g, wv, before[k]))
			}
		}
		if len(bad) > 0 {
			sort.Strings(bad)
			key := "pool:" + driver + ":wrong-amount"
			if hostUpdate {
				key = "pool:" + driver + ":host-billed"
			} else if credit.Sign() == 0 || len(tracked) == 0 {
				key = "pool:" + driver + ":moved-on-noop"
			}
			ev.Violate(key, map[string]interface{}{"price": price.String(), "interval": interval.String(), "trace": trace, "diffs": bad})
			return
		}
		if !hostUpdate {
			if credit.Sign() > 0 && len(tracked) > 0 {
				moved = true
				totalCharged.Add(totalCharged, new(big.Int).Mul(credit, big.NewInt(int64(len(tracked)))))
			}
			ck := accountOf(w.RawStore, client.NodeID)
			if cutOff {
				// the client tops up and carries on without reconnecting
				topUp := new(big.Int).Mul(new(big.Int).Neg(minBal), big.NewInt(3))
				w.RawStore.AddNodeBalance(store.NodeID(client.NodeID), topUp)
				trace = append(trace, "top-up "+topUp.String())
			} else if resp.Balance == nil || resp.Balance.Credit.Cmp(want[ck]) != 0 {
				got := "<nil>"
				if resp.Balance != nil {
					got = resp.Balance.Credit.String()
				}
				ev.Violate("pool:"+driver+":reply-balance", map[string]interface{}{"trace": trace, "reply": got, "stored": want[ck].String()})
				return
			}
			// the next interval starts where this one was billed
			n1, _ := w.RawStore.GetNode(store.NodeID(client.NodeID))
			if n1.LastSeen.Before(t0.Add(-time.Millisecond)) || n1.LastSeen.After(t1.Add(time.Millisecond)) {
				ev.Violate("pool:"+driver+":lastseen-not-advanced", map[string]interface{}{"trace": trace, "last_seen": n1.LastSeen, "call_start": t0, "call_end": t1})
				return
			}
		}
	}
	ev.Case(fmt.Sprintf("pool %s price=%s interval=%s %s", driver, price, interval, strings.Join(trace, ";")), moved)
	if idx < 1 {
		ev.Sample(map[string]interface{}{"layer": "pool", "driver": driver, "price": price.String(), "interval": interval.String(), "trace": trace, "total_charged": totalCharged.String()})
	}
}

// c02Slicing bills the same virtual span in k slices and compares totals.
func c02Slicing(ev *vlib.Evidence, driver string, idx int) {
	r := vlib.Rand("C02-slice-"+driver, idx)
	price := mustBig(c02Prices[r.Intn(len(c02Prices))])
	interval := c02Intervals[1+r.Intn(3)]
	span := time.Duration(1+r.Intn(3600)) * time.Second
	totals := []*big.Int{}
	ks := []int{1, 2 + r.Intn(5), 10 + r.Intn(40)}
	np := 1 + r.Intn(3)
	for _, k := range ks {
		w, err := vlib.NewWorld(vlib.WorldOptions{Driver: driver, Price: price, Interval: interval})
		if err != nil {
			panic(err)
		}
		hosts := []*vlib.Identity{}
		infos := []ethnode.PeerInfo{}
		for i := 0; i < np; i++ {
			h := vlib.NewIdentity("c02shost", i)
			w.ConnectHost(h, "geth", fmt.Sprintf("192.0.2.%d:9", i+1))
			hosts = append(hosts, h)
			infos = append(infos, ethnode.PeerInfo{ID: h.NodeID})
		}
		client := vlib.NewIdentity("c02sclient", 0)
		cc, _ := w.ConnectClient(client, "geth", "192.0.2.99:1")
		// first update tracks the peers with zero elapsed time
		n0, _ := w.RawStore.GetNode(store.NodeID(client.NodeID))
		w.Clock.Set(n0.LastSeen)
		if _, err := w.Update(cc.AgentSide, client, infos, 0); err != nil {
			ev.Violate("slicing:update-failed", map[string]interface{}{"err": err.Error()})
			w.Close()
			return
		}
		// cut span into k slices with random cut points
		cuts := make([]time.Duration, 0, k)
		for i := 0; i < k-1; i++ {
			cuts = append(cuts, time.Duration(r.Int63n(int64(span))))
		}
		cuts = append(cuts, span)
		sort.Slice(cuts, func(i, j int) bool { return cuts[i] < cuts[j] })
		prev := time.Duration(0)
		for _, c := range cuts {
			n, _ := w.RawStore.GetNode(store.NodeID(client.NodeID))
			w.Clock.Set(n.LastSeen.Add(c - prev))
			prev = c
			if _, err := w.Update(cc.AgentSide, client, infos, 0); err != nil {
				ev.Violate("slicing:update-failed", map[string]interface{}{"err": err.Error()})
				w.Close()
				return
			}
		}
		charged := new(big.Int).Neg(creditOf(w.RawStore, client.NodeID))
		totals = append(totals, charged)
		// zero-sum inside the slice run
		sum := new(big.Int).Set(creditOf(w.RawStore, client.NodeID))
		for _, h := range hosts {
			sum.Add(sum, creditOf(w.RawStore, h.NodeID))
		}
		if sum.Sign() != 0 {
			ev.Violate("slicing:"+driver+":not-zero-sum", map[string]interface{}{"sum": sum.String()})
		}
		w.Close()
	}
	// bound: totals differ from the single-slice total by at most one unit per update per peer
	ref := totals[0]
	for i, k := range ks {
		diff := new(big.Int).Sub(ref, totals[i])
		bound := big.NewInt(int64(k * np))
		if diff.Sign() < 0 || diff.Cmp(bound) > 0 {
			ev.Violate("slicing:"+driver+":bound", map[string]interface{}{"price": price.String(), "interval": interval.String(), "span": span.String(), "slices": k, "peers": np, "single_total": ref.String(), "sliced_total": totals[i].String()})
		}
	}
	ev.Case(fmt.Sprintf("slice %s price=%s interval=%s span=%s ks=%v peers=%d", driver, price, interval, span, ks, np), ref.Sign() > 0)
	if idx < 1 {
		ev.Sample(map[string]interface{}{"layer": "slicing", "driver": driver, "price": price.String(), "interval": interval.String(), "span": span.String(), "slices": ks, "totals": []string{totals[0].String(), totals[1].String(), totals[2].String()}})
	}
}

func TestC02(t *testing.T) {
	ev := vlib.NewEvidence("C02", "exploration",
		"(bin) the built pool binary with --contract.price in several spellings: the amount debited over two keep-alives lies within elapsed x price/minute for the elapsed time bracketed by the send/receive times, the host pays nothing; fault level: one store call of an update fails (k-th peer credit, the client debit, a balance read): a failed update must move nothing, a successful one stays zero-sum with every peer credited exactly the price or nothing; manager level: OnUpdate on a pinned billing clock for elapsed x price x interval x peer-set grids (shared wallets, host updaters, zero elapsed, empty peer sets) vs floor(elapsed*price/interval) computed over the rationals; pool level: signed vipnode_update histories comparing every account delta, the reply balance and the advance of LastSeen; slicing: the same span billed in 1, few and many updates; non-trivial = credit > 0 with >= 1 active peer billed; distinct = distinct case descriptors")
	ev.Assume("elapsed spans < 100 years; negative elapsed time is outside the quantifier")
	binDone := make(chan struct{})
	go func() {
		defer close(binDone)
		parallelCases(vlib.Scale(7, 70), 4, func(i int) { binEconomy(ev, "C02", i) })
	}()
	for _, driver := range vlib.Drivers() {
		s, cleanup, err := vlib.OpenStore(driver)
		if err != nil {
			t.Fatal(err)
		}
		c02Manager(ev, driver, s, vlib.Scale(2000, 50000))
		c02ManagerFaults(ev, driver, s, vlib.Scale(600, 15000))
		cleanup()
		driver := driver
		parallelCases(vlib.Scale(300, 6000), 8, func(i int) { c02PoolHistory(ev, driver, i) })
		parallelCases(vlib.Scale(60, 1200), 8, func(i int) { c02Slicing(ev, driver, i) })
	}
	<-binDone
	for _, driver := range vlib.Drivers() {
		driver := driver
		parallelCases(vlib.Scale(12, 60), 4, func(i int) { contractEconomy(ev, "C02", driver, i) })
	}
	finish(t, ev)
}
