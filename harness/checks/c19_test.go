package checks

import (
	"fmt"
	"net"
	"os"
	"path/filepath"
	"strings"
	"testing"

	"github.com/vipnode/vipnode/v2/ethnode"
	"github.com/vipnode/vipnode/v2/jsonrpc2"
	"github.com/vipnode/vipnode/v2/pool"
	"github.com/vipnode/vipnode/v2/pool/store"
	"verifharness/vlib"
)

type c19Override struct {
	Name string
	// URI builds the override from the host's own id and another id.
	URI func(self, other string) string
	// Host/Port: what the override supplies ("" = not supplied).
	Host, Port string
	ForeignID  bool // names another identity
	Exotic     bool // only no-crash + id binding required
}

var c19Overrides = []c19Override{
	{Name: "absent", URI: func(s, o string) string { return "" }},
	{Name: "own-id-ipv4-port", URI: func(s, o string) string { return "enode://" + s + "@198.51.100.7:30305" }, Host: "198.51.100.7", Port: "30305"},
	{Name: "own-id-ipv4-highport", URI: func(s, o string) string { return "enode://" + s + "@198.51.100.7:41100" }, Host: "198.51.100.7", Port: "41100"},
	{Name: "own-id-ipv4-maxport", URI: func(s, o string) string { return "enode://" + s + "@198.51.100.7:65535" }, Host: "198.51.100.7", Port: "65535"},
	{Name: "own-id-ipv6-highport", URI: func(s, o string) string { return "enode://" + s + "@[2001:db8::7]:32768" }, Host: "2001:db8::7", Port: "32768"},
	{Name: "own-id-dns-lowport", URI: func(s, o string) string { return "enode://" + s + "@node.example.org:1" }, Host: "node.example.org", Port: "1"},
	{Name: "own-id-ipv4-noport", URI: func(s, o string) string { return "enode://" + s + "@198.51.100.7" }, Host: "198.51.100.7"},
	{Name: "own-id-ipv6", URI: func(s, o string) string { return "enode://" + s + "@[2001:db8::7]:30309" }, Host: "2001:db8::7", Port: "30309"},
	{Name: "own-id-ipv6-noport", URI: func(s, o string) string { return "enode://" + s + "@[2001:db8::8]" }, Host: "2001:db8::8"},
	{Name: "own-id-dns", URI: func(s, o string) string { return "enode://" + s + "@node.example.org:30400" }, Host: "node.example.org", Port: "30400"},
	{Name: "own-id-unspecified-v6", URI: func(s, o string) string { return "enode://" + s + "@[::]:30303" }, Port: "30303"},
	{Name: "own-id-unspecified-v6-port", URI: func(s, o string) string { return "enode://" + s + "@[::]:30555" }, Port: "30555"},
	{Name: "own-id-missing-host", URI: func(s, o string) string { return "enode://" + s + "@:30777" }, Port: "30777"},
	{Name: "own-id-only", URI: func(s, o string) string { return "enode://" + s + "@" }},
	{Name: "empty-user", URI: func(s, o string) string { return "enode://@198.51.100.9:30303" }, Host: "198.51.100.9", Port: "30303"},
	{Name: "no-user", URI: func(s, o string) string { return "enode://198.51.100.10:30303" }, Host: "198.51.100.10", Port: "30303"},
	{Name: "user-password", URI: func(s, o string) string { return "enode://" + s + ":secret@198.51.100.11:30303" }, Host: "198.51.100.11", Port: "30303"},
	{Name: "other-id", URI: func(s, o string) string { return "enode://" + o + "@198.51.100.12:30303" }, Host: "198.51.100.12", Port: "30303", ForeignID: true},
	{Name: "other-id-password", URI: func(s, o string) string { return "enode://" + o + ":" + s + "@198.51.100.13:30303" }, Host: "198.51.100.13", Port: "30303", ForeignID: true},
	{Name: "path-query", URI: func(s, o string) string { return "enode://" + s + "@198.51.100.14:30303/path?discport=30301" }, Host: "198.51.100.14", Port: "30303"},
	{Name: "query-only", URI: func(s, o string) string { return "enode://" + s + "@198.51.100.15:30303?discport=0" }, Host: "198.51.100.15", Port: "30303"},
	{Name: "unspecified-v4", URI: func(s, o string) string { return "enode://" + s + "@0.0.0.0:30303" }, Port: "30303", Exotic: true},
	{Name: "http-scheme", URI: func(s, o string) string { return "http://198.51.100.16:8080/" }, Exotic: true},
	{Name: "http-scheme-own-id", URI: func(s, o string) string { return "http://" + s + "@198.51.100.18:30303" }, Exotic: true},
	{Name: "schemeless-own-id", URI: func(s, o string) string { return "//" + s + "@198.51.100.19:30303" }, Exotic: true},
	{Name: "uppercase-scheme-own-id", URI: func(s, o string) string { return "ENODE://" + s + "@198.51.100.20:30303" }, Exotic: true},
	{Name: "bare-id", URI: func(s, o string) string { return s }, Exotic: true},
	{Name: "garbage", URI: func(s, o string) string { return "::::not a uri::::" }, Exotic: true},
	{Name: "percent", URI: func(s, o string) string { return "enode://" + s + "@%zz:1" }, Exotic: true},
	{Name: "zone", URI: func(s, o string) string { return "enode://" + s + "@[fe80::1%25eth0]:30303" }, Exotic: true},
	{Name: "huge-port", URI: func(s, o string) string { return "enode://" + s + "@198.51.100.17:99999999" }, Exotic: true},
	{Name: "space-host", URI: func(s, o string) string { return "enode://" + s + "@exa mple:30303" }, Exotic: true},
}

var c19Sources = []struct{ Name, Addr, Host string }{
	{"ipv4", "192.0.2.44:51234", "192.0.2.44"},
	{"ipv6", "[2001:db8::44]:51234", "2001:db8::44"},
	{"ipv6-loopback", "[::1]:51234", "::1"},
	{"empty", "", ""},
	{"host-only", "192.0.2.45", "192.0.2.45"},
	// the library's own stream codec over transports that have no network address
	{"stream-pipe", "", ""},
	{"stream-unix", "", ""},
}

// c19StreamConn connects a host through jsonrpc2.IOCodec over a net.Pipe or a
// unix socket, as a local agent embedding the pool would.
func c19StreamConn(w *vlib.World, id *vlib.Identity, kind string) *vlib.Conn {
	if kind == "stream-unix" {
		dir, err := os.MkdirTemp("", "verif-c19u-")
		if err == nil {
			defer os.RemoveAll(dir)
			if ln, err := net.Listen("unix", filepath.Join(dir, "s")); err == nil {
				defer ln.Close()
				acc := make(chan net.Conn, 1)
				go func() { c, _ := ln.Accept(); acc <- c }()
				if c1, err := net.Dial("unix", filepath.Join(dir, "s")); err == nil {
					if c2 := <-acc; c2 != nil {
						return w.DialCodecs(id, "", jsonrpc2.IOCodec(c2), jsonrpc2.IOCodec(c1))
					}
				}
			}
		}
	}
	c1, c2 := net.Pipe()
	return w.DialCodecs(id, "", jsonrpc2.IOCodec(c1), jsonrpc2.IOCodec(c2))
}

func TestC19(t *testing.T) {
	ev := vlib.NewEvidence("C19", "exploration",
		"(e2e) the built agent binary fronting a fake geth node, configured only by --enode / --enode.host / neither, registers with the built pool binary and a client is handed its URI; (bin) the built pool binary on 127.0.0.1 and [::1]: hosts register over real WebSocket connections with each non-exotic override and the URI a client is handed for them is compared with the supplied address or the TCP source address with port 30303; signed vipnode_connect (full node) and legacy vipnode_host over Remote connections whose codec reports a generated source address (IPv4, [IPv6]:port, loopback v6, empty, host without port), crossed with node-URI overrides (absent, own id with IPv4/IPv6/DNS hosts with and without ports, unspecified [::], missing host, empty user, no user, user:password, other id, path/query, exotic strings); oracle: an accepted registration's stored Node.URI and the URI handed to a client by vipnode_peer parse with ethnode.ParseNodeURI and net.SplitHostPort to the authenticated id, the supplied host (or the source host) and the supplied port (or 30303); undeterminable addresses are refused and nothing is stored; non-trivial = registration accepted and parsed back; distinct = (endpoint, source class, override class, driver); (faults) re-registrations with store calls failing, re-registrations racing the host's keep-alives")
	ev.Assume("exotic overrides (0.0.0.0, non-enode schemes, unparsable strings, zones, out-of-range ports) are only required not to crash and to keep the id binding")
	for _, driver := range vlib.Drivers() {
		w, err := vlib.NewWorld(vlib.WorldOptions{Driver: driver})
		if err != nil {
			t.Fatal(err)
		}
		client := vlib.NewIdentity("c19client", 0)
		cc, err := w.ConnectClient(client, "geth", "192.0.2.250:1")
		if err != nil {
			t.Fatal(err)
		}
		n := 0
		for _, method := range []string{"vipnode_connect", "vipnode_host"} {
			for _, src := range c19Sources {
				for _, ov := range c19Overrides {
					n++
					id := vlib.NewIdentity("c19host-"+driver, n)
					other := vlib.NewIdentity("c19other", n)
					uri := ov.URI(id.NodeID, other.NodeID)
					conn := w.Dial(id, src.Addr)
					if strings.HasPrefix(src.Name, "stream-") {
						conn.CloseTransportOnly()
						conn = c19StreamConn(w, id, src.Name)
					}
					var arg interface{} = vlib.ConnectReq(true, "geth", uri, "")
					if method == "vipnode_host" {
						arg = pool.HostRequest{Kind: "geth", NodeURI: uri}
					}
					var raw interface{}
					err := w.Signed(conn.AgentSide, id, id.NodeID, method, &raw, arg)
					stored, gerr := w.RawStore.GetNode(store.NodeID(id.NodeID))
					desc := fmt.Sprintf("%s/%s/src=%s/override=%s", driver, method, src.Name, ov.Name)
					detail := map[string]interface{}{"case": desc, "source_addr": src.Addr, "override": strings.Replace(strings.Replace(uri, id.NodeID, "<own-id>", -1), other.NodeID, "<other-id>", -1), "err": fmt.Sprint(err)}
					wantHost, wantPort := ov.Host, ov.Port
					if wantHost == "" {
						wantHost = src.Host
					}
					if wantPort == "" {
						wantPort = "30303"
					}
					accepted := err == nil
					ev.Count("registrations", 1)
					if !accepted {
						ev.Case(desc, false)
						if gerr == nil {
							detail["stored_uri"] = stored.URI
							ev.Violate("refused-registration-was-stored:"+ov.Name, detail)
						}
						// refusing is right when the id is foreign or no address can be determined
						if !ov.ForeignID && !ov.Exotic && wantHost != "" {
							ev.Violate("valid-registration-refused:"+src.Name+":"+ov.Name, detail)
						}
						conn.Close()
						continue
					}
					ev.Count("accepted", 1)
					if gerr != nil {
						ev.Violate("accepted-registration-not-stored", detail)
						conn.Close()
						continue
					}
					detail["stored_uri"] = strings.Replace(stored.URI, id.NodeID, "<own-id>", -1)
					// id binding
					pu, perr := ethnode.ParseNodeURI(stored.URI)
					if perr != nil || pu.ID() != id.NodeID {
						detail["parse_err"] = fmt.Sprint(perr)
						ev.Violate("advertised-id-not-authenticated-id:"+ov.Name, detail)
						conn.Close()
						continue
					}
					if ov.ForeignID {
						// accepted under the authenticated id is tolerable; reaching here means the id binding held
						ev.Count("foreign-id-override-accepted-under-own-id", 1)
					}
					if !ov.Exotic {
						if wantHost == "" {
							ev.Violate("undeterminable-address-was-stored:"+src.Name+":"+ov.Name, detail)
							conn.Close()
							continue
						}
						h, p, serr := net.SplitHostPort(pu.Host)
						if serr != nil || h != wantHost || p != wantPort {
							detail["split_err"], detail["got_host"], detail["got_port"], detail["want_host"], detail["want_port"] = fmt.Sprint(serr), h, p, wantHost, wantPort
							class := "ipv4"
							if strings.Contains(wantHost, ":") {
								class = "ipv6-literal"
							} else if net.ParseIP(wantHost) == nil {
								class = "dns"
							}
							ev.Violate("roundtrip:host="+class, detail)
							conn.Close()
							continue
						}
						// the URI handed to clients
						var resp pool.PeerResponse
						if err := w.Signed(cc.AgentSide, client, client.NodeID, "vipnode_peer", &resp, pool.PeerRequest{Num: 1}); err == nil {
							for _, pn := range resp.Peers {
								if string(pn.ID) == id.NodeID && pn.URI != stored.URI {
									detail["handed_out"] = pn.URI
									ev.Violate("client-got-different-uri", detail)
								}
								ev.Count("uris-handed-to-client", 1)
							}
						}
					}
					ev.Case(desc, true)
					if n%37 == 1 {
						ev.Sample(detail)
					}
					// the same host registers again on the same connection with another override:
					// what is stored and advertised follows the latest accepted registration
					if !ov.Exotic && src.Host != "" {
						ov2 := c19Overrides[(n*7)%len(c19Overrides)]
						if n%2 == 0 {
							ov2 = c19Overrides[0] // no override this time: back to the connection's own address
						}
						if !ov2.Exotic && !ov2.ForeignID {
							uri2 := ov2.URI(id.NodeID, other.NodeID)
							var arg2 interface{} = vlib.ConnectReq(true, "geth", uri2, "")
							if method == "vipnode_host" {
								arg2 = pool.HostRequest{Kind: "geth", NodeURI: uri2}
							}
							var raw2 interface{}
							if err2 := w.Signed(conn.AgentSide, id, id.NodeID, method, &raw2, arg2); err2 == nil {
								st2, _ := w.RawStore.GetNode(store.NodeID(id.NodeID))
								wh, wp := ov2.Host, ov2.Port
								if wh == "" {
									wh = src.Host
								}
								if wp == "" {
									wp = "30303"
								}
								pu2, perr2 := ethnode.ParseNodeURI(st2.URI)
								h2, p2, serr2 := "", "", error(nil)
								if perr2 == nil {
									h2, p2, serr2 = net.SplitHostPort(pu2.Host)
								}
								ev.Case(desc+"/again="+ov2.Name, true)
								ev.Count("re-registrations", 1)
								if perr2 != nil || serr2 != nil || h2 != wh || p2 != wp || pu2.ID() != id.NodeID {
									ev.Violate("re-registration:stale-or-wrong-address", map[string]interface{}{"case": desc, "second_override": ov2.Name, "stored_uri": strings.Replace(st2.URI, id.NodeID, "<own-id>", -1), "want_host": wh, "want_port": wp})
								}
							}
						}
					}
					// make the host stale for later peer requests: close its connection
					conn.Close()
					// the host comes back from another address with the very same override text:
					// where the override names no host, the new connection's address counts
					if !ov.Exotic && !ov.ForeignID {
						for k, src3 := range []struct{ Addr, Host string }{{"198.51.100.201:40001", "198.51.100.201"}, {"[2001:db8:5::77]:40002", "2001:db8:5::77"}} {
							conn3 := w.Dial(id, src3.Addr)
							var raw3 interface{}
							err3 := w.Signed(conn3.AgentSide, id, id.NodeID, method, &raw3, arg)
							ev.Case(fmt.Sprintf("%s/reconnect-from-other-address-%d", desc, k), true)
							ev.Count("reconnects-from-another-address", 1)
							wh, wp := ov.Host, ov.Port
							if wh == "" {
								wh = src3.Host
							}
							if wp == "" {
								wp = "30303"
							}
							if err3 != nil {
								ev.Violate("valid-registration-refused:reconnect:"+ov.Name, map[string]interface{}{"case": desc, "source_addr": src3.Addr, "err": err3.Error()})
							} else if st3, gerr3 := w.RawStore.GetNode(store.NodeID(id.NodeID)); gerr3 == nil {
								pu3, perr3 := ethnode.ParseNodeURI(st3.URI)
								h3, p3, serr3 := "", "", error(nil)
								if perr3 == nil {
									h3, p3, serr3 = net.SplitHostPort(pu3.Host)
								}
								if perr3 != nil || serr3 != nil || h3 != wh || p3 != wp || pu3.ID() != id.NodeID {
									ev.Violate("reconnect-from-another-address:stale-or-wrong-address", map[string]interface{}{"case": desc, "first_source": src.Addr, "new_source": src3.Addr, "stored_uri": strings.Replace(st3.URI, id.NodeID, "<own-id>", -1), "want_host": wh, "want_port": wp})
								}
							}
							conn3.Close()
						}
					}
				}
			}
		}
		w.Close()
	}
	c19Binary(ev)
	for _, driver := range vlib.Drivers() {
		driver := driver
		parallelCases(vlib.Scale(60, 1200), 8, func(i int) { c19RegistrationStoreFaults(ev, driver, i) })
		parallelCases(vlib.Scale(8, 80), 4, func(i int) { c19ReRegistrationDuringKeepalives(ev, driver, i) })
	}
	parallelCases(vlib.Scale(9, 36), 5, func(i int) { c19EndToEnd(ev, i) })
	c19ManyHosts(ev, vlib.DriverMemory)
	finish(t, ev)
}
