package checks

import (
	"context"
	"encoding/json"
	"fmt"
	"net"
	"sort"
	"strings"
	"sync"
	"time"

	"github.com/ethereum/go-ethereum/rpc"
	"github.com/vipnode/vipnode/v2/agent"
	"github.com/vipnode/vipnode/v2/ethnode"
	"github.com/vipnode/vipnode/v2/pool"
	"github.com/vipnode/vipnode/v2/pool/store"
	"verifharness/vlib"
)

// fakeChain is a fake Ethereum node served over go-ethereum's in-process RPC
// server; the agent talks to it through the repository's real geth / parity
// wrappers (ethnode.RemoteNode).
type fakeChain struct {
	mu      sync.Mutex
	kind    string // "geth" | "parity"
	light   bool
	selfID  string
	peers   []ethnode.PeerInfo
	pending []ethnode.PeerInfo // parity: peers that have not finished the handshake (no protocols)
	calls   []string
}

func (f *fakeChain) rec(s string) { f.mu.Lock(); f.calls = append(f.calls, s); f.mu.Unlock() }
func (f *fakeChain) take() []string {
	f.mu.Lock()
	defer f.mu.Unlock()
	c := f.calls
	f.calls = nil
	return c
}

type web3API struct{ f *fakeChain }

func (a *web3API) ClientVersion() string {
	if a.f.kind == "pantheon" {
		return "pantheon/v1.1.3/linux-x86_64/oracle-java-1.8"
	}
	if a.f.kind == "parity" {
		return "Parity-Ethereum//v2.5.13-stable/x86_64-linux-gnu/rustc1.41.0"
	}
	return "Geth/v1.9.15-stable/linux-amd64/go1.14"
}

type ethAPI struct{ f *fakeChain }

func (a *ethAPI) ProtocolVersion() string {
	if a.f.light {
		if a.f.kind == "parity" {
			return "1"
		}
		return "10002"
	}
	return "0x3f"
}
func (a *ethAPI) BlockNumber() string { return "0x2a" }

type netAPI struct{ f *fakeChain }

func (a *netAPI) Version() string { return "1" }
func (a *netAPI) Enode() string   { return "enode://" + a.f.selfID + "@0.0.0.0:30303" } // pantheon

type adminAPI struct{ f *fakeChain }

func (a *adminAPI) Peers() []ethnode.PeerInfo {
	a.f.mu.Lock()
	defer a.f.mu.Unlock()
	return append([]ethnode.PeerInfo{}, a.f.peers...)
}
func (a *adminAPI) NodeInfo() map[string]string {
	return map[string]string{"enode": "enode://" + a.f.selfID + "@[::]:30303"}
}
func (a *adminAPI) AddPeer(u string) bool        { a.f.rec("admin_addPeer " + u); return true }
func (a *adminAPI) RemovePeer(u string) bool     { a.f.rec("admin_removePeer " + u); return true }
func (a *adminAPI) AddTrustedPeer(u string) bool { a.f.rec("admin_addTrustedPeer " + u); return true }
func (a *adminAPI) RemoveTrustedPeer(u string) bool {
	a.f.rec("admin_removeTrustedPeer " + u)
	return true
}

type parityAPI struct{ f *fakeChain }

func (a *parityAPI) Enode() string { return "enode://" + a.f.selfID + "@0.0.0.0:30303" }
func (a *parityAPI) NetPeers() map[string]interface{} {
	a.f.mu.Lock()
	defer a.f.mu.Unlock()
	out := []map[string]interface{}{}
	for i, p := range append(append([]ethnode.PeerInfo{}, a.f.peers...), a.f.pending...) {
		m := map[string]interface{}{"id": p.ID, "caps": []string{"eth/63"}, "network": map[string]string{"localAddress": "10.0.0.1:30303", "remoteAddress": p.Network.RemoteAddress}}
		if i%2 == 0 {
			m["name"] = "Geth/v1.9/linux"
		} else {
			m["name"] = map[string]interface{}{"ParityClient": map[string]interface{}{"semver": "2.5.13", "os": "linux", "compiler": "rustc", "name": "Parity-Ethereum", "identity": "", "can_handle_large_requests": true}}
		}
		if i < len(a.f.peers) {
			m["protocols"] = map[string]interface{}{"eth": map[string]interface{}{"version": 63}}
		} else {
			m["protocols"] = map[string]interface{}{}
		}
		out = append(out, m)
	}
	return map[string]interface{}{"active": len(a.f.peers), "connected": len(out), "max": 50, "peers": out}
}
func (a *parityAPI) AddReservedPeer(u string) bool {
	if u != "" {
		a.f.rec("parity_addReservedPeer " + u)
	}
	return true
}
func (a *parityAPI) RemoveReservedPeer(u string) bool {
	a.f.rec("parity_removeReservedPeer " + u)
	return true
}

func newFakeChainNode(f *fakeChain) (ethnode.EthNode, func(), error) {
	srv := rpc.NewServer()
	srv.RegisterName("web3", &web3API{f})
	srv.RegisterName("eth", &ethAPI{f})
	srv.RegisterName("net", &netAPI{f})
	if f.kind == "parity" {
		srv.RegisterName("parity", &parityAPI{f})
	} else {
		srv.RegisterName("admin", &adminAPI{f})
	}
	client := rpc.DialInProc(srv)
	node, err := ethnode.RemoteNode(client)
	return node, func() { client.Close(); srv.Stop() }, err
}

var (
	c18UniverseCache []*vlib.Identity
	c18UniverseOnce  sync.Once
)

// c18Universe: six peer identities, two of whose ids begin with the hex digit
// 0 and one with 00 (ids are hex strings; nothing about them is a prefix).
func c18Universe() []*vlib.Identity {
	c18UniverseOnce.Do(c18BuildUniverse)
	return c18UniverseCache
}

func c18BuildUniverse() {
	out := []*vlib.Identity{}
	zeros := 0
	for i := 0; len(out) < 6 && i < 100000; i++ {
		id := vlib.NewIdentity("c18rpcpeer", i)
		switch {
		case len(out) < 3:
			out = append(out, id)
		case strings.HasPrefix(id.NodeID, "0") && zeros < 3:
			out = append(out, id)
			zeros++
		}
	}
	c18UniverseCache = out
}

// c18ExpectedDrops: ids to un-trust and disconnect (reference model).
func c18ExpectedDrops(strict bool, local []ethnode.PeerInfo, active, invalid []string) []string {
	want := map[string]bool{}
	for _, p := range invalid {
		if id, _, ok := refRemoteHost(p); ok {
			want[id] = true
		} else {
			want[p] = true
		}
	}
	if strict {
		activeHost := map[string]string{}
		for _, u := range active {
			if id, h, ok := refRemoteHost(u); ok {
				activeHost[id] = h
			}
		}
		for _, lp := range local {
			id := lp.EnodeID()
			_, lh, ok := refRemoteHost("enode://" + id + "@" + lp.Network.RemoteAddress)
			if ah, listed := activeHost[id]; ok && listed && ah == lh {
				continue
			}
			want[id] = true
		}
	}
	out := []string{}
	for k := range want {
		out = append(out, k)
	}
	sort.Strings(out)
	return out
}

// c18RPC: one start + one keep-alive round through the real node wrappers.
func c18RPC(ev *vlib.Evidence, idx int) {
	r := vlib.Rand("C18-rpc", idx)
	f := &fakeChain{kind: vlib.Pick(r, "geth", "parity", "pantheon"), light: r.Intn(2) == 0, selfID: vlib.NewIdentity("c18rpcself", 0).NodeID}
	if f.kind == "pantheon" {
		f.light = false
	}
	universe := c18Universe()
	for _, p := range universe {
		switch r.Intn(4) {
		case 0, 1:
			pi := ethnode.PeerInfo{ID: p.NodeID, Name: "Geth/x", Caps: []string{"eth/63"}, Protocols: map[string]json.RawMessage{"eth": json.RawMessage(`{"version":63}`)}}
			pi.Network.RemoteAddress = fmt.Sprintf("%s:%d", c18Hosts[r.Intn(len(c18Hosts))], 30303)
			if f.kind == "geth" && r.Intn(3) == 0 {
				pi.ID = "hash" + p.Name
				pi.Enode = "enode://" + p.NodeID + "@" + pi.Network.RemoteAddress
			}
			f.peers = append(f.peers, pi)
		case 2:
			if f.kind == "parity" {
				pi := ethnode.PeerInfo{ID: p.NodeID}
				pi.Network.RemoteAddress = "198.51.100.200:30303"
				f.pending = append(f.pending, pi)
			}
		}
	}
	node, cleanup, err := newFakeChainNode(f)
	if err != nil {
		ev.Violate("rpc:node-wrapper-setup-failed:"+f.kind, map[string]interface{}{"err": err.Error()})
		return
	}
	defer cleanup()
	strict := r.Intn(2) == 0
	target := r.Intn(7)
	var active, invalid []string
	for _, p := range universe {
		switch r.Intn(4) {
		case 0, 1:
			host := c18Hosts[r.Intn(len(c18Hosts))]
			for _, lp := range f.peers {
				if lp.EnodeID() == p.NodeID && r.Intn(3) != 0 {
					h, _, _ := net.SplitHostPort(lp.Network.RemoteAddress)
					if strings.Contains(h, ":") {
						h = "[" + h + "]"
					}
					host = h
				}
			}
			uri := fmt.Sprintf("enode://%s@%s:30303", p.NodeID, host)
			if r.Intn(6) == 0 {
				uri = vlib.Pick(r, "enode://"+p.NodeID+"@", "enode://"+p.NodeID, p.NodeID)
			}
			active = append(active, uri)
		case 2:
			invalid = append(invalid, vlib.Pick(r, p.NodeID, "enode://"+p.NodeID+"@198.51.100.77:30303"))
		}
	}
	newHosts := []store.Node{}
	for i := 0; i < r.Intn(3); i++ {
		h := vlib.NewIdentity("c18rpcnew", r.Intn(20))
		addr := fmt.Sprintf("203.0.113.%d:30303", 1+r.Intn(200))
		if r.Intn(3) == 0 {
			addr = vlib.Pick(r, "127.0.0.1:30304", "localhost:30305", "[::1]:30306", "[2001:db8::5]:30307", "node.example.org:30308")
		}
		newHosts = append(newHosts, store.Node{ID: store.NodeID(h.NodeID), URI: "enode://" + h.NodeID + "@" + addr})
	}
	sp := &scriptedPool{}
	var reported []ethnode.PeerInfo
	sp.nextUpdate = func(n int, req pool.UpdateRequest) (*pool.UpdateResponse, error) {
		reported = req.PeerInfo
		return &pool.UpdateResponse{ActivePeers: append([]string{}, active...), InvalidPeers: append([]string{}, invalid...)}, nil
	}
	sp.nextPeer = func(req pool.PeerRequest) (*pool.PeerResponse, error) {
		return &pool.PeerResponse{Peers: newHosts}, nil
	}
	a := &agent.Agent{EthNode: node, NumHosts: target, StrictPeers: strict, UpdateInterval: time.Hour}
	f.take()
	if err := a.Start(sp); err != nil {
		ev.Violate("rpc:start-failed:"+f.kind, map[string]interface{}{"err": err.Error()})
		return
	}
	defer func() { a.Stop(); a.Wait() }()
	calls := f.take()
	sort.Strings(calls)
	desc := fmt.Sprintf("rpc kind=%s light=%v strict=%v target=%d local=%d pending=%d active=%d invalid=%d", f.kind, f.light, strict, target, len(f.peers), len(f.pending), len(active), len(invalid))
	// what the wrapper reported to the pool: exactly the peers that completed the handshake
	repIDs := []string{}
	for _, p := range reported {
		repIDs = append(repIDs, p.EnodeID())
	}
	sort.Strings(repIDs)
	locIDs := []string{}
	for _, p := range f.peers {
		locIDs = append(locIDs, p.EnodeID())
	}
	sort.Strings(locIDs)
	detail := map[string]interface{}{"case": desc, "rpc_calls": abbrevCalls(calls), "active": abbrevList(active), "invalid": abbrevList(invalid)}
	ev.Case(desc+fmt.Sprint(idx), true)
	ev.Count("rpc-rounds:"+f.kind, 1)
	if strings.Join(repIDs, ",") != strings.Join(locIDs, ",") {
		detail["reported"], detail["local"] = abbrevList(repIDs), abbrevList(locIDs)
		ev.Violate("rpc:"+f.kind+":reported-peers-differ-from-node", detail)
		return
	}
	want := []string{}
	for _, id := range c18ExpectedDrops(strict, f.peers, active, invalid) {
		if f.kind == "parity" {
			arg := "enode://" + id + "@[::]:30303"
			want = append(want, "parity_removeReservedPeer "+arg, "parity_removeReservedPeer "+arg) // un-trust and disconnect map to the same call
		} else if f.kind == "pantheon" {
			want = append(want, "admin_removePeer "+id, "admin_removePeer "+id) // both map to admin_removePeer with the bare id
		} else {
			want = append(want, "admin_removeTrustedPeer enode://"+id, "admin_removePeer enode://"+id)
		}
	}
	if target-len(active) > 0 {
		for _, h := range newHosts {
			if f.kind == "parity" {
				want = append(want, "parity_addReservedPeer "+h.URI)
			} else {
				want = append(want, "admin_addPeer "+h.URI)
			}
		}
		wantKind := ""
		if f.light {
			wantKind = f.kind
		}
		sp.mu.Lock()
		reqs := append([]pool.PeerRequest{}, sp.peerReqs...)
		sp.mu.Unlock()
		if len(reqs) != 1 || reqs[0].Num != target-len(active) || reqs[0].Kind != wantKind {
			detail["peer_requests"], detail["want"] = fmt.Sprintf("%+v", reqs), fmt.Sprintf("{Num:%d Kind:%q}", target-len(active), wantKind)
			ev.Violate("rpc:"+f.kind+":peer-request", detail)
			return
		}
	}
	sort.Strings(want)
	if strings.Join(calls, "\n") != strings.Join(want, "\n") {
		detail["want_calls"] = abbrevCalls(want)
		ev.Violate("rpc:"+f.kind+":node-calls-differ-from-model", detail)
	}
	_ = context.Background
}

func abbrevCalls(in []string) []string {
	out := []string{}
	for _, c := range in {
		parts := strings.SplitN(c, " ", 2)
		arg := parts[len(parts)-1]
		if i := strings.Index(arg, "enode://"); i >= 0 && len(arg) > i+18 {
			tail := ""
			if j := strings.LastIndex(arg, "@"); j > i+18 {
				tail = arg[j:]
			}
			arg = arg[:i+18] + "…" + tail
		}
		out = append(out, parts[0]+" "+arg)
	}
	return out
}
