package checks

import (
	"fmt"
	"math/big"
	"os"
	"strings"
	"time"

	"github.com/vipnode/vipnode/v2/ethnode"
	"github.com/vipnode/vipnode/v2/pool"
	"github.com/vipnode/vipnode/v2/pool/store"
	"verifharness/vlib"
)

// contractEconomy runs a pool whose balance manager and payment service sit on
// the repository's real contract-backed balance store (payment.ContractPayment
// with its deposit cache and OpSettle) over a simulated chain running the real
// VipnodePool contract - the configuration pool.go builds when a payment
// contract is given. A light client linked to a wallet with an on-chain deposit
// is billed for two hosts (one on a trial balance, one paid into a wallet), is
// re-linked to another wallet on the way, and the hosts' wallet withdraws.
// Only the clauses of property prop are asserted:
//
//	C01 the sum of all credit changes only by what a withdrawal settled
//	C02 every account's credit moves by exactly elapsed x price per tracked peer
//	C03 refused at connect / cut off exactly when deposit + credit is below the minimum
//	C07 a withdrawal pays deposit + credit - fee once; the repeat is refused and pays nothing
func contractEconomy(ev *vlib.Evidence, prop, driver string, idx int) {
	r := vlib.Rand("contract-economy-"+driver, idx) // same scenarios for every property
	is := func(ps ...string) bool {
		for _, q := range ps {
			if q == prop {
				return true
			}
		}
		return false
	}
	wc := vlib.NewIdentity("ce-wallet-client", idx%7)
	wc2 := vlib.NewIdentity("ce-wallet-client2", idx%7)
	wh := vlib.NewIdentity("ce-wallet-hosts", idx%7)
	wt := vlib.NewIdentity("ce-wallet-timelocked", idx%7) // its owner has started the unilateral exit: the deposit is time-locked
	price := big.NewInt(int64(vlib.Pick(r, 60000, 6000000, 600000000)))
	perSec := new(big.Int).Div(price, big.NewInt(60))
	var minBal *big.Int
	if r.Intn(3) == 0 {
		minBal = new(big.Int).Mul(perSec, big.NewInt(int64(vlib.Pick(r, 0, 50, 400))))
	}
	useTimelocked := r.Intn(4) == 0
	pre := func(env *vlib.ContractEnv) {
		if !useTimelocked {
			return
		}
		// before the pool started: a deposit, and its owner's unilateral exit (the deposit is time-locked)
		if err := env.Deposit(wt, new(big.Int).Mul(perSec, big.NewInt(300))); err != nil {
			useTimelocked = false
			return
		}
		if err := env.ForceSettle(wt); err != nil {
			useTimelocked = false
		}
	}
	w, err := vlib.NewWorld(vlib.WorldOptions{Driver: driver, Price: price, Interval: time.Minute, MinBalance: minBal, WithPayment: true, Contract: true, ContractWallets: []*vlib.Identity{wc, wc2, wh, wt}, ContractPre: pre})
	if err != nil {
		fmt.Println("HARNESS-ERROR contract world:", err)
		ev.Inconclusive("contract-world")
		return
	}
	defer w.Close()
	fee := big.NewInt(1000)
	w.Payment.WithdrawFee = func(a *big.Int) *big.Int { return a.Sub(a, fee) } // in place, as pool.go's
	w.Payment.WithdrawMin = big.NewInt(5000)
	desc := fmt.Sprintf("contract-economy %s price=%s min=%v idx=%d", driver, price, minBal, idx)
	trace := []string{}
	failed := false
	fail := func(key string, d map[string]interface{}) {
		d["case"], d["trace"] = desc, trace
		ev.Violate("contract:"+key, d)
		failed = true
	}
	// deposits: the client's wallet holds roughly 100 s, 10 s or a lot of billing; the second wallet some
	dep := func(id *vlib.Identity, secs int64) *big.Int {
		amt := new(big.Int).Mul(perSec, big.NewInt(secs))
		if amt.Sign() > 0 {
			if err := w.Contract.Deposit(id, amt); err != nil {
				fmt.Println("HARNESS-ERROR deposit:", err)
			}
		}
		return amt
	}
	dep(wc, int64(vlib.Pick(r, 100, 10, 1000000)))
	dep(wc2, int64(vlib.Pick(r, 0, 200, 1000000)))
	if r.Intn(2) == 0 {
		dep(wh, 500)
	}

	if idx%6 == 5 {
		// a busy pool: the deposits of a few thousand other wallets have been looked up before
		crowd := vlib.Scale(2200, 5000)
		for i := 0; i < crowd; i++ {
			w.Contract.Pay.GetAccountBalance(store.Account(fmt.Sprintf("0x%040x", 0x1000000+idx*100000+i)))
		}
		ev.Count("contract-economy-other-wallets-looked-up", int64(crowd))
	}
	h1, h2 := vlib.NewIdentity("ce-host", (idx*2)%23), vlib.NewIdentity("ce-host", (idx*2+1)%23)
	client := vlib.NewIdentity("ce-client", idx%11)
	for i, h := range []*vlib.Identity{h1, h2} {
		if _, err := w.ConnectHost(h, "geth", fmt.Sprintf("192.0.2.%d:30303", 10+i)); err != nil {
			if is("C03") {
				fail("host-refused", map[string]interface{}{"err": err.Error()})
			}
			return
		}
	}
	if err := w.Signed(w.Local, wh, wh.Wallet, "pool_addNode", nil, h1.NodeID); err != nil {
		ev.Inconclusive("contract-setup")
		return
	}
	// model: credit per ledger entry; deposits are read from the chain
	credit := map[string]*big.Int{"acct:" + wc.Wallet: new(big.Int), "acct:" + wc2.Wallet: new(big.Int), "acct:" + wh.Wallet: new(big.Int), "acct:" + wt.Wallet: new(big.Int), "trial:" + h2.NodeID: new(big.Int)}
	settledCredit := new(big.Int)
	clientAcct := "" // the client starts on a trial balance
	credit["trial:"+client.NodeID] = new(big.Int)
	clientKey := func() string {
		if clientAcct == "" {
			return "trial:" + client.NodeID
		}
		return "acct:" + clientAcct
	}
	readCredit := func(key string) *big.Int {
		if strings.HasPrefix(key, "acct:") {
			b, _ := w.RawStore.GetAccountBalance(store.Account(key[5:]))
			return new(big.Int).Set(&b.Credit)
		}
		b, _ := w.RawStore.GetNodeBalance(store.NodeID(key[6:]))
		return new(big.Int).Set(&b.Credit)
	}
	checkLedger := func(after string) {
		if failed {
			return
		}
		sum := new(big.Int)
		bad := []string{}
		for k, want := range credit {
			if k == "trial:"+client.NodeID && clientAcct != "" {
				continue // migrated
			}
			got := readCredit(k)
			sum.Add(sum, got)
			if got.Cmp(want) != 0 {
				bad = append(bad, fmt.Sprintf("%s: stored %s, expected %s", vlib.Short(k), got, want))
			}
		}
		if is("C02", "C07") && len(bad) > 0 {
			fail("credit-differs-from-model:"+after, map[string]interface{}{"diffs": bad})
			return
		}
		if is("C01") {
			if want := new(big.Int).Neg(settledCredit); sum.Cmp(want) != 0 {
				fail("ledger-not-zero-sum:"+after, map[string]interface{}{"sum_of_credit": sum.String(), "expected": want.String(), "diffs": bad})
			}
		}
	}
	spendable := func(key string) *big.Int {
		d := new(big.Int)
		if strings.HasPrefix(key, "acct:") && key[5:] != wt.Wallet {
			if v, err := w.Contract.AwaitDeposit(key[5:]); err == nil {
				d = v
			}
		}
		return new(big.Int).Add(d, credit[key])
	}
	// client connects
	cc, err := w.ConnectClient(client, "geth", "192.0.2.77:1")
	wantRefused := minBal != nil && spendable(clientKey()).Cmp(minBal) < 0
	trace = append(trace, fmt.Sprintf("client connect (trial) -> %v", err))
	if is("C03") && wantRefused != (err != nil) {
		fail("connect-refusal-wrong", map[string]interface{}{"minimum": fmt.Sprint(minBal), "spendable": spendable(clientKey()).String(), "err": fmt.Sprint(err)})
	}
	if err != nil {
		ev.Case(desc+" refused-at-connect", is("C03"))
		return
	}
	infos := []ethnode.PeerInfo{{ID: h1.NodeID}, {ID: h2.NodeID}}
	steps := 4 + r.Intn(6)
	billed := 0
	for s := 0; s < steps && !failed; s++ {
		k := r.Intn(10)
		if useTimelocked && s == 0 {
			k = 5 // link (to the time-locked wallet) ...
		} else if useTimelocked && s == 1 {
			k = 0 // ... and a billed keep-alive right after
		}
		switch {
		case k < 5:
			// billed keep-alive
			n0, gerr := w.RawStore.GetNode(store.NodeID(client.NodeID))
			if gerr != nil {
				return
			}
			elapsed := time.Duration(vlib.Pick(r, 1, 7, 30, 61, 90)) * time.Second
			w.Clock.Set(n0.LastSeen.Add(elapsed))
			per := new(big.Int).Div(new(big.Int).Mul(big.NewInt(int64(elapsed)), price), big.NewInt(int64(time.Minute)))
			resp, uerr := w.Update(cc.AgentSide, client, infos, uint64(s))
			// both hosts are tracked and credited, the client pays for both
			credit["acct:"+wh.Wallet].Add(credit["acct:"+wh.Wallet], per)
			credit["trial:"+h2.NodeID].Add(credit["trial:"+h2.NodeID], per)
			ck := clientKey()
			credit[ck].Sub(credit[ck], new(big.Int).Mul(per, big.NewInt(2)))
			billed++
			after := spendable(ck)
			trace = append(trace, fmt.Sprintf("keep-alive elapsed=%s per-host=%s -> err=%v (spendable after %s)", elapsed, per, uerr, after))
			below := minBal != nil && after.Cmp(minBal) < 0
			if uerr != nil && clientAcct == wt.Wallet && strings.Contains(uerr.Error(), "timelocked") {
				// the balance cannot be reported, but what was billed was billed: the ledger must still add up
				ev.Count("contract-economy-timelocked-keepalives", 1)
				checkLedger("keep-alive-timelocked")
				continue
			}
			if uerr != nil && !strings.Contains(uerr.Error(), "low balance") {
				if is("C02", "C03") {
					fail("keep-alive-failed", map[string]interface{}{"err": uerr.Error()})
				}
				return
			}
			if is("C03") && below != (uerr != nil) {
				fail("cut-off-wrong", map[string]interface{}{"minimum": fmt.Sprint(minBal), "spendable_after_charge": after.String(), "err": fmt.Sprint(uerr)})
			}
			if is("C03") && uerr != nil && !strings.Contains(uerr.Error(), "("+after.String()+")") {
				fail("cut-off-reports-wrong-balance", map[string]interface{}{"err": uerr.Error(), "spendable_after_charge": after.String()})
			}
			if is("C02") && uerr == nil && resp.Balance != nil {
				if got := new(big.Int).Add(&resp.Balance.Credit, &resp.Balance.Deposit); got.Cmp(after) != 0 {
					fail("reply-balance-differs", map[string]interface{}{"reply": got.String(), "expected": after.String()})
				}
			}
			checkLedger("keep-alive")
		case k < 7:
			// the client is (re-)linked to a wallet
			target := wc
			if clientAcct == wc.Wallet || (clientAcct == "" && r.Intn(3) == 0) {
				target = wc2
			}
			if useTimelocked && clientAcct != wt.Wallet && (s == 0 || r.Intn(2) == 0) {
				target = wt
			}
			if clientAcct == target.Wallet {
				continue
			}
			if err := w.Signed(w.Local, target, target.Wallet, "pool_addNode", nil, client.NodeID); err != nil {
				if is("C02") {
					fail("link-failed", map[string]interface{}{"err": err.Error()})
				}
				return
			}
			if clientAcct == "" {
				// the trial balance moves into the wallet
				credit["acct:"+target.Wallet].Add(credit["acct:"+target.Wallet], credit["trial:"+client.NodeID])
			}
			clientAcct = target.Wallet
			trace = append(trace, "client linked to "+target.Name)
			checkLedger("link")
		default:
			// the hosts' wallet withdraws
			key := "acct:" + wh.Wallet
			bal := spendable(key)
			before := len(w.SettleLog())
			werr := w.Signed(w.Local, wh, wh.Wallet, "pool_withdraw", nil)
			log := w.SettleLog()
			eligible := bal.Cmp(big.NewInt(5000)) >= 0
			trace = append(trace, fmt.Sprintf("withdraw hosts' wallet spendable=%s -> err=%v settlements=%d", bal, werr, len(log)-before))
			if eligible && werr == nil {
				settledCredit.Add(settledCredit, credit[key])
				credit[key] = new(big.Int)
			}
			settleFailed := werr != nil && len(log) == before+1 && log[len(log)-1].Err != ""
			if settleFailed {
				// the chain refused the settlement (e.g. the contract cannot cover the payout):
				// nothing is paid and the balance is unchanged
				ev.Count("contract-economy-settlements-refused-by-the-chain", 1)
				if is("C07") {
					if left := spendable(key); left.Cmp(bal) != 0 {
						fail("failed-settlement-changed-balance", map[string]interface{}{"before": bal.String(), "after": left.String(), "err": werr.Error()})
					}
				}
				checkLedger("failed-settlement")
				continue
			}
			if is("C07") {
				switch {
				case eligible && werr != nil:
					fail("eligible-withdrawal-failed", map[string]interface{}{"err": werr.Error(), "spendable": bal.String()})
				case !eligible && (werr == nil || len(log) != before):
					fail("withdrawal-below-minimum-was-executed", map[string]interface{}{"spendable": bal.String(), "settlements": len(log) - before})
				case eligible:
					want := new(big.Int).Sub(bal, fee)
					if len(log) != before+1 || log[len(log)-1].Amount.Cmp(want) != 0 {
						fail("wrong-amount-paid", map[string]interface{}{"spendable": bal.String(), "fee": fee.String(), "want": want.String(), "settlements": fmt.Sprintf("%+v", log[before:])})
					} else if left := spendable(key); left.Sign() != 0 {
						fail("balance-left-after-withdrawal", map[string]interface{}{"left": left.String()})
					} else {
						// the repeat pays nothing
						again := w.Signed(w.Local, wh, wh.Wallet, "pool_withdraw", nil)
						if again == nil || len(w.SettleLog()) != before+1 {
							fail("repeated-withdrawal-paid-again", map[string]interface{}{"err": fmt.Sprint(again), "settlements": fmt.Sprintf("%+v", w.SettleLog()[before:])})
						}
						trace = append(trace, fmt.Sprintf("repeat withdraw -> %v", again))
					}
				}
			}
			checkLedger("withdraw")
		}
	}
	if useTimelocked && !failed && is("C07") {
		// the owner of the time-locked wallet asks the pool for a withdrawal while earnings are
		// booked on that wallet: the deposit cannot be read, so what is owed cannot be
		// established - nothing may be paid and nothing may change
		earned := big.NewInt(int64(20000 + r.Intn(100000)))
		if cur, _ := w.RawStore.GetAccountBalance(store.Account(wt.Wallet)); cur.Credit.Sign() < 0 {
			earned.Sub(earned, &cur.Credit) // what the wallet's client was billed is covered by the earnings
		}
		w.RawStore.AddAccountBalance(store.Account(wt.Wallet), earned)
		stored, _ := w.RawStore.GetAccountBalance(store.Account(wt.Wallet))
		chainBefore, _ := w.Contract.OnChain(wt.Wallet)
		before := len(w.SettleLog())
		werr := w.Signed(w.Local, wt, wt.Wallet, "pool_withdraw", nil)
		log := w.SettleLog()
		storedAfter, _ := w.RawStore.GetAccountBalance(store.Account(wt.Wallet))
		chainAfter, _ := w.Contract.OnChain(wt.Wallet)
		ev.Count("contract-economy-withdrawals-with-unreadable-deposit", 1)
		trace = append(trace, fmt.Sprintf("withdraw time-locked wallet credit=%s -> err=%v settlements=%d", &stored.Credit, werr, len(log)-before))
		paid := []string{}
		for _, e := range log[before:] {
			if e.Err == "" {
				paid = append(paid, e.Amount.String())
			}
		}
		switch {
		case len(paid) > 0:
			fail("paid-although-deposit-unreadable", map[string]interface{}{"paid": paid, "err": fmt.Sprint(werr), "credit": stored.Credit.String()})
		case storedAfter.Credit.Cmp(&stored.Credit) != 0:
			fail("refused-withdrawal-changed-balance", map[string]interface{}{"before": stored.Credit.String(), "after": storedAfter.Credit.String(), "err": fmt.Sprint(werr)})
		case fmt.Sprint(chainBefore) != fmt.Sprint(chainAfter):
			fail("refused-withdrawal-changed-deposit", map[string]interface{}{"before": fmt.Sprint(chainBefore), "after": fmt.Sprint(chainAfter), "err": fmt.Sprint(werr)})
		}
		w.RawStore.AddAccountBalance(store.Account(wt.Wallet), new(big.Int).Neg(earned))
	}
	ev.Case(desc+" "+strings.Join(trace, ";"), billed > 0)
	ev.Count("contract-economy-sessions", 1)
	if useTimelocked && os.Getenv("VERIF_DEBUG_CONTRACT") != "" {
		fmt.Println("DEBUG timelocked:", strings.Join(trace, " | "))
	}
	ev.Count("contract-economy-billed-keepalives", int64(billed))
	if idx == 0 {
		ev.Sample(map[string]interface{}{"layer": "contract-economy", "driver": driver, "trace": trace})
	}
	_ = pool.UpdateRequest{}
}

// contractSnapshots (C10): a balance handed out by the contract-backed store
// is a snapshot. Later chain events for the same wallet (a top-up, a
// settlement) and later store operations must not alter it, and the store
// hands out new values for the new state.
func contractSnapshots(ev *vlib.Evidence, driver string, idx int) {
	r := vlib.Rand("contract-snapshots-"+driver, idx)
	wa := vlib.NewIdentity("cs-wallet", idx%5)
	w, err := vlib.NewWorld(vlib.WorldOptions{Driver: driver, WithPayment: true, Contract: true, ContractWallets: []*vlib.Identity{wa}})
	if err != nil {
		ev.Inconclusive("contract-world")
		return
	}
	defer w.Close()
	acct := store.Account(wa.Wallet)
	d1 := big.NewInt(int64(1000000 + r.Intn(1000000)))
	if err := w.Contract.Deposit(wa, d1); err != nil {
		ev.Inconclusive("deposit")
		return
	}
	if _, err := w.Contract.AwaitDeposit(wa.Wallet); err != nil {
		ev.Inconclusive("deposit-not-visible")
		return
	}
	w.RawStore.AddAccountBalance(acct, big.NewInt(int64(1+r.Intn(5000))))
	held, err := w.Contract.Pay.GetAccountBalance(acct)
	if err != nil {
		ev.Inconclusive("balance")
		return
	}
	wantDeposit, wantCredit := held.Deposit.String(), held.Credit.String()
	desc := fmt.Sprintf("contract-snapshots %s idx=%d", driver, idx)
	ev.Case(desc, true)
	ev.Count("contract-snapshots-held", 1)
	// later: a top-up on chain, more credit in the store, a second top-up
	w.Contract.Deposit(wa, big.NewInt(int64(777+r.Intn(100000))))
	w.Contract.AwaitDeposit(wa.Wallet)
	w.RawStore.AddAccountBalance(acct, big.NewInt(int64(1+r.Intn(5000))))
	w.Contract.Deposit(wa, big.NewInt(31337))
	now, _ := w.Contract.AwaitDeposit(wa.Wallet)
	if held.Deposit.String() != wantDeposit || held.Credit.String() != wantCredit {
		ev.Violate("snapshot-mutated:contract:GetAccountBalance", map[string]interface{}{"case": desc, "held_deposit_was": wantDeposit, "held_deposit_now": held.Deposit.String(), "held_credit_was": wantCredit, "held_credit_now": held.Credit.String()})
		return
	}
	fresh, err := w.Contract.Pay.GetAccountBalance(acct)
	if err == nil && now != nil && fresh.Deposit.Cmp(now) != 0 {
		ev.Violate("contract:balance-does-not-follow-the-chain", map[string]interface{}{"case": desc, "store_reports": fresh.Deposit.String(), "chain_has": now.String()})
	}
}
