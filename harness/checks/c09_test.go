package checks

import (
	"encoding/json"
	"fmt"
	"io"
	"net/http"
	"os"
	"path/filepath"

	"github.com/gorilla/websocket"
	"sort"
	"strings"
	"sync"
	"testing"
	"time"

	"github.com/vipnode/vipnode/v2/pool"
	"verifharness/vlib"
)

// c09Shadow tracks, per host, the connections in registration order.
type c09Shadow struct {
	conns  map[string][]*vlib.Conn // all connections the host ever opened, in order of opening
	last   map[string]*vlib.Conn   // the connection the host most recently registered on
	closed map[int]bool
}

func (s *c09Shadow) latestLive(host string) *vlib.Conn {
	c := s.last[host]
	if c == nil && s.last == nil {
		// registration order = opening order when no re-registration is tracked
		l := s.conns[host]
		if len(l) == 0 {
			return nil
		}
		c = l[len(l)-1]
	}
	if c == nil || s.closed[c.ID] {
		return nil
	}
	return c
}

func (s *c09Shadow) open(host string) []*vlib.Conn {
	out := []*vlib.Conn{}
	for _, c := range s.conns[host] {
		if !s.closed[c.ID] {
			out = append(out, c)
		}
	}
	return out
}

// c09Sequence runs one event sequence; events are "<host>C" (connect on a new
// connection), "<host>O" (close the oldest open connection), "<host>N" (close
// the newest open connection). After every event a probe client asks for
// peers and the callee connections are compared with the shadow registry.
func c09Sequence(ev *vlib.Evidence, driver string, hosts []*vlib.Identity, seq []string) (valid bool) {
	w, err := vlib.NewWorld(vlib.WorldOptions{Driver: driver})
	if err != nil {
		panic(err)
	}
	defer w.Close()
	probe := vlib.NewIdentity("c09probe", 0)
	pc, err := w.ConnectClient(probe, "geth", "192.0.2.250:1")
	if err != nil {
		panic(err)
	}
	sh := &c09Shadow{conns: map[string][]*vlib.Conn{}, last: map[string]*vlib.Conn{}, closed: map[int]bool{}}
	trace := []string{}
	for _, e := range seq {
		hi := int(e[0] - '0')
		h := hosts[hi]
		switch e[1] {
		case 'C':
			c, err := w.ConnectHost(h, "geth", fmt.Sprintf("192.0.2.%d:1", hi+1))
			if err != nil {
				ev.Violate("connect-failed", map[string]interface{}{"err": err.Error(), "sequence": seq})
				return true
			}
			sh.conns[h.NodeID] = append(sh.conns[h.NodeID], c)
			sh.last[h.NodeID] = c
			trace = append(trace, fmt.Sprintf("host%d connects on conn#%d", hi, c.ID))
		case 'S', 'R':
			// register again on an already open connection: S = the newest open one, R = the oldest open one
			open := sh.open(h.NodeID)
			if len(open) == 0 || (e[1] == 'R' && len(open) == 1) {
				return false
			}
			c := open[len(open)-1]
			if e[1] == 'R' {
				c = open[0]
			}
			var resp pool.ConnectResponse
			if err := w.Signed(c.AgentSide, h, h.NodeID, "vipnode_connect", &resp, vlib.ConnectReq(true, "geth", "", "")); err != nil {
				ev.Violate("reconnect-on-open-connection-failed", map[string]interface{}{"err": err.Error(), "sequence": seq})
				return true
			}
			sh.last[h.NodeID] = c
			trace = append(trace, fmt.Sprintf("host%d registers again on conn#%d", hi, c.ID))
		case 'Y':
			// this host registers over the OTHER host's newest open connection (two identities on one socket)
			if len(hosts) < 2 {
				return false
			}
			oh := hosts[1-hi]
			open := sh.open(oh.NodeID)
			if len(open) == 0 {
				return false
			}
			c := open[len(open)-1]
			var resp pool.ConnectResponse
			if err := w.Signed(c.AgentSide, h, h.NodeID, "vipnode_connect", &resp, vlib.ConnectReq(true, "geth", "", "")); err != nil {
				ev.Violate("register-second-identity-failed", map[string]interface{}{"err": err.Error(), "sequence": seq})
				return true
			}
			sh.last[h.NodeID] = c
			trace = append(trace, fmt.Sprintf("host%d registers on conn#%d (opened by host%d)", hi, c.ID, 1-hi))
		case 'O', 'N':
			open := sh.open(h.NodeID)
			if len(open) == 0 {
				return false
			}
			c := open[0]
			if e[1] == 'N' {
				c = open[len(open)-1]
			}
			if len(open) == 1 && e[1] == 'N' {
				return false // same as O: avoid duplicate sequences
			}
			c.Close()
			sh.closed[c.ID] = true
			trace = append(trace, fmt.Sprintf("close conn#%d of host%d", c.ID, hi))
		}
		// probe
		stamp := w.Tick()
		var resp pool.PeerResponse
		perr := w.Signed(pc.AgentSide, probe, probe.NodeID, "vipnode_peer", &resp, pool.PeerRequest{Num: 5})
		// which connections were called (a connection may carry several identities: one call per identity)
		calledConns := map[int]int{}
		for _, ce := range w.EventsSince(stamp) {
			if ce.Method == "whitelist" {
				calledConns[ce.ConnID]++
			}
		}
		wantConns := map[int]int{}
		for _, h2 := range hosts {
			if live := sh.latestLive(h2.NodeID); live != nil {
				wantConns[live.ID]++
			}
		}
		called := map[string][]int{}
		for _, h2 := range hosts {
			if live := sh.latestLive(h2.NodeID); live != nil && calledConns[live.ID] > 0 {
				called[h2.NodeID] = []int{live.ID}
			}
		}
		for id, n := range calledConns {
			if wantConns[id] != n {
				ev.Violate("connection-call-count", map[string]interface{}{"sequence": seq, "trace": trace, "conn": id, "calls": n, "expected": wantConns[id], "probe_err": fmt.Sprint(perr)})
				return true
			}
		}
		wantLive := 0
		for hi2, h2 := range hosts {
			live := sh.latestLive(h2.NodeID)
			got := called[h2.NodeID]
			sort.Ints(got)
			detail := map[string]interface{}{"sequence": seq, "trace": trace, "host": hi2, "called_on": got, "probe_err": fmt.Sprint(perr)}
			if live != nil {
				wantLive++
				detail["expected_conn"] = live.ID
				if len(got) == 0 {
					ev.Violate("live-host-not-called", detail)
					return true
				}
				if len(got) != 1 || got[0] != live.ID {
					ev.Violate("called-on-wrong-connection", detail)
					return true
				}
			} else if len(got) > 0 {
				ev.Violate("called-without-live-registered-connection", detail)
				return true
			}
		}
		if n := w.Pool.NumRemotes(); n != wantLive {
			ev.Violate("numremotes-mismatch", map[string]interface{}{"sequence": seq, "trace": trace, "NumRemotes": n, "expected": wantLive})
			return true
		}
		ev.Count("probes", 1)
	}
	return true
}

func c09Enumerate(alphabet []string, maxLen int, fn func(seq []string)) {
	var rec func(prefix []string)
	rec = func(prefix []string) {
		if len(prefix) > 0 {
			fn(append([]string{}, prefix...))
		}
		if len(prefix) == maxLen {
			return
		}
		for _, a := range alphabet {
			rec(append(prefix, a))
		}
	}
	rec(nil)
}

// c09Racing: closes and reconnects race with in-flight peer requests.
func c09Racing(ev *vlib.Evidence, driver string, idx int) {
	r := vlib.Rand("C09-race-"+driver, idx)
	w, err := vlib.NewWorld(vlib.WorldOptions{Driver: driver})
	if err != nil {
		panic(err)
	}
	defer w.Close()
	nh := 1 + r.Intn(3)
	hosts := []*vlib.Identity{}
	var mu sync.Mutex
	sh := &c09Shadow{conns: map[string][]*vlib.Conn{}, closed: map[int]bool{}}
	sh.last = nil
	closedAt := map[int]int64{} // conn id -> logical stamp after Close returned
	for i := 0; i < nh; i++ {
		h := vlib.NewIdentity("c09rhost", i)
		hosts = append(hosts, h)
		c, err := w.ConnectHost(h, "geth", fmt.Sprintf("192.0.2.%d:1", i+1))
		if err != nil {
			panic(err)
		}
		c.Rec.SetBehaviour(vlib.BehDelay, time.Duration(r.Intn(3))*time.Millisecond)
		sh.conns[h.NodeID] = append(sh.conns[h.NodeID], c)
	}
	probes := 2 + r.Intn(3)
	type reqWindow struct{ start, end int64 }
	windows := []reqWindow{}
	var wg sync.WaitGroup
	for p := 0; p < probes; p++ {
		probe := vlib.NewIdentity("c09rprobe", p)
		pc, err := w.ConnectClient(probe, "geth", "192.0.2.250:1")
		if err != nil {
			panic(err)
		}
		wg.Add(1)
		go func(p int) {
			defer wg.Done()
			for k := 0; k < 4; k++ {
				start := w.Tick()
				var resp pool.PeerResponse
				w.Signed(pc.AgentSide, probe, probe.NodeID, "vipnode_peer", &resp, pool.PeerRequest{Num: 5})
				end := w.Tick()
				mu.Lock()
				windows = append(windows, reqWindow{start, end})
				mu.Unlock()
			}
		}(p)
	}
	// churn
	churnSeeds := make([]int64, nh)
	for i := range churnSeeds {
		churnSeeds[i] = r.Int63()
	}
	for i, h := range hosts {
		wg.Add(1)
		go func(i int, h *vlib.Identity) {
			defer wg.Done()
			rr := vlib.Rand(fmt.Sprintf("C09-churn-%d", churnSeeds[i]), i)
			for k := 0; k < 3+rr.Intn(3); k++ {
				if rr.Intn(2) == 0 {
					c, err := w.ConnectHost(h, "geth", fmt.Sprintf("192.0.2.%d:1", i+1))
					if err == nil {
						c.Rec.SetBehaviour(vlib.BehDelay, time.Duration(rr.Intn(3))*time.Millisecond)
						mu.Lock()
						sh.conns[h.NodeID] = append(sh.conns[h.NodeID], c)
						mu.Unlock()
					}
				} else {
					mu.Lock()
					open := sh.open(h.NodeID)
					mu.Unlock()
					if len(open) == 0 {
						continue
					}
					c := open[rr.Intn(len(open))]
					c.Close()
					st := w.Tick()
					mu.Lock()
					sh.closed[c.ID] = true
					closedAt[c.ID] = st
					mu.Unlock()
				}
			}
		}(i, h)
	}
	wg.Wait()
	desc := fmt.Sprintf("race %s hosts=%d probes=%d", driver, nh, probes)
	// (1) a request that started after a connection's close completed never calls it
	late := 0
	for _, ce := range w.Events() {
		if ce.Method != "whitelist" {
			continue
		}
		ca, ok := closedAt[ce.ConnID]
		if !ok || ce.Start < ca {
			continue
		}
		// the call arrived after the close completed: it must belong to a request that started before
		startedBefore := false
		for _, win := range windows {
			if win.start < ca && win.end > ca {
				startedBefore = true
			}
		}
		if !startedBefore {
			late++
			ev.Violate("racing:called-closed-connection", map[string]interface{}{"case": desc, "conn": ce.ConnID, "closed_at": ca, "call_arrived": ce.Start})
		}
	}
	// (2) at quiescence the registry matches the shadow
	want := 0
	for _, h := range hosts {
		if sh.latestLive(h.NodeID) != nil {
			want++
		}
	}
	if n := w.Pool.NumRemotes(); n != want {
		detail := map[string]interface{}{"case": desc, "NumRemotes": n, "expected": want}
		for i, h := range hosts {
			l := []string{}
			for _, c := range sh.conns[h.NodeID] {
				l = append(l, fmt.Sprintf("#%d closed=%v", c.ID, sh.closed[c.ID]))
			}
			detail[fmt.Sprintf("host%d", i)] = strings.Join(l, " ")
		}
		ev.Violate("racing:numremotes-mismatch-at-quiescence", detail)
	}
	ev.Case(desc+fmt.Sprint(closedAt), len(closedAt) > 0)
	ev.Count("racing-rounds", 1)
}

// c09Binary: the real pool binary; hosts close their WebSocket in different ways.
func c09Binary(ev *vlib.Evidence) {
	bin, err := vlib.BuildVipnode("plain")
	if err != nil {
		fmt.Println("HARNESS-ERROR", err)
		ev.Inconclusive("build")
		return
	}
	dir, _ := os.MkdirTemp("", "verif-c09-")
	defer os.RemoveAll(dir)
	addr := fmt.Sprintf("127.0.0.1:%d", vlib.FreePort())
	p, err := vlib.StartProc(filepath.Join(dir, "pool.log"), []string{"HOME=" + dir}, bin, "pool", "--store=memory", "--bind", addr)
	if err != nil || !p.WaitListening(addr, 20*time.Second) {
		ev.Inconclusive("pool-start")
		return
	}
	defer p.Kill(false)
	nonces := map[string]int64{}
	nonce := func(id string) int64 {
		n := nonces[id]
		if now := time.Now().UnixNano(); n < now {
			n = now
		}
		n += 1000
		nonces[id] = n
		return n
	}
	call := func(c *websocket.Conn, id *vlib.Identity, rpcID int, method string, arg interface{}) (json.RawMessage, string) {
		n := nonce(id.NodeID)
		all, _ := json.Marshal([]interface{}{vlib.RefSign(id.Key, method, id.NodeID, n, arg), id.NodeID, n, arg})
		c.SetWriteDeadline(time.Now().Add(10 * time.Second))
		c.WriteMessage(websocket.TextMessage, []byte(fmt.Sprintf(`{"jsonrpc":"2.0","id":%d,"method":%q,"params":%s}`, rpcID, method, all)))
		for {
			c.SetReadDeadline(time.Now().Add(20 * time.Second))
			_, data, err := c.ReadMessage()
			if err != nil {
				return nil, "read: " + err.Error()
			}
			var m struct {
				ID     json.RawMessage `json:"id"`
				Method string          `json:"method"`
				Result json.RawMessage `json:"result"`
				Error  *struct {
					Message string `json:"message"`
				} `json:"error"`
			}
			json.Unmarshal(data, &m)
			if m.Method != "" {
				// a reverse call from the pool: acknowledge it
				c.WriteMessage(websocket.TextMessage, []byte(fmt.Sprintf(`{"jsonrpc":"2.0","id":%s,"result":null}`, m.ID)))
				continue
			}
			if string(m.ID) == fmt.Sprint(rpcID) {
				if m.Error != nil {
					return nil, m.Error.Message
				}
				return m.Result, ""
			}
		}
	}
	client := vlib.NewIdentity("c09bclient", 0)
	cc, err := wsDial(addr)
	if err != nil {
		ev.Inconclusive("ws-dial")
		return
	}
	defer cc.Close()
	if _, e := call(cc, client, 1, "vipnode_connect", vlib.ConnectReq(false, "geth", "", "")); e != "" {
		ev.Violate("binary:client-connect-failed", map[string]interface{}{"err": e})
		return
	}
	// a host that answers a whitelist call only after the pool gave up on it, then closes:
	// the late reply must not keep the pool from noticing the close
	{
		host := vlib.NewIdentity("c09blate", 0)
		hc, err := wsDial(addr)
		if err == nil {
			if _, e := call(hc, host, 1, "vipnode_connect", vlib.ConnectReq(true, "geth", "", "")); e == "" {
				got := make(chan json.RawMessage, 1)
				go func() {
					hc.SetReadDeadline(time.Now().Add(20 * time.Second))
					_, data, err := hc.ReadMessage()
					if err != nil {
						got <- nil
						return
					}
					var m struct {
						ID json.RawMessage `json:"id"`
					}
					json.Unmarshal(data, &m)
					got <- m.ID
				}()
				// the peer request waits for the pool's own 5 s whitelist timeout
				_, e1 := call(cc, client, 50, "vipnode_peer", pool.PeerRequest{Num: 100})
				if id := <-got; id != nil {
					hc.WriteMessage(websocket.TextMessage, []byte(fmt.Sprintf(`{"jsonrpc":"2.0","id":%s,"result":null}`, id))) // too late
					time.Sleep(100 * time.Millisecond)
				}
				hc.Close()
				time.Sleep(300 * time.Millisecond)
				_, e2 := call(cc, client, 51, "vipnode_peer", pool.PeerRequest{Num: 100})
				ev.Case("binary late-reply-then-close", true)
				ev.Count("binary-close-cycles:late-reply-then-close", 1)
				if strings.Contains(e2, "failed to call") {
					ev.Violate("binary:closed-host-still-called:late-reply-then-close", map[string]interface{}{"first_request_error": e1, "second_request_error": e2})
				}
			} else {
				hc.Close()
			}
		}
	}
	// a full node that "connects" over plain HTTP has no connection the pool could ever call it
	// on: whatever the pool answers, it must not end up with a host it then tries to instruct
	{
		ghost := vlib.NewIdentity("c09bghost", 0)
		n := nonce(ghost.NodeID)
		creq := vlib.ConnectReq(true, "geth", "enode://"+ghost.NodeID+"@203.0.113.77:30303", "")
		all, _ := json.Marshal([]interface{}{vlib.RefSign(ghost.Key, "vipnode_connect", ghost.NodeID, n, creq), ghost.NodeID, n, creq})
		resp, err := (&http.Client{Timeout: 20 * time.Second}).Post("http://"+addr+"/", "application/json", strings.NewReader(fmt.Sprintf(`{"jsonrpc":"2.0","id":1,"method":"vipnode_connect","params":%s}`, all)))
		accepted := false
		if err == nil {
			b, _ := io.ReadAll(resp.Body)
			resp.Body.Close()
			accepted = !strings.Contains(string(b), `"error"`)
		}
		res, e := call(cc, client, 60, "vipnode_peer", pool.PeerRequest{Num: 100})
		ev.Case("binary host-over-http", true)
		ev.Count("binary-host-over-http-attempts", 1)
		if strings.Contains(e, "failed to call") || strings.Contains(string(res), ghost.NodeID) {
			ev.Violate("binary:host-without-a-connection-is-instructed-or-offered", map[string]interface{}{"http_connect_accepted": accepted, "peer_request_error": e, "peer_request_result": truncStr(string(res), 300)})
		}
	}
	modes := []string{"close-frame-1000", "abrupt", "going-away-1001", "close-frame-1008", "null-frame-then-abrupt", "garbage-frame-then-close-frame-1000"}
	for k := 0; k < vlib.Scale(12, 48); k++ {
		mode := modes[k%len(modes)]
		host := vlib.NewIdentity("c09bhost", k)
		hc, err := wsDial(addr)
		if err != nil {
			ev.Inconclusive("ws-dial")
			return
		}
		if _, e := call(hc, host, 1, "vipnode_connect", vlib.ConnectReq(true, "geth", "", "")); e != "" {
			ev.Violate("binary:host-connect-failed", map[string]interface{}{"err": e})
			return
		}
		// positive control: while connected, the host is called and returned
		ack := make(chan struct{})
		go func() {
			defer close(ack)
			hc.SetReadDeadline(time.Now().Add(10 * time.Second))
			_, data, err := hc.ReadMessage()
			if err != nil {
				return
			}
			var m struct {
				ID json.RawMessage `json:"id"`
			}
			json.Unmarshal(data, &m)
			hc.WriteMessage(websocket.TextMessage, []byte(fmt.Sprintf(`{"jsonrpc":"2.0","id":%s,"result":null}`, m.ID)))
		}()
		res, e := call(cc, client, 100+2*k, "vipnode_peer", pool.PeerRequest{Num: 100})
		<-ack
		if e != "" || !strings.Contains(string(res), host.NodeID) {
			ev.Violate("binary:live-host-not-returned", map[string]interface{}{"mode": mode, "err": e, "result": truncStr(string(res), 300)})
		}
		switch mode {
		case "close-frame-1000":
			hc.WriteControl(websocket.CloseMessage, websocket.FormatCloseMessage(websocket.CloseNormalClosure, "bye"), time.Now().Add(time.Second))
			time.Sleep(50 * time.Millisecond)
			hc.Close()
		case "going-away-1001":
			hc.WriteControl(websocket.CloseMessage, websocket.FormatCloseMessage(websocket.CloseGoingAway, ""), time.Now().Add(time.Second))
			time.Sleep(50 * time.Millisecond)
			hc.Close()
		case "close-frame-1008":
			hc.WriteControl(websocket.CloseMessage, websocket.FormatCloseMessage(websocket.ClosePolicyViolation, "x"), time.Now().Add(time.Second))
			time.Sleep(50 * time.Millisecond)
			hc.Close()
		case "null-frame-then-abrupt":
			hc.WriteMessage(websocket.TextMessage, []byte("null"))
			time.Sleep(50 * time.Millisecond)
			hc.UnderlyingConn().Close()
		case "garbage-frame-then-close-frame-1000":
			hc.WriteMessage(websocket.TextMessage, []byte(`[1,{"x":null}]`))
			hc.WriteControl(websocket.CloseMessage, websocket.FormatCloseMessage(websocket.CloseNormalClosure, ""), time.Now().Add(time.Second))
			time.Sleep(50 * time.Millisecond)
			hc.Close()
		default:
			hc.UnderlyingConn().Close()
		}
		// give the pool's serve loop time to end and run its disconnect callback (generous, not a verdict)
		time.Sleep(300 * time.Millisecond)
		_, e = call(cc, client, 101+2*k, "vipnode_peer", pool.PeerRequest{Num: 100})
		ev.Case("binary close mode="+mode+fmt.Sprint(k), true)
		ev.Count("binary-close-cycles:"+mode, 1)
		if strings.Contains(e, "failed to call") {
			ev.Violate("binary:closed-host-still-called:"+mode, map[string]interface{}{"mode": mode, "peer_request_error": e})
		}
	}
}

func TestC09(t *testing.T) {
	ev := vlib.NewEvidence("C09", "exploration",
		"exhaustive enumeration of event sequences (connect on a new connection / register again on the newest open connection / register again on the oldest open connection / register over the other host's connection (two identities on one socket) / close oldest open / close newest open, per host) up to a length bound over 1 and 2 hosts, with a probe peer request after every event: the connection object receiving vipnode_whitelist and NumRemotes are compared with a shadow registry (host -> most recently registered connection, live iff open); connections are closed the way server.go does (serve loop ends, then CloseRemote); a black-box pass against the built `vipnode pool` binary where fake hosts register over WebSocket and then close politely (close frame), abruptly or with going-away, after which a peer request must not attempt to call them (the only place server.go's disconnect callback is exercised); plus racing rounds where closes/reconnects overlap in-flight peer requests (registry vs shadow at quiescence, no call on a connection for a request started after its close); non-trivial = sequence contains a close or a reconnect; distinct = distinct sequences; (faults) whitelist answers slower than the request that set them off, error replies")
	hosts := []*vlib.Identity{vlib.NewIdentity("c09host", 0), vlib.NewIdentity("c09host", 1)}
	driver := vlib.DriverMemory
	len1, len2 := vlib.Scale(5, 6), vlib.Scale(3, 4)
	total := 0
	run := func(alphabet []string, maxLen int) {
		seqs := [][]string{}
		c09Enumerate(alphabet, maxLen, func(seq []string) { seqs = append(seqs, seq) })
		parallelCases(len(seqs), 16, func(i int) {
			seq := seqs[i]
			if !c09Sequence(ev, driver, hosts, seq) {
				return
			}
			nt := false
			connects := map[byte]int{}
			for _, e := range seq {
				if e[1] != 'C' && e[1] != 'S' {
					nt = true
				} else {
					connects[e[0]]++
					if connects[e[0]] > 1 {
						nt = true
					}
				}
			}
			ev.Case(strings.Join(seq, ","), nt)
		})
		total += len(seqs)
	}
	run([]string{"0C", "0O", "0N", "0S", "0R"}, len1)
	run([]string{"0C", "0O", "0N", "0S", "0R", "1C", "1O", "1N", "1S", "1R", "0Y", "1Y"}, len2)
	// beyond the exhaustive bound: a PRNG sample of longer sequences over two hosts
	alpha2 := []string{"0C", "0O", "0N", "0S", "0R", "1C", "1O", "1N", "1S", "1R", "0Y", "1Y"}
	nLong := vlib.Scale(1200, 20000)
	parallelCases(nLong, 16, func(i int) {
		r := vlib.Rand("C09-long", i)
		seq := []string{vlib.Pick(r, "0C", "1C")}
		for len(seq) < 5+r.Intn(6) {
			seq = append(seq, alpha2[r.Intn(len(alpha2))])
		}
		// drop events that are not applicable instead of discarding the whole sequence
		for len(seq) > 0 && !c09Sequence(ev, driver, hosts, seq) {
			seq = seq[:len(seq)-1]
		}
		if len(seq) > 0 {
			ev.Case("long:"+strings.Join(seq, ","), true)
			ev.Count("sampled-long-sequences", 1)
		}
	})
	ev.Note("enumerated_sequences_including_invalid", total)
	ev.Note("bounds", fmt.Sprintf("1 host: length<=%d; 2 hosts: length<=%d", len1, len2))
	ev.Exhaustive()
	ev.Sample(map[string]interface{}{"sequence": []string{"0C", "0C", "0O"}, "meaning": "host0 connects, reconnects on a new connection, its old connection closes; probe after each event"})
	c09Binary(ev)
	for _, d := range vlib.Drivers() {
		d := d
		parallelCases(vlib.Scale(60, 1500), 16, func(i int) { c09Racing(ev, d, i) })
	}
	c09Churn(ev, vlib.DriverMemory)
	for _, d := range vlib.Drivers() {
		d := d
		parallelCases(vlib.Scale(24, 400), 12, func(i int) { c09SlowHostStaysRegistered(ev, d, i) })
	}
	finish(t, ev)
}
