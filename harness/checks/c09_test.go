package checks

import (
	"fmt"
	"sort"
	"strings"
	"sync"
	"testing"
	"time"

	"github.com/vipnode/vipnode/v2/pool"
	"verifharness/vlib"
)

// c09Shadow tracks, per host, the connections in registration order.
type c09Shadow struct {
	conns  map[string][]*vlib.Conn // all connections the host registered on, in order
	closed map[int]bool
}

func (s *c09Shadow) latestLive(host string) *vlib.Conn {
	l := s.conns[host]
	if len(l) == 0 {
		return nil
	}
	c := l[len(l)-1]
	if s.closed[c.ID] {
		return nil
	}
	return c
}

func (s *c09Shadow) open(host string) []*vlib.Conn {
	out := []*vlib.Conn{}
	for _, c := range s.conns[host] {
		if !s.closed[c.ID] {
			out = append(out, c)
		}
	}
	return out
}

// c09Sequence runs one event sequence; events are "<host>C" (connect on a new
// connection), "<host>O" (close the oldest open connection), "<host>N" (close
// the newest open connection). After every event a probe client asks for
// peers and the callee connections are compared with the shadow registry.
func c09Sequence(ev *vlib.Evidence, driver string, hosts []*vlib.Identity, seq []string) (valid bool) {
	w, err := vlib.NewWorld(vlib.WorldOptions{Driver: driver})
	if err != nil {
		panic(err)
	}
	defer w.Close()
	probe := vlib.NewIdentity("c09probe", 0)
	pc, err := w.ConnectClient(probe, "geth", "192.0.2.250:1")
	if err != nil {
		panic(err)
	}
	sh := &c09Shadow{conns: map[string][]*vlib.Conn{}, closed: map[int]bool{}}
	trace := []string{}
	for _, e := range seq {
		hi := int(e[0] - '0')
		h := hosts[hi]
		switch e[1] {
		case 'C':
			c, err := w.ConnectHost(h, "geth", fmt.Sprintf("192.0.2.%d:1", hi+1))
			if err != nil {
				ev.Violate("connect-failed", map[string]interface{}{"err": err.Error(), "sequence": seq})
				return true
			}
			sh.conns[h.NodeID] = append(sh.conns[h.NodeID], c)
			trace = append(trace, fmt.Sprintf("host%d connects on conn#%d", hi, c.ID))
		case 'O', 'N':
			open := sh.open(h.NodeID)
			if len(open) == 0 {
				return false
			}
			c := open[0]
			if e[1] == 'N' {
				c = open[len(open)-1]
			}
			if len(open) == 1 && e[1] == 'N' {
				return false // same as O: avoid duplicate sequences
			}
			c.Close()
			sh.closed[c.ID] = true
			trace = append(trace, fmt.Sprintf("close conn#%d of host%d", c.ID, hi))
		}
		// probe
		stamp := w.Tick()
		var resp pool.PeerResponse
		perr := w.Signed(pc.AgentSide, probe, probe.NodeID, "vipnode_peer", &resp, pool.PeerRequest{Num: 5})
		called := map[string][]int{}
		for _, ce := range w.EventsSince(stamp) {
			if ce.Method == "whitelist" {
				called[ce.Host] = append(called[ce.Host], ce.ConnID)
			}
		}
		wantLive := 0
		for hi2, h2 := range hosts {
			live := sh.latestLive(h2.NodeID)
			got := called[h2.NodeID]
			sort.Ints(got)
			detail := map[string]interface{}{"sequence": seq, "trace": trace, "host": hi2, "called_on": got, "probe_err": fmt.Sprint(perr)}
			if live != nil {
				wantLive++
				detail["expected_conn"] = live.ID
				if len(got) == 0 {
					ev.Violate("live-host-not-called", detail)
					return true
				}
				if len(got) != 1 || got[0] != live.ID {
					ev.Violate("called-on-wrong-connection", detail)
					return true
				}
			} else if len(got) > 0 {
				ev.Violate("called-without-live-registered-connection", detail)
				return true
			}
		}
		if n := w.Pool.NumRemotes(); n != wantLive {
			ev.Violate("numremotes-mismatch", map[string]interface{}{"sequence": seq, "trace": trace, "NumRemotes": n, "expected": wantLive})
			return true
		}
		ev.Count("probes", 1)
	}
	return true
}

func c09Enumerate(alphabet []string, maxLen int, fn func(seq []string)) {
	var rec func(prefix []string)
	rec = func(prefix []string) {
		if len(prefix) > 0 {
			fn(append([]string{}, prefix...))
		}
		if len(prefix) == maxLen {
			return
		}
		for _, a := range alphabet {
			rec(append(prefix, a))
		}
	}
	rec(nil)
}

// c09Racing: closes and reconnects race with in-flight peer requests.
func c09Racing(ev *vlib.Evidence, driver string, idx int) {
	r := vlib.Rand("C09-race-"+driver, idx)
	w, err := vlib.NewWorld(vlib.WorldOptions{Driver: driver})
	if err != nil {
		panic(err)
	}
	defer w.Close()
	nh := 1 + r.Intn(3)
	hosts := []*vlib.Identity{}
	var mu sync.Mutex
	sh := &c09Shadow{conns: map[string][]*vlib.Conn{}, closed: map[int]bool{}}
	closedAt := map[int]int64{} // conn id -> logical stamp after Close returned
	for i := 0; i < nh; i++ {
		h := vlib.NewIdentity("c09rhost", i)
		hosts = append(hosts, h)
		c, err := w.ConnectHost(h, "geth", fmt.Sprintf("192.0.2.%d:1", i+1))
		if err != nil {
			panic(err)
		}
		c.Rec.SetBehaviour(vlib.BehDelay, time.Duration(r.Intn(3))*time.Millisecond)
		sh.conns[h.NodeID] = append(sh.conns[h.NodeID], c)
	}
	probes := 2 + r.Intn(3)
	type reqWindow struct{ start, end int64 }
	windows := []reqWindow{}
	var wg sync.WaitGroup
	for p := 0; p < probes; p++ {
		probe := vlib.NewIdentity("c09rprobe", p)
		pc, err := w.ConnectClient(probe, "geth", "192.0.2.250:1")
		if err != nil {
			panic(err)
		}
		wg.Add(1)
		go func(p int) {
			defer wg.Done()
			for k := 0; k < 4; k++ {
				start := w.Tick()
				var resp pool.PeerResponse
				w.Signed(pc.AgentSide, probe, probe.NodeID, "vipnode_peer", &resp, pool.PeerRequest{Num: 5})
				end := w.Tick()
				mu.Lock()
				windows = append(windows, reqWindow{start, end})
				mu.Unlock()
			}
		}(p)
	}
	// churn
	churnSeeds := make([]int64, nh)
	for i := range churnSeeds {
		churnSeeds[i] = r.Int63()
	}
	for i, h := range hosts {
		wg.Add(1)
		go func(i int, h *vlib.Identity) {
			defer wg.Done()
			rr := vlib.Rand(fmt.Sprintf("C09-churn-%d", churnSeeds[i]), i)
			for k := 0; k < 3+rr.Intn(3); k++ {
				if rr.Intn(2) == 0 {
					c, err := w.ConnectHost(h, "geth", fmt.Sprintf("192.0.2.%d:1", i+1))
					if err == nil {
						c.Rec.SetBehaviour(vlib.BehDelay, time.Duration(rr.Intn(3))*time.Millisecond)
						mu.Lock()
						sh.conns[h.NodeID] = append(sh.conns[h.NodeID], c)
						mu.Unlock()
					}
				} else {
					mu.Lock()
					open := sh.open(h.NodeID)
					mu.Unlock()
					if len(open) == 0 {
						continue
					}
					c := open[rr.Intn(len(open))]
					c.Close()
					st := w.Tick()
					mu.Lock()
					sh.closed[c.ID] = true
					closedAt[c.ID] = st
					mu.Unlock()
				}
			}
		}(i, h)
	}
	wg.Wait()
	desc := fmt.Sprintf("race %s hosts=%d probes=%d", driver, nh, probes)
	// (1) a request that started after a connection's close completed never calls it
	late := 0
	for _, ce := range w.Events() {
		if ce.Method != "whitelist" {
			continue
		}
		ca, ok := closedAt[ce.ConnID]
		if !ok || ce.Start < ca {
			continue
		}
		// the call arrived after the close completed: it must belong to a request that started before
		startedBefore := false
		for _, win := range windows {
			if win.start < ca && win.end > ca {
				startedBefore = true
			}
		}
		if !startedBefore {
			late++
			ev.Violate("racing:called-closed-connection", map[string]interface{}{"case": desc, "conn": ce.ConnID, "closed_at": ca, "call_arrived": ce.Start})
		}
	}
	// (2) at quiescence the registry matches the shadow
	want := 0
	for _, h := range hosts {
		if sh.latestLive(h.NodeID) != nil {
			want++
		}
	}
	if n := w.Pool.NumRemotes(); n != want {
		detail := map[string]interface{}{"case": desc, "NumRemotes": n, "expected": want}
		for i, h := range hosts {
			l := []string{}
			for _, c := range sh.conns[h.NodeID] {
				l = append(l, fmt.Sprintf("#%d closed=%v", c.ID, sh.closed[c.ID]))
			}
			detail[fmt.Sprintf("host%d", i)] = strings.Join(l, " ")
		}
		ev.Violate("racing:numremotes-mismatch-at-quiescence", detail)
	}
	ev.Case(desc+fmt.Sprint(closedAt), len(closedAt) > 0)
	ev.Count("racing-rounds", 1)
}

func TestC09(t *testing.T) {
	ev := vlib.NewEvidence("C09", "exploration",
		"exhaustive enumeration of event sequences (connect on a new connection / close oldest open / close newest open, per host) up to a length bound over 1 and 2 hosts, with a probe peer request after every event: the connection object receiving vipnode_whitelist and NumRemotes are compared with a shadow registry (host -> most recently registered connection, live iff open); connections are closed the way server.go does (serve loop ends, then CloseRemote); plus racing rounds where closes/reconnects overlap in-flight peer requests (registry vs shadow at quiescence, no call on a connection for a request started after its close); non-trivial = sequence contains a close or a reconnect; distinct = distinct sequences")
	hosts := []*vlib.Identity{vlib.NewIdentity("c09host", 0), vlib.NewIdentity("c09host", 1)}
	driver := vlib.DriverMemory
	len1, len2 := vlib.Scale(6, 7), vlib.Scale(4, 5)
	total := 0
	run := func(alphabet []string, maxLen int) {
		seqs := [][]string{}
		c09Enumerate(alphabet, maxLen, func(seq []string) { seqs = append(seqs, seq) })
		parallelCases(len(seqs), 16, func(i int) {
			seq := seqs[i]
			if !c09Sequence(ev, driver, hosts, seq) {
				return
			}
			nt := false
			connects := map[byte]int{}
			for _, e := range seq {
				if e[1] != 'C' {
					nt = true
				} else {
					connects[e[0]]++
					if connects[e[0]] > 1 {
						nt = true
					}
				}
			}
			ev.Case(strings.Join(seq, ","), nt)
		})
		total += len(seqs)
	}
	run([]string{"0C", "0O", "0N"}, len1)
	run([]string{"0C", "0O", "0N", "1C", "1O", "1N"}, len2)
	ev.Note("enumerated_sequences_including_invalid", total)
	ev.Note("bounds", fmt.Sprintf("1 host: length<=%d; 2 hosts: length<=%d", len1, len2))
	ev.Exhaustive()
	ev.Sample(map[string]interface{}{"sequence": []string{"0C", "0C", "0O"}, "meaning": "host0 connects, reconnects on a new connection, its old connection closes; probe after each event"})
	for _, d := range vlib.Drivers() {
		d := d
		parallelCases(vlib.Scale(60, 1500), 16, func(i int) { c09Racing(ev, d, i) })
	}
	finish(t, ev)
}
