package checks

import (
	"fmt"
	"math/big"
	"sort"
	"strings"
	"time"

	"github.com/vipnode/vipnode/v2/agent"
	"github.com/vipnode/vipnode/v2/ethnode"
	"github.com/vipnode/vipnode/v2/pool"
	"github.com/vipnode/vipnode/v2/pool/store"
	"verifharness/vlib"
)

// Volume cases: one large population per check, beyond the sizes of the
// random cases (tables, caches, buffers and fan-outs have thresholds in the
// dozens to low thousands that a production day reaches and a small case
// never does). Each is a single deterministic case per driver.

// c01ManyTrialNodes (C01): more than a thousand nodes on trial balances, each
// client billed once for its host: the ledger stays zero-sum.
func c01ManyTrialNodes(ev *vlib.Evidence, driver string) {
	n := vlib.Scale(1100, 2600)
	w, err := vlib.NewWorld(vlib.WorldOptions{Driver: driver, Price: big.NewInt(60000), Interval: time.Minute})
	if err != nil {
		panic(err)
	}
	defer w.Close()
	for i := 0; i < n; i++ {
		h := vlib.NewIdentity("vol-host", i)
		c := vlib.NewIdentity("vol-client", i)
		if _, err := w.ConnectHost(h, "geth", fmt.Sprintf("192.0.%d.%d:30303", 2+i/250, 1+i%250)); err != nil {
			ev.Violate("volume:connect-failed", map[string]interface{}{"driver": driver, "i": i, "err": err.Error()})
			return
		}
		cc, err := w.ConnectClient(c, "geth", "192.0.2.9:1")
		if err != nil {
			ev.Violate("volume:connect-failed", map[string]interface{}{"driver": driver, "i": i, "err": err.Error()})
			return
		}
		n0, _ := w.RawStore.GetNode(store.NodeID(c.NodeID))
		w.Clock.Set(n0.LastSeen.Add(61 * time.Second))
		if _, err := w.Update(cc.AgentSide, c, []ethnode.PeerInfo{{ID: h.NodeID}}, 1); err != nil {
			ev.Violate("volume:update-failed", map[string]interface{}{"driver": driver, "i": i, "err": err.Error()})
			return
		}
		if i%100 == 99 || i == n-1 {
			st, err := w.RawStore.Stats()
			if err != nil {
				continue
			}
			if st.TotalCredit.Sign() != 0 {
				ev.Case(fmt.Sprintf("volume many-trial-nodes %s n=%d", driver, n), true)
				ev.Violate("volume:"+driver+":not-zero-sum-with-many-trial-balances", map[string]interface{}{"driver": driver, "billed_clients": i + 1, "sum_of_credit": st.TotalCredit.String(), "trial_balances": st.NumTrialBalances})
				return
			}
		}
	}
	ev.Case(fmt.Sprintf("volume many-trial-nodes %s n=%d", driver, n), true)
	ev.Count("volume-trial-nodes-billed", int64(n))
}

// c03ManyHostsCutOff (C03): a client peering with many connected hosts is cut
// off: every one of them is asked to disconnect it.
func c03ManyHostsCutOff(ev *vlib.Evidence, driver string, nh int) {
	w, err := vlib.NewWorld(vlib.WorldOptions{Driver: driver, Price: big.NewInt(60000), Interval: time.Minute, MinBalance: big.NewInt(0)})
	if err != nil {
		panic(err)
	}
	defer w.Close()
	infos := []ethnode.PeerInfo{}
	ids := []string{}
	for i := 0; i < nh; i++ {
		h := vlib.NewIdentity("vol-cutoff-host", i)
		if _, err := w.ConnectHost(h, "geth", fmt.Sprintf("192.0.2.%d:30303", 1+i%250)); err != nil {
			ev.Violate("volume:connect-failed", map[string]interface{}{"driver": driver, "err": err.Error()})
			return
		}
		infos = append(infos, ethnode.PeerInfo{ID: h.NodeID})
		ids = append(ids, h.NodeID)
	}
	c := vlib.NewIdentity("vol-cutoff-client", nh)
	cc, err := w.ConnectClient(c, "geth", "192.0.2.9:1")
	if err != nil {
		ev.Violate("volume:connect-failed", map[string]interface{}{"driver": driver, "err": err.Error()})
		return
	}
	n0, _ := w.RawStore.GetNode(store.NodeID(c.NodeID))
	w.Clock.Set(n0.LastSeen.Add(61 * time.Second))
	start := w.Tick()
	_, uerr := w.Update(cc.AgentSide, c, infos, 1)
	ev.Case(fmt.Sprintf("volume cut-off with %d hosts %s", nh, driver), true)
	ev.Count("volume-cut-off-hosts", int64(nh))
	if uerr == nil || !strings.Contains(uerr.Error(), "low balance") {
		ev.Violate("volume:cut-off-expected", map[string]interface{}{"driver": driver, "hosts": nh, "err": fmt.Sprint(uerr)})
		return
	}
	asked := map[string]bool{}
	for _, e := range w.EventsSince(start) {
		if e.Method == "disconnect" && e.Arg == c.NodeID {
			asked[e.Host] = true
		}
	}
	missing := 0
	for _, id := range ids {
		if !asked[id] {
			missing++
		}
	}
	if missing > 0 {
		ev.Violate("volume:update:disconnect-not-sent-to-every-host", map[string]interface{}{"driver": driver, "hosts": nh, "hosts_not_asked": missing})
	}
}

// c08ManyHosts (C08): a hundred healthy hosts, a request for all of them.
func c08ManyHosts(ev *vlib.Evidence, driver string, nh int) {
	w, err := vlib.NewWorld(vlib.WorldOptions{Driver: driver})
	if err != nil {
		panic(err)
	}
	defer w.Close()
	for i := 0; i < nh; i++ {
		h := vlib.NewIdentity("vol-peer-host", i)
		if _, err := w.ConnectHost(h, "geth", fmt.Sprintf("192.0.2.%d:30303", 1+i%250)); err != nil {
			ev.Violate("volume:connect-failed", map[string]interface{}{"driver": driver, "err": err.Error()})
			return
		}
	}
	c := vlib.NewIdentity("vol-peer-client", nh)
	cc, err := w.ConnectClient(c, "geth", "192.0.2.9:1")
	if err != nil {
		ev.Violate("volume:connect-failed", map[string]interface{}{"driver": driver, "err": err.Error()})
		return
	}
	var resp pool.PeerResponse
	err = w.Signed(cc.AgentSide, c, c.NodeID, "vipnode_peer", &resp, pool.PeerRequest{Num: nh})
	ev.Case(fmt.Sprintf("volume peer request for %d of %d hosts %s", nh, nh, driver), true)
	ev.Count("volume-peer-request-hosts", int64(nh))
	seen := map[string]bool{}
	for _, p := range resp.Peers {
		seen[string(p.ID)] = true
	}
	if err != nil || len(seen) != nh {
		ev.Violate("volume:fewer-hosts-than-available", map[string]interface{}{"driver": driver, "healthy_hosts": nh, "requested": nh, "returned": len(seen), "err": fmt.Sprint(err)})
	}
}

// c11ManyPeers (C11): one node reporting several hundred registered peers,
// some of them stale: all live ones are tracked, exactly the stale ones are
// declared invalid.
func c11ManyPeers(ev *vlib.Evidence, driver string, live, dead int) {
	s, cleanup, err := vlib.OpenStore(driver)
	if err != nil {
		panic(err)
	}
	defer cleanup()
	now := time.Now()
	s.SetNode(store.Node{ID: "vol-observer", LastSeen: now})
	report := []string{}
	wantDead := []string{}
	for i := 0; i < live+dead; i++ {
		id := fmt.Sprintf("vol-peer-%04d", i)
		seen := now
		if i >= live {
			seen = now.Add(-10 * time.Minute)
			wantDead = append(wantDead, id)
		}
		s.SetNode(store.Node{ID: store.NodeID(id), IsHost: true, LastSeen: seen})
		report = append(report, id)
	}
	inactive, err := s.UpdateNodePeers("vol-observer", report, 1)
	ev.Case(fmt.Sprintf("volume %d live + %d dead peers %s", live, dead, driver), true)
	ev.Count("volume-peers-reported", int64(live+dead))
	got := []string{}
	for _, id := range inactive {
		got = append(got, string(id))
	}
	sort.Strings(got)
	peers, perr := s.NodePeers("vol-observer")
	if err != nil || perr != nil || strings.Join(got, ",") != strings.Join(wantDead, ",") || len(peers) != live {
		ev.Violate("volume:"+driver+":many-peers", map[string]interface{}{"driver": driver, "reported_live": live, "reported_dead": dead, "declared_invalid": len(got), "tracked_afterwards": len(peers), "err": fmt.Sprint(err, perr)})
	}
}

// c10HotKey (C10): many agents crediting the same node at the same moment.
// Every call that returns nil is in the balance afterwards, and no call fails
// because of the other writers (the persistent driver's optimistic transactions
// conflict again and again here).
func c10HotKey(ev *vlib.Evidence, driver string, s store.Store, writers, per int) {
	node := store.NodeID(fmt.Sprintf("vol-hot-%d", writers))
	s.SetNode(store.Node{ID: node, LastSeen: time.Now()})
	type res struct {
		acked *big.Int
		errs  map[string]int
	}
	out := make(chan res, writers)
	start := make(chan struct{})
	for g := 0; g < writers; g++ {
		go func(g int) {
			r := res{acked: new(big.Int), errs: map[string]int{}}
			<-start
			for k := 0; k < per; k++ {
				d := big.NewInt(int64(1 + g))
				if err := s.AddNodeBalance(node, d); err != nil {
					r.errs[err.Error()]++
				} else {
					r.acked.Add(r.acked, d)
				}
			}
			out <- r
		}(g)
	}
	close(start)
	want := new(big.Int)
	errs := map[string]int{}
	for g := 0; g < writers; g++ {
		r := <-out
		want.Add(want, r.acked)
		for k, v := range r.errs {
			errs[k] += v
		}
	}
	b, _ := s.GetNodeBalance(node)
	ev.Case(fmt.Sprintf("volume hot key %s writers=%d per=%d", driver, writers, per), true)
	ev.Count("volume-hot-key-adds", int64(writers*per))
	if len(errs) > 0 {
		ev.Violate("store:"+driver+":conflict-error", map[string]interface{}{"case": "hot key", "writers": writers, "errors": errs})
	}
	if b.Credit.Cmp(want) != 0 {
		ev.Violate("store:"+driver+":lost-update:hot-key", map[string]interface{}{"writers": writers, "sum_of_acknowledged_adds": want.String(), "balance": b.Credit.String()})
	}
}

// c04ManyIdentities (C04): well over a thousand distinct node ids are verified
// by one pool; afterwards the early ones' own requests still verify and
// requests naming them but signed by later ones are still refused.
func c04ManyIdentities(ev *vlib.Evidence, driver string) {
	n := vlib.Scale(1500, 3000)
	w, err := vlib.NewWorld(vlib.WorldOptions{Driver: driver})
	if err != nil {
		panic(err)
	}
	defer w.Close()
	req := vlib.ConnectReq(false, "geth", "", "")
	ids := make([]*vlib.Identity, n)
	for i := range ids {
		ids[i] = vlib.NewIdentity("vol-verify", i)
		nn := w.NextNonce(ids[i].NodeID)
		out := guardedCall(w.Local, "vipnode_connect", vlib.RefSign(ids[i].Key, "vipnode_connect", ids[i].NodeID, nn, req), ids[i].NodeID, nn, req)
		if !out.Accepted {
			ev.Case("volume many identities "+driver, true)
			ev.Violate("volume:valid-request-refused:vipnode_connect", map[string]interface{}{"driver": driver, "identity_number": i, "err": fmt.Sprint(out.Err), "panic": out.Panic})
			return
		}
	}
	ev.Case(fmt.Sprintf("volume many identities %s n=%d", driver, n), true)
	ev.Count("volume-identities-verified", int64(n))
	forgedAccepted, ownRefused := 0, 0
	for i := 0; i < n; i += 7 {
		victim := ids[i]
		for _, off := range []int{1, 512, 1024, 2048} {
			forger := ids[(i+off)%n]
			if forger == victim {
				continue
			}
			nn := w.NextNonce(victim.NodeID)
			if out := guardedCall(w.Local, "vipnode_connect", vlib.RefSign(forger.Key, "vipnode_connect", victim.NodeID, nn, req), victim.NodeID, nn, req); !out.Verify {
				forgedAccepted++
			}
		}
		nn := w.NextNonce(victim.NodeID)
		if out := guardedCall(w.Local, "vipnode_connect", vlib.RefSign(victim.Key, "vipnode_connect", victim.NodeID, nn, req), victim.NodeID, nn, req); !out.Accepted {
			ownRefused++
		}
	}
	if forgedAccepted > 0 || ownRefused > 0 {
		ev.Violate("volume:altered-request-not-refused:key-of-another-identity", map[string]interface{}{"driver": driver, "identities": n, "requests_signed_by_another_identity_accepted": forgedAccepted, "own_requests_refused": ownRefused})
	}
}

// c06ManyRefusals (C06): hundreds of refused requests in an identity's name,
// one after the other and several at once, interleaved with the owner's own
// requests: every one of the owner's requests is still accepted.
func c06ManyRefusals(ev *vlib.Evidence, driver string) {
	w, err := vlib.NewWorld(vlib.WorldOptions{Driver: driver})
	if err != nil {
		panic(err)
	}
	defer w.Close()
	owner := vlib.NewIdentity("vol-refusals-owner", 0)
	attacker := vlib.NewIdentity("vol-refusals-attacker", 0)
	req := vlib.ConnectReq(false, "geth", "", "")
	own := func() bool {
		nn := w.NextNonce(owner.NodeID)
		return guardedCall(w.Local, "vipnode_connect", vlib.RefSign(owner.Key, "vipnode_connect", owner.NodeID, nn, req), owner.NodeID, nn, req).Accepted
	}
	forged := func(k int) {
		nn := time.Now().UnixNano() + int64(time.Minute) + int64(k)
		guardedCall(w.Local, "vipnode_connect", vlib.RefSign(attacker.Key, "vipnode_connect", owner.NodeID, nn, req), owner.NodeID, nn, req)
	}
	ev.Case("volume many refusals "+driver, true)
	if !own() {
		ev.Violate("volume:own-request-refused", map[string]interface{}{"driver": driver, "after_refused_requests": 0})
		return
	}
	n := vlib.Scale(450, 2000)
	for k := 0; k < n; k++ {
		forged(k)
		if k%150 == 149 || k == n-1 {
			if !own() {
				ev.Violate("volume:own-request-refused-after-many-refused-ones", map[string]interface{}{"driver": driver, "after_refused_requests": k + 1})
				return
			}
		}
	}
	ev.Count("volume-refused-requests", int64(n))
	// several forged requests in flight at once (large parameters stretch the verification), the owner in between
	big := vlib.ConnectReq(false, "geth", "", strings.Repeat("p", 4<<20))
	done := make(chan struct{})
	for g := 0; g < 6; g++ {
		go func(g int) {
			defer func() { done <- struct{}{} }()
			for k := 0; k < 4; k++ {
				nn := time.Now().UnixNano() + int64(time.Minute) + int64(g*1000+k)
				guardedCall(w.Local, "vipnode_connect", vlib.RefSign(attacker.Key, "vipnode_connect", owner.NodeID, nn, req), owner.NodeID, nn, big)
			}
		}(g)
	}
	ownRefusedDuring := 0
	for k := 0; k < 12; k++ {
		if !own() {
			ownRefusedDuring++
		}
		time.Sleep(3 * time.Millisecond)
	}
	for g := 0; g < 6; g++ {
		<-done
	}
	ownAfter := own()
	if ownRefusedDuring > 0 || !ownAfter {
		ev.Violate("volume:own-request-refused-while-refused-ones-overlap", map[string]interface{}{"driver": driver, "own_requests_refused_during": ownRefusedDuring, "own_request_accepted_afterwards": ownAfter})
	}
}

// c09Churn (C09): hundreds of hosts come and go, some reconnect on a new
// connection before their old one closes; the count of connected hosts is the
// number of hosts with a live registered connection at every checkpoint.
func c09Churn(ev *vlib.Evidence, driver string) {
	w, err := vlib.NewWorld(vlib.WorldOptions{Driver: driver})
	if err != nil {
		panic(err)
	}
	defer w.Close()
	r := vlib.Rand("C09-churn-"+driver, 0)
	n := vlib.Scale(4000, 12000)
	const nHosts = 300
	live := map[int]*vlib.Conn{} // host -> the connection it registered on most recently, if still open
	leftover := []*vlib.Conn{}   // connections a host has moved away from, still open
	unregistered := 0
	ev.Case(fmt.Sprintf("volume churn %s n=%d", driver, n), true)
	for i := 0; i < n; i++ {
		hi := r.Intn(nHosts)
		h := vlib.NewIdentity("vol-churn-host", hi)
		switch lc := live[hi]; {
		case lc == nil || r.Intn(2) == 0:
			c, err := w.ConnectHost(h, "geth", fmt.Sprintf("192.0.2.%d:30303", 1+i%250))
			if err != nil {
				ev.Violate("volume:connect-failed", map[string]interface{}{"driver": driver, "i": i, "err": err.Error()})
				return
			}
			if lc != nil {
				leftover = append(leftover, lc) // the old connection stays open for now
			}
			live[hi] = c
		default:
			lc.Close() // the host goes away
			delete(live, hi)
			unregistered++
		}
		if len(leftover) > 0 && r.Intn(2) == 0 {
			k := r.Intn(len(leftover))
			leftover[k].Close()
			leftover = append(leftover[:k], leftover[k+1:]...)
		}
		if got := w.Pool.NumRemotes(); got != len(live) {
			ev.Violate("volume:numremotes-mismatch", map[string]interface{}{"driver": driver, "after_events": i + 1, "hosts_unregistered_so_far": unregistered, "numremotes": got, "hosts_with_a_live_registered_connection": len(live)})
			return
		}
	}
	ev.Count("volume-churn-events", int64(n))
	ev.Count("volume-churn-unregistrations", int64(unregistered))
}

// c19ManyHosts (C19): many hundreds of hosts register, the early ones
// reconnect: each is stored under its own id and its own address.
func c19ManyHosts(ev *vlib.Evidence, driver string) {
	w, err := vlib.NewWorld(vlib.WorldOptions{Driver: driver})
	if err != nil {
		panic(err)
	}
	defer w.Close()
	n := vlib.Scale(700, 1500)
	addr := func(i int) string { return fmt.Sprintf("198.51.%d.%d", 100+i/250, 1+i%250) }
	conns := make([]*vlib.Conn, n)
	for i := 0; i < n; i++ {
		h := vlib.NewIdentity("vol-uri-host", i)
		c, err := w.ConnectHost(h, "geth", addr(i)+":40000")
		if err != nil {
			ev.Violate("volume:connect-failed", map[string]interface{}{"driver": driver, "i": i, "err": err.Error()})
			return
		}
		conns[i] = c
	}
	ev.Case(fmt.Sprintf("volume many host uris %s n=%d", driver, n), true)
	ev.Count("volume-host-uris", int64(n))
	bad := []string{}
	for i := 0; i < 40; i++ {
		h := vlib.NewIdentity("vol-uri-host", i)
		conns[i].Close()
		if _, err := w.ConnectHost(h, "geth", addr(i)+":40001"); err != nil {
			bad = append(bad, fmt.Sprintf("host %d: reconnect refused: %v", i, err))
			continue
		}
		st, err := w.RawStore.GetNode(store.NodeID(h.NodeID))
		if err != nil {
			bad = append(bad, fmt.Sprintf("host %d: not stored", i))
			continue
		}
		pu, perr := ethnode.ParseNodeURI(st.URI)
		if perr != nil || pu.ID() != h.NodeID || !strings.HasPrefix(pu.Host, addr(i)+":") {
			bad = append(bad, fmt.Sprintf("host %d stored as %s", i, strings.Replace(st.URI, h.NodeID, "<own-id>", 1)))
		}
	}
	if len(bad) > 0 {
		if len(bad) > 5 {
			bad = bad[:5]
		}
		ev.Violate("volume:reconnect-after-many-registrations:stale-or-wrong-uri", map[string]interface{}{"driver": driver, "registrations": n, "problems": bad})
	}
}

// c18ManyInvalidPeers (C18): the pool declares dozens of the node's peers
// invalid in one round: each of them, and nothing else, is un-trusted and
// disconnected.
func c18ManyInvalidPeers(ev *vlib.Evidence, nLocal, nInvalid int, strict bool) {
	node := &vlib.FakeEth{ID: vlib.NewIdentity("c18self", 0).NodeID, NodeKind: ethnode.Geth, Full: true}
	invalid := []string{}
	active := []string{}
	for i := 0; i < nLocal; i++ {
		p := vlib.NewIdentity("vol-c18-peer", i)
		pi := ethnode.PeerInfo{ID: p.NodeID}
		pi.Network.RemoteAddress = fmt.Sprintf("198.51.100.%d:30303", 1+i%250)
		node.PeerList = append(node.PeerList, pi)
		if i < nInvalid {
			invalid = append(invalid, p.NodeID)
		} else {
			active = append(active, fmt.Sprintf("enode://%s@198.51.100.%d:30303", p.NodeID, 1+i%250))
		}
	}
	sort.Strings(invalid)
	sp := &scriptedPool{}
	sp.nextUpdate = func(n int, req pool.UpdateRequest) (*pool.UpdateResponse, error) {
		return &pool.UpdateResponse{ActivePeers: append([]string{}, active...), InvalidPeers: append([]string{}, invalid...)}, nil
	}
	a := &agent.Agent{EthNode: node, NumHosts: 0, StrictPeers: strict, UpdateInterval: time.Hour}
	if err := a.Start(sp); err != nil {
		ev.Violate("volume:start-failed", map[string]interface{}{"err": err.Error()})
		return
	}
	defer func() { a.Stop(); a.Wait() }()
	calls := node.TakeCalls()
	gotUntrust, gotDisc := idSet(calls, "RemoveTrustedPeer"), idSet(calls, "DisconnectPeer")
	ev.Case(fmt.Sprintf("volume %d invalid of %d local peers strict=%v", nInvalid, nLocal, strict), true)
	ev.Count("volume-invalid-peers", int64(nInvalid))
	if strings.Join(gotUntrust, ",") != strings.Join(invalid, ",") || strings.Join(gotDisc, ",") != strings.Join(invalid, ",") {
		extra := 0
		want := map[string]bool{}
		for _, id := range invalid {
			want[id] = true
		}
		for _, id := range gotDisc {
			if !want[id] {
				extra++
			}
		}
		ev.Violate("volume:dropped-set-with-many-invalid-peers", map[string]interface{}{"declared_invalid": nInvalid, "untrusted": len(gotUntrust), "disconnected": len(gotDisc), "dropped_although_not_declared": extra, "strict": strict})
	}
}
