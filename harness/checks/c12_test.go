package checks

import (
	"fmt"
	"sync"
	"testing"
	"time"

	"github.com/vipnode/vipnode/v2/pool/store"
	"verifharness/vlib"
)

type c12Step struct {
	Op      string `json:"op"`
	Model   string `json:"model"`
	Memory  string `json:"memory,omitempty"`
	Badger  string `json:"badger,omitempty"`
	Verdict string `json:"verdict,omitempty"`
}

// runStoreHistory runs one generated history against the given drivers and
// the model. It returns the step log; violations are reported through ev.
// reopen (optional) is called between operations with the step index and may
// replace a store (close/reopen).
func runStoreHistory(ev *vlib.Evidence, prop string, label string, idx int, ops []vlib.StoreOp, names []string, stores []store.Store, reopen func(step int, which int) store.Store) (steps []c12Step, nontrivial bool, conclusive bool) {
	model := vlib.NewRefStore()
	base := time.Now()
	conclusive = true
	mutations := 0
	for si, op := range ops {
		if reopen != nil {
			for w := range stores {
				if ns := reopen(si, w); ns != nil {
					stores[w] = ns
				}
			}
		}
		results := make([]vlib.ExecResult, len(stores))
		for w, s := range stores {
			results[w] = vlib.ExecStoreOp(s, op, base)
		}
		t0, t1 := results[0].T0, results[len(results)-1].T1
		mres, eligible, decidable := vlib.ModelStoreOp(model, op, base, t0, t1)
		if !decidable || time.Since(base) > 5*time.Second {
			conclusive = false
			return
		}
		step := c12Step{Op: op.String(), Model: mres}
		for w := range stores {
			got := results[w].Res
			if names[w] == "memory" {
				step.Memory = got
			} else {
				step.Badger = got
			}
			bad := ""
			if got != mres {
				bad = fmt.Sprintf("result %q, contract prescribes %q", got, mres)
			} else if op.Op == "ActiveHosts" && !vlib.SubsetOf(results[w].Hosts, eligible) {
				bad = fmt.Sprintf("returned hosts %v not a duplicate-free subset of eligible %v", results[w].Hosts, eligible)
			} else if op.Op == "GetNode" && mres != "ErrUnregisteredNode" {
				_, rn := model.GetNode(op.ID)
				ls := results[w].LastSeen
				if ls.Before(rn.SeenLo.Add(-time.Microsecond)) || ls.After(rn.SeenHi.Add(time.Microsecond)) {
					bad = fmt.Sprintf("LastSeen %v outside [%v,%v]", ls, rn.SeenLo, rn.SeenHi)
				}
			}
			if bad != "" {
				step.Verdict = names[w] + ": " + bad
				steps = append(steps, step)
				ev.Violate(fmt.Sprintf("%s:%s:%s", names[w], op.Op, classify(got, mres)), map[string]interface{}{
					"history": label, "index": idx, "step": si, "driver": names[w], "problem": bad, "steps": steps, "ops": ops[:si+1],
				})
				return steps, true, true
			}
		}
		switch op.Op {
		case "SetNode", "AddNodeBalance", "AddAccountBalance", "AddAccountNode", "UpdateNodePeers", "CheckAndSaveNonce":
			if mres[:2] == "ok" {
				mutations++
			}
		}
		steps = append(steps, step)
	}
	return steps, mutations >= 3, true
}

// classify turns a (got, want) pair into a short stable class for the
// violation key.
func classify(got, want string) string {
	g, w := got, want
	if len(g) > 2 && g[:2] == "ok" {
		g = "ok"
	}
	if len(w) > 2 && w[:2] == "ok" {
		w = "ok"
	}
	if g == w {
		return "value"
	}
	return "got-" + g + "-want-" + w
}

func TestC12(t *testing.T) {
	ev := vlib.NewEvidence("C12", "exploration",
		"(pool) the same signed session (registrations, wallet links, billed keep-alives, peer requests, pool_account for linked / never-seen / empty wallets) against a pool on each driver: every reply and error identical, timestamps aside; random operation histories (length 10..60) over node ids {n1..n4,\"\",x:y}, accounts {A,B,\"\"} and (every third history) production-style ids: 128-hex node ids in lower/upper/0x spelling and checksummed wallet addresses sharing a 12-character prefix, amounts {0,±1,±2^64,±10^30,..}; each history runs on the memory and the badger driver and on an executable model of the documented contract; non-trivial = at least 3 successful mutating operations; distinct = distinct operation sequences; (faults) links under keep-alive load with a statistics reader on both drivers")
	ev.Assume("time classes stay ≥10 s away from the 120 s activity window and ≥30 s from the 15 min nonce window; histories taking >5 s wall are discarded as inconclusive")
	n := vlib.Scale(5000, 150000)
	alphaDefault, alphaReal := vlib.DefaultAlphabet(), vlib.RealisticAlphabet()
	var opMu sync.Mutex
	opCount := map[string]int64{}
	parallelCases(n, 12, func(i int) {
		r := vlib.Rand("C12", i)
		length := 10 + r.Intn(51)
		alpha := alphaDefault
		if i%3 == 2 {
			alpha = alphaReal // production-style ids: 128-hex node ids in three spellings, wallet addresses with a common prefix
		}
		ops := make([]vlib.StoreOp, length)
		desc := ""
		for j := range ops {
			ops[j] = vlib.GenStoreOp(r, alpha)
			desc += ops[j].String() + ";"
			opMu.Lock()
			opCount[ops[j].Op]++
			opMu.Unlock()
		}
		mem, cm, err := vlib.OpenStore(vlib.DriverMemory)
		if err != nil {
			panic(err)
		}
		bad, cb, err := vlib.OpenStore(vlib.DriverBadgerMem)
		if err != nil {
			panic(err)
		}
		steps, nontrivial, conclusive := runStoreHistory(ev, "C12", "C12", i, ops, []string{"memory", "badger"}, []store.Store{mem, bad}, nil)
		cm()
		cb()
		if !conclusive {
			ev.Inconclusive("time-class")
			return
		}
		ev.Case(desc, nontrivial)
		if i < 2 {
			ev.Sample(map[string]interface{}{"index": i, "steps": steps})
		}
	})
	for k, v := range opCount {
		ev.Count("op:"+k, v)
	}
	parallelCases(vlib.Scale(20, 400), 4, func(i int) { c12PoolDifferential(ev, i) })
	parallelCases(vlib.Scale(40, 800), 4, func(i int) { c12LinkUnderLoad(ev, i) })
	finish(t, ev)
}
