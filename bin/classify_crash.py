#!/usr/bin/env python3
"""usage: classify_crash.py <log>  -> prints 'sut <signature>' when the test
process died of a Go panic / fatal error whose innermost non-standard-library
frame belongs to the repository under test, 'harness' when it belongs to the
harness, '' when there is no crash."""
import re, sys
s = open(sys.argv[1], errors='replace').read()
m = re.search(r'^(panic: .*|fatal error: .*)$', s, re.M)
if not m:
    sys.exit(0)
if 'NOTE harness watchdog fired' in s[:m.start()]:
    # a call was abandoned by the harness before the crash: the crash may be that abandoned call
    # running into what the harness tore down afterwards - it decides nothing
    print('harness'); sys.exit(0)
rest = s[m.end():]
g = re.search(r'^goroutine \d+ \[[^\]]*\]:\n', rest, re.M)
if not g:
    print('harness'); sys.exit(0)
block = rest[g.end():].split('\n\n', 1)[0]
frames = [l for l in block.split('\n') if l and not l.startswith('\t') and '(' in l]
for f in frames:
    name = f.rsplit('(', 1)[0]
    if name.startswith('panic') or name.startswith('runtime.') or name.startswith('testing.'):
        continue
    if name.startswith('github.com/vipnode/vipnode/v2'):
        msg = re.sub(r'0x[0-9a-f]+', '0x..', m.group(1))
        msg = re.sub(r'\[[^\]]*\]', '[..]', msg)
        print('sut ' + msg + ' @ ' + name.replace('github.com/vipnode/vipnode/v2/', ''))
        sys.exit(0)
    if name.startswith('verifharness/'):
        print('harness'); sys.exit(0)
    # standard library / third-party frame: keep looking outwards
print('harness')
