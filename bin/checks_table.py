NOT_APPLICABLE = {}
add("C12", "exploration", "model-based differential testing of both store drivers against an executable contract model (runtime monitor over recorded call results)",
    "Random operation histories run on the memory and badger drivers and on a reference model of the documented Store contract; every return value and error is compared. Sampled histories, not all histories.",
    "Trusts the harness's reference model (DESIGN.md appendix A) and that time classes kept >=10 s from the window boundaries behave like all others.")
add("C11", "exploration", "tracked-peer reference model compared online with store results and vipnode_update replies (runtime monitor with injected LastSeen classes)",
    "Store-level and pool-level keep-alive histories with injected check-in ages on both drivers; inactive lists, NodePeers, InvalidPeers and ActivePeers are compared with a tracked-peer model after every step.",
    "The 120 s boundary is approached only to +-10 s (drivers read the wall clock); trusts the harness model.")
add("C02", "exploration", "exact rational-arithmetic reference for every balance delta on a virtual billing clock (hooked clock), slicing-invariance oracle",
    "Manager-level grids and signed pool-level keep-alive histories on a pinned billing clock; every account delta, the reply balance and the LastSeen advance are compared with floor(elapsed*price/interval); the same span billed in 1/few/many slices must agree within one unit per update per peer.",
    "Trusts the verif clock hook (VerifSetNow) to be the only time source of the billing formula; spans < 100 years.")
add("C01", "exploration", "conservation oracle (ledger total computed two ways) after every operation of sequential, fault-injected and concurrent histories",
    "Random pool histories incl. low-balance cut-offs, wallet linking, forged requests; single injected store faults; concurrent updates with injected delays; the sum of all credit must stay 0 (Stats and per-account sum).",
    "Fault discipline: at most one failing store call per pool operation. Concurrency coverage is what the scheduler and injected delays produced.")
add("C03", "exploration", "threshold-grid oracle on store-read balances plus recorded vipnode_disconnect fan-out (runtime monitor over fake hosts)",
    "Connects and billed keep-alives with balance-after-charge placed at min-1/min/min+1/far on all deposit/credit splits and charge sizes; refusal iff below, reported balance equals stored balance, every connected peering host receives vipnode_disconnect(client).",
    "Deposits are modelled by a harness BalanceStore wrapper equivalent to contractPayment's deposit overlay.")
add("C04", "exploration", "single-component alteration of reference-signed requests against the live endpoints, with an independent reference signer and a state digest (runtime monitor)",
    "7 endpoints x 2 identity styles: the valid request must pass verification; each alteration of method, identity, key, nonce, every params leaf, every R||S byte, malformed signatures must be refused with a verification error and leave the pool digest unchanged.",
    "Calls go through jsonrpc2.Local behind recover; V-byte changes and the legacy update form are only required not to crash / to be accepted (documented limits).")
add("C06", "exploration", "state-digest comparison around injected refused requests in live sessions, plus follow-up request with a lower fresh nonce",
    "Refused requests of 5 kinds injected against all 7 endpoints at random session points; digest of stats, nodes, peers, balances, links, NumRemotes and fake-host call logs must be identical before/after, and the victim's next lower-but-fresh nonce must still verify.",
    "The digest covers what is reachable from RPCs for the session's id universe; nonce consumption is observed through the follow-up request.")
add("C05", "exploration", "high-water-mark model on sequential signed RPCs; porcupine linearizability check of racing duplicate submissions; reopen and TTL scenarios",
    "Sequential nonce classes around the mark and the freshness window; concurrent copies of the same signed request over Local and Remote connections checked with porcupine and an acceptance count; replay across close/reopen of an on-disk store; TTL scenario with the hooked freshness window.",
    "Freshness boundary is only approached to 1 minute; concurrency coverage is what the scheduler produced (overlapping pairs are counted).")
add("C07", "fault_enumeration", "conservation + per-withdrawal oracle over settle-handler event log with settlement failing at every attempt; porcupine on racing withdrawals",
    "Sequential accrue/withdraw histories with the settlement failing at attempt k for each k; racing withdrawals with the settle handler holding the window open; paid = balance - fee once, nothing left, failed/refused => nothing paid and unchanged.",
    "Settle handler modelled as the contract's OpSettle (replaces the deposit); constant fees only configured with a minimum above the fee, as pool.go does.")
add("C08", "exploration", "eligible/acknowledged-set oracle over generated pool populations with logical ack stamps recorded by fake hosts",
    "Generated populations (kind, freshness, connection, already-peered, whitelist behaviour incl. errors/delays/timeouts), requested counts incl. negative and legacy default, MaxRequestHosts; every returned host must be eligible and have acknowledged before the reply; count bounds; exact count when all are healthy.",
    "Freshness injected >=10 s from the window; timeout hosts cost the constant 5 s and are a fixed share.")
add("C09", "exploration", "shadow-registry invariant checked after every event of exhaustively enumerated connect/reconnect/close sequences, plus racing rounds",
    "All event sequences up to a length bound over 1 and 2 hosts with a probe after each event: which connection object receives vipnode_whitelist and NumRemotes vs a shadow registry; racing closes/reconnects vs in-flight requests checked at quiescence.",
    "Connections are in-memory codecs closed the way server.go does (serve loop ends, then CloseRemote); exhaustive only up to the stated length bounds.")
add("C19", "exploration", "parse-back oracle on stored and handed-out node URIs over a source-address x override grid",
    "Every (endpoint, source address class, override class): accepted registrations must parse back (ethnode.ParseNodeURI + net.SplitHostPort) to the authenticated id, supplied-or-source host and supplied-or-30303 port; undeterminable addresses refused.",
    "Exotic overrides only need to keep the id binding and not crash.")
add("C14", "exploration", "token-echo monitor over a PRNG reordering network between two real Remotes (history oracle: own reply, exactly-once handling, context-service identity, cancellation with withheld reply)",
    "Concurrent callers on both ends with unique tokens over a network that reorders deliveries and withholds replies; nested call-backs; cancellations issued while the reply is provably withheld; also net.Pipe and loopback TCP; pending-table size observed through the verif hook.",
    "Sampled delivery orders (counted in evidence); stall detection is logical progress; PendingLimit configurations stay below the limit.")
add("C17", "exploration", "written-vs-read sequence comparison through byte-chunking transports under every codec; concurrent-writer integrity check",
    "Message sequences through IOCodec, HTTP, gorilla and gobwas codecs with the byte stream delivered as 1-byte reads, small/random pieces, fully coalesced or with pauses (chunking conn installed below the WebSocket layer); concurrent writers on TCP and gorilla.",
    "Chunking is injected on the reader side of loopback TCP / in-memory streams; write-side segmentation is whatever the kernel does.")
add("C10", "exploration", "Go race detector (pure-Go math/big build) over concurrent workloads in a child process; porcupine linearizability per key; acknowledged-charge accounting; deep-hash snapshot monitor",
    "Race reports de-duplicated by innermost repository frames; store histories checked with porcupine against counter/high-water/register models; pool rounds over Local, Remote, TCP and HTTP with per-host credit = sum of acknowledged charges; snapshots re-hashed after later writes.",
    "Interleavings are those the scheduler and injected sleeps produced (overlapping same-key pairs are counted). The race detector sees only executed paths.")
add("C18", "exploration", "recorded node calls of the real Agent compared online with a reconciliation model (recording fake EthNode + scripted pool)",
    "Generated local peer sets, pool replies, strict/non-strict, targets, node kinds, pool errors and multi-round histories; the sets of un-trusted/disconnected ids, the peer request (shortfall, kind) and the ConnectPeer calls must equal the model; nothing happens after a failed keep-alive.",
    "Host normalisation in the oracle is the harness's own implementation (loopback/unspecified/localhost = no host; ports ignored).")
add("C20", "exploration", "goroutine-stack census of the keep-alive loop after every lifecycle step; cadence count; CLI bound probes on the built binary",
    "Random Start/Stop/Wait/forced-update sequences with pool failures at connect, first and k-th keep-alive; the number of live serveUpdates goroutines is read from a dump of all stacks after every step; concurrent Starts; keep-alives per window; the built binary's --update-interval bounds and SIGINT shutdown.",
    "Stop on an idle agent is not exercised; cadence upper bound is the logical ticker bound, lower bound deliberately loose.")
add("C16", "exploration", "exhaustive probing of a source-derived name grid and per-method arity/type grid against the built binaries and the in-process registry, with invocation counters / state digest",
    "Names derived from the tree with go/parser x prefixes x case variants probed against the built pool binary (HTTP, WebSocket), the built agent binary (reverse channel) and in-process registries; per registered method every wrong arity, absent/null/non-array params and every other JSON type per position must give invalid-params and not run the method.",
    "Exhaustive over the generated grid only; null at a parameter position is not treated as wrongly typed.")
add("C15", "exploration", "structure-aware hostile-input generation against in-process handlers (supervised child, inputs logged first) and against the built pool/agent binaries as child processes with crash-signature extraction and canary connections",
    "Requests per endpoint with hostile arities/leaves/signatures and correctly signed hostile parameters; byte/shape garbage; unsolicited, duplicate and empty replies; a harness playing malicious host and malicious pool; process death, panics, missing or malformed replies and unanswered canaries are violations.",
    "Coverage is the generated corpus (counts per class in evidence). ASan/race builds only in the thorough tier. A process-fatal error is attributed to the last logged input.")
add("C13", "fault_enumeration", "process-kill harness (child writer with start/ack log, SIGKILL at PRNG-chosen acknowledgement counts; strace write-fault injection at value-log boundaries in the thorough tier) + model comparison after reopen; reader invariant monitor; raw key-space diff for migrations",
    "On-disk badger opened like pool.go: close/reopen inside model-checked histories; SIGKILL of a writer child at chosen points with the reopened state compared to the model after the acknowledged prefix (or prefix+1 for the in-flight operation); concurrent readers of the ledger total during link operations; version matrix 0/1/current/current+1 with byte-level key comparison.",
    "Only process kill, not power loss; kill points are a sample (quick) or the value-log write boundaries reachable by strace injection (thorough); kills are armed after Open returned.")
