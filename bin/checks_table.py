NOT_APPLICABLE = {}
add("C12", "exploration", "model-based differential testing of both store drivers against an executable contract model (runtime monitor over recorded call results)",
    "Random operation histories run on the memory and badger drivers and on a reference model of the documented Store contract; every return value and error is compared. Sampled histories, not all histories.",
    "Trusts the harness's reference model (DESIGN.md appendix A) and that time classes kept >=10 s from the window boundaries behave like all others.")
