NOT_APPLICABLE = {}
add("C12", "exploration", "model-based differential testing of both store drivers against an executable contract model (runtime monitor over recorded call results)",
    "Random operation histories run on the memory and badger drivers and on a reference model of the documented Store contract; every return value and error is compared. Sampled histories, not all histories.",
    "Trusts the harness's reference model (DESIGN.md appendix A) and that time classes kept >=10 s from the window boundaries behave like all others.")
add("C11", "exploration", "tracked-peer reference model compared online with store results and vipnode_update replies (runtime monitor with injected LastSeen classes)",
    "Store-level and pool-level keep-alive histories with injected check-in ages on both drivers; inactive lists, NodePeers, InvalidPeers and ActivePeers are compared with a tracked-peer model after every step.",
    "The 120 s boundary is approached only to +-10 s (drivers read the wall clock); trusts the harness model.")
add("C02", "exploration", "exact rational-arithmetic reference for every balance delta on a virtual billing clock (hooked clock), slicing-invariance oracle",
    "Manager-level grids and signed pool-level keep-alive histories on a pinned billing clock; every account delta, the reply balance and the LastSeen advance are compared with floor(elapsed*price/interval); the same span billed in 1/few/many slices must agree within one unit per update per peer.",
    "Trusts the verif clock hook (VerifSetNow) to be the only time source of the billing formula; spans < 100 years.")
add("C01", "exploration", "conservation oracle (ledger total computed two ways) after every operation of sequential, fault-injected and concurrent histories",
    "Random pool histories incl. low-balance cut-offs, wallet linking, forged requests; single injected store faults; concurrent updates with injected delays; the sum of all credit must stay 0 (Stats and per-account sum).",
    "Fault discipline: at most one failing store call per pool operation. Concurrency coverage is what the scheduler and injected delays produced.")
add("C03", "exploration", "threshold-grid oracle on store-read balances plus recorded vipnode_disconnect fan-out (runtime monitor over fake hosts)",
    "Connects and billed keep-alives with balance-after-charge placed at min-1/min/min+1/far on all deposit/credit splits and charge sizes; refusal iff below, reported balance equals stored balance, every connected peering host receives vipnode_disconnect(client).",
    "Deposits are modelled by a harness BalanceStore wrapper equivalent to contractPayment's deposit overlay.")
