#!/usr/bin/env python3
"""Regenerates /verif/MANIFEST.json from the table below (kept in one place so
the manifest is always schema-valid)."""
import json, os, subprocess
ROOT = os.path.dirname(os.path.dirname(os.path.abspath(__file__)))

# id -> (level, technique, level text, level note, design ref)
BUILT = {}
def add(pid, level, technique, text, note):
    BUILT[pid] = dict(level=level, technique=technique, text=text, note=note)

exec(open(os.path.join(ROOT, "bin", "checks_table.py")).read())

ALL = ["C%02d" % i for i in range(1, 21)]
hooks = subprocess.run(["git", "-C", "/repo", "log", "--format=%H %s"], capture_output=True, text=True).stdout.splitlines()
hook_commits = [l.split()[0] for l in hooks if " verif hook:" in " " + l]
checks = []
for pid in ALL:
    if pid not in BUILT:
        continue
    b = BUILT[pid]
    checks.append({
        "property_id": pid,
        "quick_cmd": "bin/check %s quick" % pid,
        "thorough_cmd": "bin/check %s thorough" % pid,
        "evidence_file": "/verif/evidence/%s.json" % pid,
        "replay_cmd_template": "bin/check %s quick --replay {path}" % pid,
        "engine": "harness",
        "level_claimed": {"category": b["level"], "text": b["text"], "design_ref": "DESIGN.md §4 " + pid},
        "level_note": b["note"],
        "technique": b["technique"],
    })
na = [{"property_id": p, "reason": NOT_APPLICABLE.get(p, "no check registered yet in this revision (construction in progress; see DESIGN.md §6b)")} for p in ALL if p not in BUILT]
m = {
    "version": 1,
    "setup_cmd": "bin/setup",
    "hooks": {
        "guard": "verif",
        "enable": "go test -c -race -tags 'verif math_big_pure_go' (harness module with replace => /repo); go build -tags verif for binaries",
        "baseline_off_cmd": "cd /repo && GOFLAGS=-mod=mod GOPROXY=off GOSUMDB=off GOTOOLCHAIN=local go test -json -vet=off -count=1 -timeout 25m ./...",
        "source_commits": hook_commits,
        "add_only": True,
    },
    "engines": [{"name": "harness", "path": "/verif/harness", "serves_properties": sorted(BUILT), "kind_free_text": "Go test binary built with -race against /repo's working tree: runtime monitors (reference models, conservation/history oracles, porcupine), child-process runners"}],
    "checks": checks,
    "notes": "Runtime monitoring and sanitizers only. Exit codes: 0 held, 1 violation (VIOLATION line), 2 harness could not decide. Known findings: /verif/known_findings.txt.",
    "not_applicable": na,
}
json.dump(m, open(os.path.join(ROOT, "MANIFEST.json"), "w"), indent=1)
print("manifest: %d checks, %d not claimed" % (len(checks), len(na)))
