#!/usr/bin/env python3
"""Prints the DESIGN.md §10 table from seeded/*/meta.json (ids in numeric order)."""
import json, glob, re, os
root = os.path.dirname(os.path.dirname(os.path.abspath(__file__)))
rows = []
for f in glob.glob(os.path.join(root, 'seeded', 'S*', 'meta.json')):
    m = json.load(open(f))
    sid = m.get('id') or os.path.basename(os.path.dirname(f))
    n = int(re.match(r'S(\d+)', sid).group(1))
    caught = m.get('caught_by', '')
    if isinstance(caught, list):
        caught = ', '.join(caught)
    res = m.get('result') or m.get('result_after_strengthening') or ''
    if not m.get('result'):
        fr = m.get('first_run_result') or m.get('first_run') or ''
        if 'FIRED' in fr:
            res = 'first run: ' + re.sub(r'^.*keys: ', '', fr).strip(' ;')
        elif res:
            res = 'first run silent; now ' + res
    if m.get('strengthening'):
        res += ' — ' + m['strengthening']
    if m.get('superseded'):
        caught += ' (superseded: see meta.json)'
    rows.append((n, sid, m.get('property', ''), caught, res.replace('|', '/').replace('\n', ' ')))
print('| id | property | caught by | result / key (first-run remarks) |')
print('|---|---|---|---|')
for n, sid, p, c, r in sorted(rows):
    print(f'| {sid} | {p} | {c} | {r} |')
