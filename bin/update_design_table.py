#!/usr/bin/env python3
"""Replaces the rows S82.. of the DESIGN.md §10 table with rows generated from seeded/*/meta.json."""
import subprocess, re, os
root = os.path.dirname(os.path.dirname(os.path.abspath(__file__)))
p = os.path.join(root, 'DESIGN.md'); s = open(p).read()
gen = subprocess.run(['python3', os.path.join(root, 'bin/seeded_table.py')], capture_output=True, text=True).stdout.splitlines()
rows = [l for l in gen[2:] if int(re.match(r'\| S(\d+)', l).group(1)) >= 82]
out = [l for l in s.split('\n') if not (re.match(r'\| S(\d+)-', l) and int(re.match(r'\| S(\d+)-', l).group(1)) >= 82)]
s = '\n'.join(out)
anchor = [l for l in out if l.startswith('| S81-')][0]
s = s.replace(anchor, anchor + '\n' + '\n'.join(rows), 1)
open(p, 'w').write(s)
print(len(rows), 'rows')
